import SemVerif.Lemmas.FlowLay
import SemVerif.Lemmas.T2Fn
import SemVerif.Lemmas.ExtEvents
import SemVerif.Spec.Findings
import SemVerif.Lemmas.FlowF2
import SemVerif.Props.C10Res
/-!
# Lemmas/FlowAna — the analyzer emits laid-out code (family T4, analyzer half)

For a function analysed without error whose body does not match findings F2 / F3, the root stack is
a layout (`Lay`) of the structured flow `FnDecl.flow` of the source: every control construct emits
its labels, jumps and branch in the shape the layout rules describe, and everything below the
control constructs is straight-line code with one effect instruction per event.  Mutual structural
induction in continuation-passing style on top of the T2 relation `DRel` (which supplies the
success of every evaluation and the number of call events).
-/
namespace SemVerif

/-! ### Straight-line code below the control constructs -/

theorem straight_of_writes {i : Instr} {w : Nat} (hw : i.writes = some w) : i.isRet = false := by
  cases i <;> simp [Instr.writes, Instr.isRet, Instr.isFnReturn, Instr.isJumpReturn] at hw ⊢
theorem straight_of_declares {i : Instr} {v : Value} (hd : i.declares = some v) : i.isRet = false := by
  cases i <;> simp [Instr.declares, Instr.isRet, Instr.isFnReturn, Instr.isJumpReturn] at hd ⊢

theorem estep_seg {s s' : St} (st : EStep s s') :
    ∃ seg, s'.root.context = s.root.context ++ seg ∧ ∀ i ∈ seg, i.straight = true := by
  cases st with
  | incReg => exact ⟨[], by simp [St.incReg, St.mapFrames], by simp⟩
  | emit i _ _ hl _ hr ht =>
    exact ⟨[i], rfl, by intro j hj; simp at hj; subst hj; simp [Instr.straight, ht, hl, hr]⟩
  | incEmit i hw _ hl _ ht =>
    exact ⟨[i], rfl, by intro j hj; simp at hj; subst hj; simp [Instr.straight, ht, hl, straight_of_writes hw]⟩
  | addErr k v l o => exact ⟨[], by simp [St.addErr], by simp⟩
  | declare n v i hi _ hl _ _ ht =>
    refine ⟨[i], ?_, by intro j hj; simp at hj; subst hj; simp [Instr.straight, ht, hl, straight_of_declares hi]⟩
    unfold St.push St.registerInner St.mapFrames St.insertValue St.mapCur
    cases s.inner <;> rfl

theorem esteps_seg {s s' : St} (h : ESteps s s') :
    ∃ seg, s'.root.context = s.root.context ++ seg ∧ ∀ i ∈ seg, i.straight = true := by
  induction h with
  | refl => exact ⟨[], by simp, by simp⟩
  | tail _ st ih =>
    obtain ⟨seg1, h1, s1⟩ := ih
    obtain ⟨seg2, h2, s2⟩ := estep_seg st
    exact ⟨seg1 ++ seg2, by rw [h2, h1, List.append_assoc], by
      intro i hi; rcases List.mem_append.mp hi with h | h; exact s1 i h; exact s2 i h⟩

/-! ### Effect instructions are the effect events of the reading -/

def DStmt.isEff : DStmt → Bool
  | .letD _ _ _ | .assign _ _ | .callS _ | .ret _ | .jret _ _ => true
  | _ => false

def countEff (l : List DStmt) : Nat := (l.filter DStmt.isEff).length

theorem countEff_append (a b : List DStmt) : countEff (a ++ b) = countEff a + countEff b := by
  simp [countEff, List.filter_append]

theorem countEff_step (A : AbsSt) (i : Instr) :
    countEff (abstractStep A i).out = countEff A.out + (if i.isEffect then 1 else 0) := by
  cases i <;> simp [abstractStep, AbsSt.emit, AbsSt.bind, countEff, DStmt.isEff, Instr.isEffect, List.filter_append] <;> rfl

theorem countEff_fold (stack : List Instr) : ∀ (A : AbsSt),
    countEff (stack.foldl abstractStep A).out = countEff A.out + effCount stack := by
  induction stack with
  | nil => intro A; simp [effCount]
  | cons i rest ih =>
    intro A
    simp only [List.foldl_cons]
    rw [ih, countEff_step, effCount_cons, Nat.add_assoc]

theorem eff_of_drel {g : Globals} {R : Ty} {s : St} {ss : SpecSt} (h : DRel g R s ss) : effCount s.root.context = countEff ss.out := by
  rw [← h.out]
  unfold St.abs abstractFold
  rw [countEff_fold]
  simp [AbsSt.init, countEff]

/-! ### Call events of the source denotation -/

theorem calls_more (v : ExprValue) (o : Op) (e : Expr) : (Expr.mk v (some (o, e))).calls = v.calls + e.calls := by
  rw [Expr.calls]
theorem calls_last (v : ExprValue) : (Expr.mk v none).calls = v.calls := by rw [Expr.calls]

mutual
theorem ce_specExpr (s : SpecSt) : ∀ e, countEff (specExpr false s e).1 = e.calls
  | .mk v none => by
    rw [specExpr_events, calls_last]
    unfold specRest
    simp only [List.map_nil, List.flatten_nil, List.append_nil]
    exact ce_specVal s v
  | .mk v (some (o, e)) => by
    rw [specExpr_events, countEff_append, ce_specVal s v, calls_more, ce_specRest s o e]
theorem ce_specRest (s : SpecSt) : ∀ o e, countEff ((specRest false s (some (o, e))).map (·.2.1)).flatten = e.calls
  | o, .mk v none => by
    unfold specRest
    simp only [List.map_cons, List.flatten_cons]
    unfold specRest
    simp only [List.map_nil, List.flatten_nil, List.append_nil]
    rw [calls_last]
    exact ce_specVal s v
  | o, .mk v (some (o2, e2)) => by
    unfold specRest
    simp only [List.map_cons, List.flatten_cons]
    rw [countEff_append, ce_specVal s v, ce_specRest s o2 e2, calls_more]
theorem ce_specVal (s : SpecSt) : ∀ v, countEff (specVal false s v).1 = v.calls
  | .var x => by unfold specVal ExprValue.calls; rfl
  | .lit v => by unfold specVal ExprValue.calls; rfl
  | .call f args => by
    unfold specVal ExprValue.calls
    dsimp only
    rw [countEff_append, ce_specArgs s args]
    rfl
  | .field x a => by unfold specVal ExprValue.calls; rfl
  | .sub e => by unfold specVal ExprValue.calls; exact ce_specExpr s e
  | .ext tag ty => by unfold specVal ExprValue.calls; simp [countEff, DStmt.isEff]
theorem ce_specArgs (s : SpecSt) : ∀ as, countEff (specArgs false s as).1 = Expr.callsL as
  | [] => by unfold specArgs Expr.callsL; rfl
  | e :: es => by
    unfold specArgs Expr.callsL
    dsimp only
    rw [countEff_append, ce_specExpr s e, ce_specArgs s es]
end

/-! ### Statement-level event counts of the source denotation -/

theorem cnt_let (g : RGlobals) (b : LetB) (s : SpecSt) :
    countEff (specLet false g b s).out = countEff s.out + (b.value.calls + 1) := by
  unfold specLet
  simp only [SpecSt.declare, SpecSt.emits, SpecSt.emit]
  rw [countEff_append, countEff_append, ce_specExpr]
  rfl

theorem cnt_bind (b : Bind) (s : SpecSt) :
    countEff (specBind false b s).out = countEff s.out + (b.value.calls + 1) := by
  unfold specBind
  simp only [SpecSt.emits, SpecSt.emit]
  rw [countEff_append, countEff_append, ce_specExpr]
  rfl

theorem cnt_callS (c : CallS) (s : SpecSt) :
    countEff (specCallS false c s).out = countEff s.out + (Expr.callsL c.args + 1) := by
  unfold specCallS
  simp only [SpecSt.emits]
  rw [countEff_append, ce_specVal]
  unfold ExprValue.calls
  rfl

theorem cnt_jret (e : Expr) (s : SpecSt) : countEff (specJret false rg e s).out = countEff s.out + (e.calls + 1) := by
  unfold specJret
  simp only [SpecSt.emits, SpecSt.emit]
  rw [countEff_append, countEff_append, ce_specExpr]
  rfl

theorem cnt_ret (e : Expr) (s : SpecSt) : countEff (specRet false e s).out = countEff s.out + (e.calls + 1) := by
  unfold specRet
  simp only [SpecSt.emits, SpecSt.emit]
  rw [countEff_append, countEff_append, ce_specExpr]
  rfl

theorem ce_specLogic (s : SpecSt) : ∀ lc, countEff (specLogic false s lc).1 = lc.calls
  | .mk c none => by
    unfold specLogic LogicCond.calls
    dsimp only
    rw [countEff_append, ce_specExpr, ce_specExpr]
  | .mk c (some (lg, rc)) => by
    unfold specLogic LogicCond.calls
    dsimp only
    rw [countEff_append, countEff_append, ce_specExpr, ce_specExpr, ce_specLogic s rc]

theorem cnt_ifCond (c : IfCond) (s : SpecSt) : countEff (specIfCond false c s).out = countEff s.out + c.calls := by
  unfold specIfCond IfCond.calls
  cases c with
  | single e =>
    simp only [SpecSt.emits, SpecSt.emit]
    rw [countEff_append, countEff_append, ce_specExpr]
    rfl
  | logic lc =>
    simp only [SpecSt.emits, SpecSt.emit]
    rw [countEff_append, countEff_append, ce_specLogic]
    rfl

/-! ### Continuation-passing layout claims -/

/-- between `s` and `s'` the root stack grew by code that lays out the flow `fl n` in front of
whatever is laid out after it -/
def CPS (K : LoopK) (s s' : St) (fl : Nat → List Flow × Nat) : Prop :=
  ∃ seg, s'.root.context = s.root.context ++ seg ∧
    (fl (effCount s.root.context)).2 = effCount s.root.context + effCount seg ∧
    ∀ rest code e, Lay K (effCount s.root.context + effCount seg) rest code e →
      Lay K (effCount s.root.context) ((fl (effCount s.root.context)).1 ++ rest) (seg ++ code) e

theorem CPS.eff {K : LoopK} {s s' : St} {fl : Nat → List Flow × Nat} (h : CPS K s s' fl) :
    effCount s'.root.context = (fl (effCount s.root.context)).2 := by
  obtain ⟨seg, h1, h2, _⟩ := h
  rw [h1, effCount_append, h2]

theorem CPS.refl (K : LoopK) (s : St) : CPS K s s (fun n => ([], n)) :=
  ⟨[], by simp, by simp [effCount], fun rest code e h => by simpa [effCount] using h⟩

theorem CPS.same {K : LoopK} {s s' : St} (h : s'.root.context = s.root.context) : CPS K s s' (fun n => ([], n)) :=
  ⟨[], by simp [h], by simp [effCount], fun rest code e h => by simpa [effCount] using h⟩

theorem CPS.trans {K : LoopK} {a b c : St} {f1 f2 : Nat → List Flow × Nat} (h1 : CPS K a b f1) (h2 : CPS K b c f2) :
    CPS K a c (fun n => ((f1 n).1 ++ (f2 (f1 n).2).1, (f2 (f1 n).2).2)) := by
  have he := h1.eff
  obtain ⟨seg1, c1, n1, l1⟩ := h1
  obtain ⟨seg2, c2, n2, l2⟩ := h2
  refine ⟨seg1 ++ seg2, by rw [c2, c1, List.append_assoc], ?_, ?_⟩
  · dsimp only
    rw [← he, n2, c1, effCount_append, effCount_append]; omega
  · intro rest code e h
    dsimp only
    rw [List.append_assoc, List.append_assoc]
    apply l1
    rw [← he] 
    have hb : effCount b.root.context = effCount a.root.context + effCount seg1 := by rw [c1, effCount_append]
    rw [← hb]
    apply l2
    rw [hb, Nat.add_assoc, ← effCount_append]
    exact h

/-- a straight segment with `c` effect instructions lays out `c` events -/
theorem cps_straight {K : LoopK} {s s' : St} (h : ESteps s s') (c : Nat)
    (hc : effCount s'.root.context = effCount s.root.context + c) : CPS K s s' (fun n => (evs n c, n + c)) := by
  obtain ⟨seg, h1, h2⟩ := esteps_seg h
  have hseg : effCount seg = c := by rw [h1, effCount_append] at hc; omega
  refine ⟨seg, h1, by rw [hseg], ?_⟩
  intro rest code e hl
  dsimp only
  rw [← hseg]
  exact lay_seg seg _ h2 hl

/-! ### Statements -/

/-- like `CPSv`, but what follows is never reached (return, break, continue) -/
def RetV (K : LoopK) (s s' : St) (p : List Flow × Nat) : Prop :=
  ∃ seg, s'.root.context = s.root.context ++ seg ∧ p.2 = effCount s.root.context + effCount seg ∧
    ∀ rest code e, Lay K (effCount s.root.context) (p.1 ++ rest) (seg ++ code) e


section leaves
variable {g : Globals} {R : Ty} {rg : RGlobals}

theorem eff_trans {s s1 : St} {ss : SpecSt} {evs : List DStmt} (hr : DRel g R s ss) (t : Trans g s s1 evs) :
    effCount s1.root.context = effCount s.root.context + countEff evs := by
  rw [eff_of_drel (drel_trans hr t), eff_of_drel hr]
  simp only [SpecSt.emits]
  rw [countEff_append]

theorem cps_let (hg : GlobRel g rg) (hn : GNames g) (K : LoopK) (b : LetB) (s : St) (ss : SpecSt) (hr : DRel g R s ss)
    (he : (letBinding g b s).errors = s.errors) : CPS K s (letBinding g b s) (lowerLet b) := by
  have hd := den_let hg hn b s ss hr he
  have hc : effCount (letBinding g b s).root.context = effCount s.root.context + (b.value.calls + 1) := by
    rw [eff_of_drel hd, eff_of_drel hr, cnt_let]
  exact cps_straight (esteps_letBinding g b s) _ hc

theorem cps_bind (hg : GlobRel g rg) (hn : GNames g) (K : LoopK) (b : Bind) (s : St) (ss : SpecSt) (hr : DRel g R s ss)
    (he : (binding g b s).errors = s.errors) : CPS K s (binding g b s) (lowerBind b) := by
  have hd := den_bind hg hn b s ss hr he
  have hc : effCount (binding g b s).root.context = effCount s.root.context + (b.value.calls + 1) := by
    rw [eff_of_drel hd, eff_of_drel hr, cnt_bind]
  exact cps_straight (esteps_binding g b s) _ hc

theorem cps_callS (hg : GlobRel g rg) (hn : GNames g) (K : LoopK) (c : CallS) (s : St) (ss : SpecSt) (hr : DRel g R s ss)
    (he : (callStmt g c s).errors = s.errors) : CPS K s (callStmt g c s) (lowerCallS c) := by
  have hd := den_callS hg hn c s ss hr he
  have hc : effCount (callStmt g c s).root.context = effCount s.root.context + (Expr.callsL c.args + 1) := by
    rw [eff_of_drel hd, eff_of_drel hr, cnt_callS]
  exact cps_straight (esteps_callStmt g c s) _ hc

/-- a straight segment followed by a return instruction -/
theorem cps_ret_seg {K : LoopK} {s s1 : St} (h : ESteps s s1) (c : Nat)
    (hc : effCount s1.root.context = effCount s.root.context + c) (i : Instr) (hi : i.isRet = true) (s' : St)
    (hs' : s'.root.context = s1.root.context ++ [i]) :
    RetV K s s' (evs (effCount s.root.context) c ++ [.ret (effCount s.root.context + c)], effCount s.root.context + c + 1) := by
  obtain ⟨seg, h1, h2⟩ := esteps_seg h
  have hseg : effCount seg = c := by rw [h1, effCount_append] at hc; omega
  have hie : i.isEffect = true := by
    cases i <;> simp [Instr.isRet, Instr.isFnReturn, Instr.isJumpReturn, Instr.isEffect] at hi ⊢
  refine ⟨seg ++ [i], by rw [hs', h1, List.append_assoc], ?_, ?_⟩
  · dsimp only
    rw [effCount_append, hseg]; simp [effCount, hie]; omega
  · intro rest code e
    dsimp only
    rw [List.append_assoc, List.append_assoc, ← hseg]
    exact lay_seg seg _ h2 (Lay.ret K _ _ i _ e hi)

theorem cps_jret (hg : GlobRel g rg) (hn : GNames g) (K : LoopK) (e : Expr) (s : St) (ss : SpecSt) (hr : DRel g R s ss)
    (he : (nestedReturn g e s).1.errors = s.errors) :
    RetV K s (nestedReturn g e s).1 (lowerRet e (effCount s.root.context)) ∧ (nestedReturn g e s).2 = true := by
  unfold nestedReturn at he ⊢
  cases hm : exprM g e s with
  | mk a s1 =>
    rw [hm] at he
    have hrun := fun h => expr_run hg hn e (rg := rg) (s := s) (ss := ss) hr.scope (by rw [hm]; exact h)
    cases a with
    | none =>
      dsimp only at he
      obtain ⟨r, s2, hm2, _⟩ := hrun he
      rw [hm] at hm2; simp at hm2
    | some r =>
      dsimp only at he ⊢
      have he1 : s1.errors = s.errors := he
      obtain ⟨r', s2, hm2, _, _, t1, _⟩ := hrun he1
      rw [hm] at hm2
      injection hm2 with hm2 hm3
      subst hm3
      have hst : ESteps s s1 := by have := em_exprM g e s; rw [hm] at this; exact this
      have hc := eff_trans hr t1
      rw [ce_specExpr] at hc
      exact ⟨cps_ret_seg hst e.calls hc (.jumpFnReturn r) rfl _ rfl, rfl⟩

theorem cps_fnRet (hg : GlobRel g rg) (hn : GNames g) (K : LoopK) (resTy : Ty) (e : Expr) (s : St) (ss : SpecSt)
    (hr : DRel g resTy s ss) (he : (fnReturn g resTy e false s).1.errors = s.errors) :
    RetV K s (fnReturn g resTy e false s).1 (lowerRet e (effCount s.root.context)) ∧ (fnReturn g resTy e false s).2 = true := by
  -- the evaluation succeeds
  have hx := exprM_ext g e s
  have hsucc : ∃ r s1, exprM g e s = (some r, s1) ∧ Trans g s s1 (specExpr false ss e).1 := by
    unfold fnReturn at he
    cases hm : exprM g e s with
    | mk a s1 =>
      rw [hm] at he hx
      dsimp only at he hx
      cases a with
      | none =>
        dsimp only at he
        simp only [Bool.false_eq_true, if_false] at he
        obtain ⟨r, s2, hm2, _⟩ := expr_run hg hn e (rg := rg) (s := s) (ss := ss) hr.scope (by rw [hm]; exact he)
        rw [hm] at hm2; simp at hm2
      | some r =>
        dsimp only at he
        simp only [Bool.false_eq_true, if_false] at he
        have hlen : s1.errors.length ≤ s.errors.length := by
          have := (steps_fnReturnTail g resTy e r s1).errors_ext
          obtain ⟨Δ, hΔ⟩ := this
          rw [hΔ] at he
          have := congrArg List.length he
          simp at this; omega
        have he1 : s1.errors = s.errors := eq_of_ext_len hx hlen
        obtain ⟨r', s2, hm2, _, _, t1, _⟩ := expr_run hg hn e (rg := rg) (s := s) (ss := ss) hr.scope (by rw [hm]; exact he1)
        rw [hm] at hm2
        injection hm2 with hm2 hm3
        subst hm3
        exact ⟨r, s1, rfl, t1⟩
  obtain ⟨r, s1, hm, t1⟩ := hsucc
  have hflag : (fnReturn g resTy e false s).2 = true := by
    unfold fnReturn; rw [hm]
  obtain ⟨s2, hst, hq | ⟨r2, hq⟩⟩ := fnReturn_split g resTy e false s
  · rw [hq] at hflag; cases hflag
  · refine ⟨?_, hflag⟩
    -- the effect count of the expression part
    have hctx : (fnReturn g resTy e false s).1.root.context = s2.root.context ++
        [if s2.cur.manualReturn then Instr.fnReturnWithLabel r2 else Instr.fnReturn r2] := by
      rw [hq]; dsimp only; split <;> rfl
    have hd := den_fnReturn hg hn resTy e false s ss hr he
    have hc2 : effCount s2.root.context = effCount s.root.context + e.calls := by
      have h1 := eff_of_drel hd
      rw [cnt_ret, ← eff_of_drel hr, hctx, effCount_append] at h1
      have : effCount [if s2.cur.manualReturn then Instr.fnReturnWithLabel r2 else Instr.fnReturn r2] = 1 := by
        split <;> rfl
      omega
    exact cps_ret_seg hst e.calls hc2 _ (by split <;> rfl) _ hctx

/-- the condition of an `if`: straight code with the calls of the condition, then the branch -/
theorem cond_shape (hg : GlobRel g rg) (hn : GNames g) (c : IfCond) (lb le ln : Name) (isElse : Bool) (s : St) (ss : SpecSt)
    (hr : DRel g R s ss) (he : (ifCondCalc g c lb le ln isElse s).errors = s.errors) :
    ∃ s1 br, ESteps s s1 ∧ ifCondCalc g c lb le ln isElse s = s1.push br ∧
      br.targets = [lb, if isElse then le else ln] ∧ br.isRet = false ∧ br.isEffect = false ∧
      effCount s1.root.context = effCount s.root.context + c.calls := by
  unfold ifCondCalc at he ⊢
  cases c with
  | single e =>
    dsimp only at he ⊢
    cases hm : exprM g e s with
    | mk a s1 =>
      rw [hm] at he
      have hrun := fun h => expr_run hg hn e (rg := rg) (s := s) (ss := ss) hr.scope (by rw [hm]; exact h)
      cases a with
      | none =>
        dsimp only at he
        obtain ⟨r, s2, hm2, _⟩ := hrun he
        rw [hm] at hm2; simp at hm2
      | some r =>
        dsimp only at he ⊢
        rw [push_errors] at he
        obtain ⟨r', s2, hm2, _, _, t1, _⟩ := hrun he
        rw [hm] at hm2
        injection hm2 with hm2 hm3
        subst hm3
        have hst : ESteps s s1 := by have := em_exprM g e s; rw [hm] at this; exact this
        have hc := eff_trans hr t1
        rw [ce_specExpr] at hc
        exact ⟨s1, _, hst, rfl, rfl, rfl, rfl, hc⟩
  | logic lc =>
    dsimp only at he ⊢
    cases hq : condExprM g lc s with
    | mk q s1 =>
      rw [hq] at he
      dsimp only at he ⊢
      rw [push_errors] at he
      obtain ⟨t1, _⟩ := den_cond hg hn ss lc s q s1 hq hr.scope he
      have hst : ESteps s s1 := by have := esteps_condExprM g lc s; rw [hq] at this; exact this
      have hc := eff_trans hr t1
      rw [ce_specLogic] at hc
      exact ⟨s1, _, hst, rfl, rfl, rfl, rfl, hc⟩

end leaves

/-! ### What the helpers of the control constructs append to the root stack -/

theorem ctx_push (i : Instr) (s : St) : (s.push i).root.context = s.root.context ++ [i] := rfl

theorem ctx_pushVia (k : Nat) (i : Instr) (s : St) : (s.pushVia k i).root.context = s.root.context ++ [i] := by
  unfold St.pushVia St.push St.mapFrames St.mapCur
  cases s.inner <;> rfl

theorem ctx_leave (s : St) : s.leave.2.root.context = s.root.context := (root_leave_fields s).1

theorem ctx_ifLabels (le : Option Name) (s : St) : (ifLabels le s).2.2.2.root.context = s.root.context := by
  unfold ifLabels
  dsimp only
  cases le <;> rfl

theorem ctx_ifAfterBody (isElse r : Bool) (lElse lEnd : Name) (s : St) :
    (ifAfterBody isElse r lElse lEnd s).2.root.context =
      s.root.context ++ ((if r then [] else [Instr.jumpTo lEnd]) ++ (if isElse then [Instr.setLabel lElse] else [])) := by
  unfold ifAfterBody
  dsimp only
  rw [ctx_leave]
  cases r <;> cases isElse <;> simp [ctx_push]

theorem ctx_ifAfterElse (k : Nat) (r : Bool) (lEnd : Name) (s : St) :
    (ifAfterElse k r lEnd s).root.context = s.root.context ++ (if r then [] else [Instr.jumpTo lEnd]) := by
  unfold ifAfterElse
  dsimp only
  cases r
  · simp only [Bool.false_eq_true, if_false]; rw [ctx_pushVia, ctx_leave]
  · simp only [if_true]; rw [ctx_leave]; simp

theorem ctx_ifEpilogue (k : Nat) (le : Option Name) (lEnd : Name) (s : St) :
    (ifEpilogue k le lEnd s).root.context = s.root.context ++ (if le.isSome then [] else [Instr.setLabel lEnd]) := by
  unfold ifEpilogue
  cases le
  · simp only [Option.isSome_none, Bool.false_eq_true, if_false]; rw [ctx_pushVia]
  · simp

theorem ctx_loopPrologue (s : St) :
    (loopPrologue s).2.2.root.context = s.root.context ++ [Instr.jumpTo (loopPrologue s).1, Instr.setLabel (loopPrologue s).1] := by
  unfold loopPrologue
  dsimp only
  rw [ctx_push, ctx_push]
  simp [St.probeLabel, St.enter, St.mapFrames]

theorem ctx_loopEpilogue (r : Bool) (lb le : Name) (s : St) :
    (loopEpilogue r lb le s).root.context = s.root.context ++ (if r then [] else [Instr.jumpTo lb, Instr.setLabel le]) := by
  unfold loopEpilogue
  dsimp only
  rw [ctx_leave]
  cases r <;> simp [ctx_push]

/-- an error-free `forbidden` means that no terminator has been seen -/
theorem forbidden_flags (rc bc cc : Bool) (s : St) (h : (forbidden rc bc cc s).errors = s.errors) :
    rc = false ∧ bc = false ∧ cc = false := by
  cases rc <;> cases bc <;> cases cc <;> simp [forbidden, St.addErr] at h ⊢

theorem endsRet_append (a b : List Flow) (h : endsRet b = true) : endsRet (a ++ b) = true := by
  induction a with
  | nil => exact h
  | cons x xs ih =>
    cases hb : xs ++ b with
    | nil => rw [hb] at ih; simp [endsRet] at ih
    | cons y ys =>
      show endsRet (x :: (xs ++ b)) = true
      rw [hb]
      rw [hb] at ih
      cases x <;> exact ih

theorem endsRet_lowerRet (e : Expr) (n : Nat) : endsRet (lowerRet e n).1 = true := by
  unfold lowerRet
  apply endsRet_append
  rfl

def KOf (ll : Option (Name × Name)) (b : Bool) : LoopK :=
  match ll with
  | none => none
  | some (lb, le) => some (lb, le, b)

/-! ### Value-style claims (the flow and the next event number at the current event number) -/

def CPSv (K : LoopK) (s s' : St) (p : List Flow × Nat) : Prop :=
  ∃ seg, s'.root.context = s.root.context ++ seg ∧
    p.2 = effCount s.root.context + effCount seg ∧
    ∀ rest code e, Lay K (effCount s.root.context + effCount seg) rest code e →
      Lay K (effCount s.root.context) (p.1 ++ rest) (seg ++ code) e

theorem cpsv_of {K : LoopK} {s s' : St} {fl : Nat → List Flow × Nat} (h : CPS K s s' fl) :
    CPSv K s s' (fl (effCount s.root.context)) := h

theorem CPSv.eff {K : LoopK} {s s' : St} {p : List Flow × Nat} (h : CPSv K s s' p) : effCount s'.root.context = p.2 := by
  obtain ⟨seg, h1, h2, _⟩ := h
  rw [h1, effCount_append, h2]

theorem CPSv.same {K : LoopK} {s s' : St} (h : s'.root.context = s.root.context) :
    CPSv K s s' ([], effCount s.root.context) :=
  ⟨[], by simp [h], by simp [effCount], fun rest code e h => by simpa [effCount] using h⟩

theorem CPSv.trans {K : LoopK} {a b c : St} {p1 p2 : List Flow × Nat} (h1 : CPSv K a b p1) (h2 : CPSv K b c p2) :
    CPSv K a c (p1.1 ++ p2.1, p2.2) := by
  obtain ⟨seg1, c1, n1, l1⟩ := h1
  obtain ⟨seg2, c2, n2, l2⟩ := h2
  have hb : effCount b.root.context = effCount a.root.context + effCount seg1 := by rw [c1, effCount_append]
  refine ⟨seg1 ++ seg2, by rw [c2, c1, List.append_assoc], ?_, ?_⟩
  · dsimp only
    rw [n2, hb, effCount_append]; omega
  · intro rest code e h
    dsimp only
    rw [List.append_assoc, List.append_assoc]
    apply l1
    rw [← hb]
    apply l2
    rw [hb, Nat.add_assoc, ← effCount_append]
    exact h

/-- a list that leaves by a jump to `lEnd`, followed by that jump unless it ended in a return -/
def BodyJ (K : LoopK) (s : St) (res : St × Bool) (p : List Flow × Nat) (lEnd : Name) : Prop :=
  ∃ seg, res.1.root.context = s.root.context ++ seg ∧ p.2 = effCount s.root.context + effCount seg ∧
    Lay K (effCount s.root.context) p.1 (seg ++ (if res.2 then [] else [Instr.jumpTo lEnd])) (.jump lEnd)

theorem CPSv.thenBody {K : LoopK} {a b : St} {res : St × Bool} {p1 p2 : List Flow × Nat} {lEnd : Name}
    (h1 : CPSv K a b p1) (h2 : BodyJ K b res p2 lEnd) : BodyJ K a res (p1.1 ++ p2.1, p2.2) lEnd := by
  obtain ⟨seg1, c1, n1, l1⟩ := h1
  obtain ⟨seg2, c2, n2, l2⟩ := h2
  have hb : effCount b.root.context = effCount a.root.context + effCount seg1 := by rw [c1, effCount_append]
  refine ⟨seg1 ++ seg2, by rw [c2, c1, List.append_assoc], ?_, ?_⟩
  · dsimp only
    rw [n2, hb, effCount_append]; omega
  · dsimp only
    rw [List.append_assoc]
    apply l1
    rw [← hb]
    exact l2

def PassV (K : LoopK) (s s' : St) (p : List Flow × Nat) (l0 : Name) : Prop :=
  ∃ seg, s'.root.context = s.root.context ++ seg ∧ p.2 = effCount s.root.context + effCount seg ∧
    Lay K (effCount s.root.context) p.1 seg (.jump l0)

theorem PassV.eff {K : LoopK} {s s' : St} {p : List Flow × Nat} {l0 : Name} (h : PassV K s s' p l0) :
    effCount s'.root.context = p.2 := by
  obtain ⟨seg, h1, h2, _⟩ := h
  rw [h1, effCount_append, h2]

/-- finding F2: a nested `if` that was handed the end label of the enclosing body leaves by a jump
to it, so whatever the body emits afterwards is dead code -/
theorem bodyj_dead {K : LoopK} {s s1 : St} {res : St × Bool} {p1 p2 : List Flow × Nat} {lEnd : Name}
    (h1 : PassV K s s1 p1 lEnd) (h2 : BodyJ K s1 res p2 lEnd) : BodyJ K s res (p1.1, p2.2) lEnd := by
  obtain ⟨seg1, c1, n1, l1⟩ := h1
  obtain ⟨seg2, c2, n2, _⟩ := h2
  have hb : effCount s1.root.context = effCount s.root.context + effCount seg1 := by rw [c1, effCount_append]
  refine ⟨seg1 ++ seg2, by rw [c2, c1, List.append_assoc], ?_, ?_⟩
  · dsimp only
    rw [n2, hb, effCount_append]; omega
  · dsimp only
    rw [List.append_assoc]
    exact Lay.dead _ l1

section control
variable {g : Globals} {R : Ty} {rg : RGlobals}

/-- the prologue of an `if`: straight condition code, the branch, the begin label -/
theorem prologue_shape (hg : GlobRel g rg) (hn : GNames g) (cond : IfCond) (dup isElse : Bool)
    (le : Option Name) (s : St) (ss : SpecSt) (hr : DRel g R s ss)
    (he : (ifPrologue g cond dup isElse le s).2.2.errors = s.errors) :
    ∃ seg br lBegin,
      (ifPrologue g cond dup isElse le s).2.2.root.context = s.root.context ++ (seg ++ [br, Instr.setLabel lBegin]) ∧
      (∀ i ∈ seg, i.straight = true) ∧ effCount seg = cond.calls ∧
      br.targets = [lBegin, if isElse then (ifPrologue g cond dup isElse le s).1 else (ifPrologue g cond dup isElse le s).2.1] ∧
      br.isRet = false ∧ br.isEffect = false ∧
      (∀ l0, le = some l0 → (ifPrologue g cond dup isElse le s).2.1 = l0) := by
  unfold ifPrologue at he ⊢
  dsimp only at he ⊢
  have x0 : ∃ Δ, (if dup then s.addErr .ifElseDuplicated "if-condition".toList 1 0 else s).errors = s.errors ++ Δ := by
    cases dup
    · exact ⟨[], by simp⟩
    · exact ⟨_, rfl⟩
  have hdup : (if dup then s.addErr .ifElseDuplicated "if-condition".toList 1 0 else s).errors = s.errors →
      (if dup then s.addErr .ifElseDuplicated "if-condition".toList 1 0 else s) = s := by
    cases dup
    · intro _; rfl
    · intro h
      have := congrArg List.length h
      simp [St.addErr] at this
  generalize (if dup then s.addErr .ifElseDuplicated "if-condition".toList 1 0 else s) = s0 at he x0 hdup ⊢
  have q1 := quiet_ifLabels le s0
  have f1 := ifLabels_fields le s0
  have c1 := ctx_ifLabels le s0
  have d1 := dts_ifLabels le s0
  have hl0 : ∀ l0, le = some l0 → (ifLabels le s0).2.2.1 = l0 := by
    intro l0 h; subst h; unfold ifLabels; rfl
  generalize ifLabels le s0 = p at he q1 f1 c1 d1 hl0 ⊢
  obtain ⟨lBegin, lElse, lEnd, s1⟩ := p
  dsimp only at he q1 f1 c1 d1 hl0 ⊢
  rw [(push_fields _ _).1] at he
  have x2 := (esteps_ifCondCalc g cond lBegin lElse lEnd isElse s1).errors_ext
  have x1 : ∃ Δ, s1.errors = s.errors ++ Δ := by rw [f1.1]; exact x0
  obtain ⟨e1, e2⟩ := chain2 x1 x2 he
  have hs0 : s0 = s := hdup (by rw [← f1.1]; exact e1)
  subst hs0
  have r1 : DRel g R s1 ss.push := drel_enter hr q1 f1.2.1 d1
  obtain ⟨s2, br, hst, hcalc, hbr, hnr, hne, hcnt⟩ := cond_shape hg hn cond lBegin lElse lEnd isElse s1 ss.push r1 e2
  obtain ⟨seg, hseg, hstr⟩ := esteps_seg hst
  refine ⟨seg, br, lBegin, ?_, hstr, ?_, hbr, hnr, hne, hl0⟩
  · rw [ctx_push, hcalc, ctx_push, hseg, c1]; simp
  · rw [hseg, effCount_append] at hcnt; omega

/-- layout of a construct that leaves by a jump to the label `l0` it was handed -/
def PassC (K : LoopK) (s s' : St) (fl : Nat → List Flow × Nat) (l0 : Name) : Prop :=
  ∃ seg, s'.root.context = s.root.context ++ seg ∧
    (fl (effCount s.root.context)).2 = effCount s.root.context + effCount seg ∧
    Lay K (effCount s.root.context) (fl (effCount s.root.context)).1 seg (.jump l0)

theorem PassC.eff {K : LoopK} {s s' : St} {fl : Nat → List Flow × Nat} {l0 : Name} (h : PassC K s s' fl l0) :
    effCount s'.root.context = (fl (effCount s.root.context)).2 := by
  obtain ⟨seg, h1, h2, _⟩ := h
  rw [h1, effCount_append, h2]

/-- a statement (continuation-passing) in front of a body that leaves by a jump -/
theorem CPS.thenPass {K : LoopK} {a b c : St} {f1 f2 : Nat → List Flow × Nat} {l0 : Name}
    (h1 : CPS K a b f1) (h2 : PassC K b c f2 l0) :
    PassC K a c (fun n => ((f1 n).1 ++ (f2 (f1 n).2).1, (f2 (f1 n).2).2)) l0 := by
  have he := h1.eff
  obtain ⟨seg1, c1, n1, l1⟩ := h1
  obtain ⟨seg2, c2, n2, l2⟩ := h2
  have hb : effCount b.root.context = effCount a.root.context + effCount seg1 := by rw [c1, effCount_append]
  refine ⟨seg1 ++ seg2, by rw [c2, c1, List.append_assoc], ?_, ?_⟩
  · dsimp only
    rw [← he, n2, hb, effCount_append]; omega
  · dsimp only
    apply l1
    rw [← hb, ← he]
    exact l2

theorem PassC.dead {K : LoopK} {a b c : St} {fl : Nat → List Flow × Nat} {l0 : Name} (d : List Instr)
    (h : PassC K a b fl l0) (hc : c.root.context = b.root.context ++ d) (hd : effCount d = 0) : PassC K a c fl l0 := by
  obtain ⟨seg, c1, n1, l1⟩ := h
  refine ⟨seg ++ d, by rw [hc, c1, List.append_assoc], by rw [effCount_append, hd, n1]; rfl, Lay.dead d l1⟩

end control

/-! ### `loop_statement` -/

theorem lay_loopWrap (k : Name → Name → Bool → Bool → Bool → St → St × Bool) (F : SpecSt → SpecSt)
    (bf : Nat → List Flow × Nat) (ret brk : Bool) (K : LoopK)
    (hx : ∀ lb le rc bc cc s, Steps s (k lb le rc bc cc s).1)
    (hk : ∀ lb le s ss, DRel g R s ss → (k lb le false false false s).1.errors = s.errors →
      DRel g R (k lb le false false false s).1 (F ss) ∧ (k lb le false false false s).1.inner.length = s.inner.length)
    (hlay : ∀ lb le b s ss, DRel g R s ss → (k lb le false false false s).1.errors = s.errors → (brk = true → b = true) →
      CPSv (some (lb, le, b)) s (k lb le false false false s).1 (bf (effCount s.root.context)) ∧
      ((k lb le false false false s).2 = true → endsRet (bf (effCount s.root.context)).1 = true))
    (hret : ∀ lb le s, (k lb le false false false s).2 = true → ret = true)
    (hf3 : (ret && brk) = false)
    (s : St) (ss : SpecSt) (hr : DRel g R s ss) (he : (loopWrap k s).errors = s.errors) :
    CPSv K s (loopWrap k s) ([Flow.loop (bf (effCount s.root.context)).1], (bf (effCount s.root.context)).2) := by
  unfold loopWrap at he ⊢
  dsimp only at he ⊢
  have q1 := quiet_loopPrologue s
  have f1 := loopPrologue_fields s
  have c1 := ctx_loopPrologue s
  have d1 := dts_loopPrologue s
  generalize loopPrologue s = p at he q1 f1 c1 d1 ⊢
  obtain ⟨lb, le, s1⟩ := p
  dsimp only at he q1 f1 c1 d1 ⊢
  have x2 := (hx lb le false false false s1).errors_ext
  have h2 := hk lb le s1 ss.push (drel_enter hr q1 f1.2.1 d1)
  have hl := fun b => hlay lb le b s1 ss.push (drel_enter hr q1 f1.2.1 d1)
  have hrt := hret lb le s1
  generalize k lb le false false false s1 = q at he x2 h2 hl hrt ⊢
  obtain ⟨s2, r⟩ := q
  dsimp only at he x2 h2 hl hrt ⊢
  have e2 : s2.errors = s1.errors := by
    have hin : s2.errors.length ≤ s1.errors.length := by
      have := congrArg List.length he
      rw [f1.1]
      obtain ⟨Δ, hΔ⟩ := x2
      by_cases hne : s2.inner ≠ []
      · rw [(loopEpilogue_fields r lb le s2 hne).1] at this; omega
      · have : (loopEpilogue r lb le s2).errors = s2.errors := (quiet_loopEpilogue r lb le s2).errors
        rw [this] at he; rw [he]; omega
    exact eq_of_ext_len x2 hin
  have hn1 : effCount s1.root.context = effCount s.root.context := by
    rw [c1, effCount_append]; simp [effCount, Instr.isEffect]
  -- the flag that is available for `break`
  have hb : brk = true → (!r) = true := by
    intro hbk
    cases r with
    | false => rfl
    | true => rw [hrt rfl, hbk] at hf3; cases hf3
  obtain ⟨⟨bc, cb, nb, lbody⟩, hends⟩ := hl (!r) e2 hb
  rw [hn1] at nb lbody hends
  have hbody : Lay (some (lb, le, !r)) (effCount s.root.context) (bf (effCount s.root.context)).1 bc .fall := by
    have := lbody [] [] .fall (Lay.nil _ _)
    simpa using this
  have ctail := ctx_loopEpilogue r lb le s2
  refine ⟨Instr.jumpTo lb :: Instr.setLabel lb :: (bc ++ (if r then [] else [Instr.jumpTo lb, Instr.setLabel le])), ?_, ?_, ?_⟩
  · rw [ctail, cb, c1]; simp
  · dsimp only
    rw [nb, effCount_cons, effCount_cons, effCount_append]
    cases r <;> simp [effCount, Instr.isEffect]
  · intro rest code e hrest
    dsimp only
    have htail : (if r then [] else [Instr.jumpTo lb, Instr.setLabel le]) = [Instr.jumpTo lb, Instr.setLabel le] ∨
        ((if r then [] else [Instr.jumpTo lb, Instr.setLabel le]) = [] ∧
          endsRet (bf (effCount s.root.context)).1 = true ∧ (!r) = false) := by
      cases r with
      | false => left; rfl
      | true => right; exact ⟨rfl, hends rfl, rfl⟩
    have hcount : effCount (Instr.jumpTo lb :: Instr.setLabel lb :: (bc ++ (if r then [] else [Instr.jumpTo lb, Instr.setLabel le]))) =
        effCount bc := by
      rw [effCount_cons, effCount_cons, effCount_append]
      cases r <;> simp [effCount, Instr.isEffect]
    rw [hcount] at hrest
    have := Lay.loop (K := K) (rest := rest) (c := code) (e := e) lb le (!r) hbody htail hrest
    simpa using this

/-! ### Unfolding the lowering -/

theorem low_ifb_let (b : LetB) (tl : List IfBodyStmt) (n : Nat) : IfBodyStmt.lowerL true (.letB b :: tl) n =
    ((lowerLet b n).1 ++ (IfBodyStmt.lowerL true tl (lowerLet b n).2).1, (IfBodyStmt.lowerL true tl (lowerLet b n).2).2) := by
  rw [IfBodyStmt.lowerL]
theorem low_ifb_bind (b : Bind) (tl : List IfBodyStmt) (n : Nat) : IfBodyStmt.lowerL true (.bind b :: tl) n =
    ((lowerBind b n).1 ++ (IfBodyStmt.lowerL true tl (lowerBind b n).2).1, (IfBodyStmt.lowerL true tl (lowerBind b n).2).2) := by
  rw [IfBodyStmt.lowerL]
theorem low_ifb_call (c : CallS) (tl : List IfBodyStmt) (n : Nat) : IfBodyStmt.lowerL true (.call c :: tl) n =
    ((lowerCallS c n).1 ++ (IfBodyStmt.lowerL true tl (lowerCallS c n).2).1, (IfBodyStmt.lowerL true tl (lowerCallS c n).2).2) := by
  rw [IfBodyStmt.lowerL]
theorem low_ifb_if (i : IfStmt) (tl : List IfBodyStmt) (n : Nat) : IfBodyStmt.lowerL true (.ifS i :: tl) n =
    (if tl.isEmpty then (IfStmt.lower true i n).1 ++ (IfBodyStmt.lowerL true tl (IfStmt.lower true i n).2).1 else (IfStmt.lower true i n).1,
      (IfBodyStmt.lowerL true tl (IfStmt.lower true i n).2).2) := by
  rw [IfBodyStmt.lowerL]
  cases tl <;> simp
theorem low_ifb_loop (b : List LoopStmt) (tl : List IfBodyStmt) (n : Nat) : IfBodyStmt.lowerL true (.loop b :: tl) n =
    ([Flow.loop (LoopStmt.lowerL true b n).1] ++ (IfBodyStmt.lowerL true tl (LoopStmt.lowerL true b n).2).1, (IfBodyStmt.lowerL true tl (LoopStmt.lowerL true b n).2).2) := by
  rw [IfBodyStmt.lowerL]
theorem low_ifb_ret (e : Expr) (tl : List IfBodyStmt) (n : Nat) : IfBodyStmt.lowerL true (.ret e :: tl) n =
    ((lowerRet e n).1 ++ (IfBodyStmt.lowerL true tl (lowerRet e n).2).1, (IfBodyStmt.lowerL true tl (lowerRet e n).2).2) := by
  rw [IfBodyStmt.lowerL]
theorem low_ifb_nil (n : Nat) : IfBodyStmt.lowerL true [] n = ([], n) := by rw [IfBodyStmt.lowerL]
theorem low_ifl_let (b : LetB) (tl : List IfLoopStmt) (n : Nat) : IfLoopStmt.lowerL true (.letB b :: tl) n =
    ((lowerLet b n).1 ++ (IfLoopStmt.lowerL true tl (lowerLet b n).2).1, (IfLoopStmt.lowerL true tl (lowerLet b n).2).2) := by
  rw [IfLoopStmt.lowerL]
theorem low_ifl_bind (b : Bind) (tl : List IfLoopStmt) (n : Nat) : IfLoopStmt.lowerL true (.bind b :: tl) n =
    ((lowerBind b n).1 ++ (IfLoopStmt.lowerL true tl (lowerBind b n).2).1, (IfLoopStmt.lowerL true tl (lowerBind b n).2).2) := by
  rw [IfLoopStmt.lowerL]
theorem low_ifl_call (c : CallS) (tl : List IfLoopStmt) (n : Nat) : IfLoopStmt.lowerL true (.call c :: tl) n =
    ((lowerCallS c n).1 ++ (IfLoopStmt.lowerL true tl (lowerCallS c n).2).1, (IfLoopStmt.lowerL true tl (lowerCallS c n).2).2) := by
  rw [IfLoopStmt.lowerL]
theorem low_ifl_if (i : IfStmt) (tl : List IfLoopStmt) (n : Nat) : IfLoopStmt.lowerL true (.ifS i :: tl) n =
    (if tl.isEmpty then (IfStmt.lower true i n).1 ++ (IfLoopStmt.lowerL true tl (IfStmt.lower true i n).2).1 else (IfStmt.lower true i n).1,
      (IfLoopStmt.lowerL true tl (IfStmt.lower true i n).2).2) := by
  rw [IfLoopStmt.lowerL]
  cases tl <;> simp
theorem low_ifl_loop (b : List LoopStmt) (tl : List IfLoopStmt) (n : Nat) : IfLoopStmt.lowerL true (.loop b :: tl) n =
    ([Flow.loop (LoopStmt.lowerL true b n).1] ++ (IfLoopStmt.lowerL true tl (LoopStmt.lowerL true b n).2).1, (IfLoopStmt.lowerL true tl (LoopStmt.lowerL true b n).2).2) := by
  rw [IfLoopStmt.lowerL]
theorem low_ifl_ret (e : Expr) (tl : List IfLoopStmt) (n : Nat) : IfLoopStmt.lowerL true (.ret e :: tl) n =
    ((lowerRet e n).1 ++ (IfLoopStmt.lowerL true tl (lowerRet e n).2).1, (IfLoopStmt.lowerL true tl (lowerRet e n).2).2) := by
  rw [IfLoopStmt.lowerL]
theorem low_ifl_brk  (tl : List IfLoopStmt) (n : Nat) : IfLoopStmt.lowerL true (.brk :: tl) n =
    ([Flow.brk] ++ (IfLoopStmt.lowerL true tl n).1, (IfLoopStmt.lowerL true tl n).2) := by
  rw [IfLoopStmt.lowerL]
theorem low_ifl_cont  (tl : List IfLoopStmt) (n : Nat) : IfLoopStmt.lowerL true (.cont :: tl) n =
    ([Flow.cont] ++ (IfLoopStmt.lowerL true tl n).1, (IfLoopStmt.lowerL true tl n).2) := by
  rw [IfLoopStmt.lowerL]
theorem low_ifl_nil (n : Nat) : IfLoopStmt.lowerL true [] n = ([], n) := by rw [IfLoopStmt.lowerL]
theorem low_lp_let (b : LetB) (tl : List LoopStmt) (n : Nat) : LoopStmt.lowerL true (.letB b :: tl) n =
    ((lowerLet b n).1 ++ (LoopStmt.lowerL true tl (lowerLet b n).2).1, (LoopStmt.lowerL true tl (lowerLet b n).2).2) := by
  rw [LoopStmt.lowerL]
theorem low_lp_bind (b : Bind) (tl : List LoopStmt) (n : Nat) : LoopStmt.lowerL true (.bind b :: tl) n =
    ((lowerBind b n).1 ++ (LoopStmt.lowerL true tl (lowerBind b n).2).1, (LoopStmt.lowerL true tl (lowerBind b n).2).2) := by
  rw [LoopStmt.lowerL]
theorem low_lp_call (c : CallS) (tl : List LoopStmt) (n : Nat) : LoopStmt.lowerL true (.call c :: tl) n =
    ((lowerCallS c n).1 ++ (LoopStmt.lowerL true tl (lowerCallS c n).2).1, (LoopStmt.lowerL true tl (lowerCallS c n).2).2) := by
  rw [LoopStmt.lowerL]
theorem low_lp_if (i : IfStmt) (tl : List LoopStmt) (n : Nat) : LoopStmt.lowerL true (.ifS i :: tl) n =
    ((IfStmt.lower true i n).1 ++ (LoopStmt.lowerL true tl (IfStmt.lower true i n).2).1, (LoopStmt.lowerL true tl (IfStmt.lower true i n).2).2) := by
  rw [LoopStmt.lowerL]
theorem low_lp_loop (b : List LoopStmt) (tl : List LoopStmt) (n : Nat) : LoopStmt.lowerL true (.loop b :: tl) n =
    ([Flow.loop (LoopStmt.lowerL true b n).1] ++ (LoopStmt.lowerL true tl (LoopStmt.lowerL true b n).2).1, (LoopStmt.lowerL true tl (LoopStmt.lowerL true b n).2).2) := by
  rw [LoopStmt.lowerL]
theorem low_lp_ret (e : Expr) (tl : List LoopStmt) (n : Nat) : LoopStmt.lowerL true (.ret e :: tl) n =
    ((lowerRet e n).1 ++ (LoopStmt.lowerL true tl (lowerRet e n).2).1, (LoopStmt.lowerL true tl (lowerRet e n).2).2) := by
  rw [LoopStmt.lowerL]
theorem low_lp_brk  (tl : List LoopStmt) (n : Nat) : LoopStmt.lowerL true (.brk :: tl) n =
    ([Flow.brk] ++ (LoopStmt.lowerL true tl n).1, (LoopStmt.lowerL true tl n).2) := by
  rw [LoopStmt.lowerL]
theorem low_lp_cont  (tl : List LoopStmt) (n : Nat) : LoopStmt.lowerL true (.cont :: tl) n =
    ([Flow.cont] ++ (LoopStmt.lowerL true tl n).1, (LoopStmt.lowerL true tl n).2) := by
  rw [LoopStmt.lowerL]
theorem low_lp_nil (n : Nat) : LoopStmt.lowerL true [] n = ([], n) := by rw [LoopStmt.lowerL]
theorem low_fb_let (b : LetB) (tl : List BodyStmt) (n : Nat) : BodyStmt.lowerL true (.letB b :: tl) n =
    ((lowerLet b n).1 ++ (BodyStmt.lowerL true tl (lowerLet b n).2).1, (BodyStmt.lowerL true tl (lowerLet b n).2).2) := by
  rw [BodyStmt.lowerL]
theorem low_fb_bind (b : Bind) (tl : List BodyStmt) (n : Nat) : BodyStmt.lowerL true (.bind b :: tl) n =
    ((lowerBind b n).1 ++ (BodyStmt.lowerL true tl (lowerBind b n).2).1, (BodyStmt.lowerL true tl (lowerBind b n).2).2) := by
  rw [BodyStmt.lowerL]
theorem low_fb_call (c : CallS) (tl : List BodyStmt) (n : Nat) : BodyStmt.lowerL true (.call c :: tl) n =
    ((lowerCallS c n).1 ++ (BodyStmt.lowerL true tl (lowerCallS c n).2).1, (BodyStmt.lowerL true tl (lowerCallS c n).2).2) := by
  rw [BodyStmt.lowerL]
theorem low_fb_if (i : IfStmt) (tl : List BodyStmt) (n : Nat) : BodyStmt.lowerL true (.ifS i :: tl) n =
    ((IfStmt.lower true i n).1 ++ (BodyStmt.lowerL true tl (IfStmt.lower true i n).2).1, (BodyStmt.lowerL true tl (IfStmt.lower true i n).2).2) := by
  rw [BodyStmt.lowerL]
theorem low_fb_loop (b : List LoopStmt) (tl : List BodyStmt) (n : Nat) : BodyStmt.lowerL true (.loop b :: tl) n =
    ([Flow.loop (LoopStmt.lowerL true b n).1] ++ (BodyStmt.lowerL true tl (LoopStmt.lowerL true b n).2).1, (BodyStmt.lowerL true tl (LoopStmt.lowerL true b n).2).2) := by
  rw [BodyStmt.lowerL]
theorem low_fb_ret (e : Expr) (tl : List BodyStmt) (n : Nat) : BodyStmt.lowerL true (.ret e :: tl) n =
    ((lowerRet e n).1 ++ (BodyStmt.lowerL true tl (lowerRet e n).2).1, (BodyStmt.lowerL true tl (lowerRet e n).2).2) := by
  rw [BodyStmt.lowerL]
theorem low_fb_expr (e : Expr) (tl : List BodyStmt) (n : Nat) : BodyStmt.lowerL true (.expr e :: tl) n =
    ((lowerRet e n).1 ++ (BodyStmt.lowerL true tl (lowerRet e n).2).1, (BodyStmt.lowerL true tl (lowerRet e n).2).2) := by
  rw [BodyStmt.lowerL]
theorem low_fb_nil (n : Nat) : BodyStmt.lowerL true [] n = ([], n) := by rw [BodyStmt.lowerL]

theorem low_if (cond : IfCond) (body : IfBodies) (els : Option IfBodies) (elif : Option IfStmt) (n : Nat) :
    IfStmt.lower true (.mk cond body els elif) n =
    (match els, elif with
    | some eb, _ => (evs n cond.calls ++ [.ite (IfBodies.lower true body (n + cond.calls)).1 (IfBodies.lower true eb (IfBodies.lower true body (n + cond.calls)).2).1],
        (IfBodies.lower true eb (IfBodies.lower true body (n + cond.calls)).2).2)
    | none, some ei => (evs n cond.calls ++ [.ite (IfBodies.lower true body (n + cond.calls)).1 (IfStmt.lower true ei (IfBodies.lower true body (n + cond.calls)).2).1],
        (IfStmt.lower true ei (IfBodies.lower true body (n + cond.calls)).2).2)
    | none, none => (evs n cond.calls ++ [.ite (IfBodies.lower true body (n + cond.calls)).1 []], (IfBodies.lower true body (n + cond.calls)).2)) := by
  rw [IfStmt.lower]
  cases els <;> cases elif <;> rfl

theorem forbidden_fff (s : St) : forbidden false false false s = s := by simp [forbidden]

theorem forbidden_grows (rc bc cc : Bool) (s : St) (h : rc = true ∨ bc = true ∨ cc = true) :
    s.errors.length < (forbidden rc bc cc s).errors.length := by
  cases rc <;> cases bc <;> cases cc <;> simp [forbidden, St.addErr] at h ⊢ <;> omega

theorem RetV.cps {K : LoopK} {s s' : St} {p : List Flow × Nat} (h : RetV K s s' p) : CPSv K s s' p := by
  obtain ⟨seg, h1, h2, h3⟩ := h
  exact ⟨seg, h1, h2, fun rest code e _ => h3 rest code e⟩

theorem RetV.body {K : LoopK} {s : St} {res : St × Bool} {p : List Flow × Nat} {lEnd : Name} (h : RetV K s res.1 p) :
    BodyJ K s res p lEnd := by
  obtain ⟨seg, h1, h2, h3⟩ := h
  refine ⟨seg, h1, h2, ?_⟩
  have := h3 [] (if res.2 then [] else [Instr.jumpTo lEnd]) (.jump lEnd)
  simpa using this

theorem eff_nil : effCount [] = 0 := rfl
theorem eff_label (l : Name) : effCount [Instr.setLabel l] = 0 := rfl
theorem eff_jump (l : Name) : effCount [Instr.jumpTo l] = 0 := rfl
theorem eff_br_label {br : Instr} (l : Name) (hne : br.isEffect = false) : effCount [br, Instr.setLabel l] = 0 := by
  rw [effCount_cons, effCount_cons, hne]; rfl
theorem eff_ite_jump (r : Bool) (l : Name) : effCount (if r then [] else [Instr.jumpTo l]) = 0 := by cases r <;> rfl
theorem eff_ite_label (r : Bool) (l : Name) : effCount (if r then [Instr.setLabel l] else []) = 0 := by cases r <;> rfl

/-! ### Assembling an `if` -/

/-- no else part -/
theorem ite_noElse {K : LoopK} {n : Nat} {tb : List Flow} {seg0 tc : List Instr} {br : Instr} {lBegin lEnd : Name}
    (hstr : ∀ i ∈ seg0, i.straight = true) (hbr : br.targets = [lBegin, lEnd]) (hnr : br.isRet = false) (hne : br.isEffect = false)
    (htb : Lay K (n + effCount seg0) tb tc (.jump lEnd)) :
    (∀ rest code e, Lay K (n + effCount seg0 + effCount tc) rest code e →
      Lay K n ((evs n (effCount seg0) ++ [.ite tb []]) ++ rest)
        ((seg0 ++ [br, Instr.setLabel lBegin] ++ tc ++ [Instr.setLabel lEnd]) ++ code) e) ∧
    Lay K n (evs n (effCount seg0) ++ [.ite tb []]) (seg0 ++ [br, Instr.setLabel lBegin] ++ tc) (.jump lEnd) := by
  refine ⟨fun rest code e hrest => ?_, ?_⟩
  · have h := lay_seg seg0 n hstr (Lay.iteOwn br lBegin lEnd hbr hnr hne htb hrest)
    simpa using h
  · have h := lay_seg seg0 n hstr (Lay.itePass br lBegin lEnd hbr hnr hne htb)
    simpa using h

/-- with an else part (else body or else-if chain) -/
theorem ite_else {K : LoopK} {n : Nat} {tb eb : List Flow} {seg0 tc ec : List Instr} {br : Instr} {lBegin lElse lEnd : Name}
    (hstr : ∀ i ∈ seg0, i.straight = true) (hbr : br.targets = [lBegin, lElse]) (hnr : br.isRet = false) (hne : br.isEffect = false)
    (htb : Lay K (n + effCount seg0) tb tc (.jump lEnd))
    (heb : Lay K (n + effCount seg0 + effCount tc) eb ec (.jump lEnd)) :
    (∀ rest code e, Lay K (n + effCount seg0 + effCount tc + effCount ec) rest code e →
      Lay K n ((evs n (effCount seg0) ++ [.ite tb eb]) ++ rest)
        ((seg0 ++ [br, Instr.setLabel lBegin] ++ tc ++ [Instr.setLabel lElse] ++ ec ++ [Instr.setLabel lEnd]) ++ code) e) ∧
    Lay K n (evs n (effCount seg0) ++ [.ite tb eb]) (seg0 ++ [br, Instr.setLabel lBegin] ++ tc ++ [Instr.setLabel lElse] ++ ec) (.jump lEnd) := by
  refine ⟨fun rest code e hrest => ?_, ?_⟩
  · have h := lay_seg seg0 n hstr (Lay.iteElseOwn br lBegin lElse lEnd hbr hnr hne htb heb hrest)
    simpa using h
  · have h := lay_seg seg0 n hstr (Lay.iteElsePass br lBegin lElse lEnd hbr hnr hne htb heb)
    simpa using h

/-! ### One statement of a list, then the rest -/

theorem bodyj_cons {K : LoopK} {s s1 : St} {res : St × Bool} {ss1 : SpecSt} {p1 : List Flow × Nat} {lEnd : Name}
    (p2 : Nat → List Flow × Nat)
    (x1 : ∃ Δ, s1.errors = s.errors ++ Δ) (x2 : ∃ Δ, res.1.errors = s1.errors ++ Δ) (he : res.1.errors = s.errors)
    (h1 : s1.errors = s.errors → CPSv K s s1 p1 ∧ DRel g R s1 ss1)
    (h2 : DRel g R s1 ss1 → res.1.errors = s1.errors → BodyJ K s1 res (p2 (effCount s1.root.context)) lEnd) :
    BodyJ K s res (p1.1 ++ (p2 p1.2).1, (p2 p1.2).2) lEnd := by
  obtain ⟨e1, e2⟩ := chain2 x1 x2 he
  obtain ⟨c, d⟩ := h1 e1
  have := h2 d e2
  rw [c.eff] at this
  exact c.thenBody this

theorem cpsl_cons {K : LoopK} {s s1 : St} {res : St × Bool} {ss1 : SpecSt} {p1 : List Flow × Nat}
    (p2 : Nat → List Flow × Nat)
    (x1 : ∃ Δ, s1.errors = s.errors ++ Δ) (x2 : ∃ Δ, res.1.errors = s1.errors ++ Δ) (he : res.1.errors = s.errors)
    (h1 : s1.errors = s.errors → CPSv K s s1 p1 ∧ DRel g R s1 ss1)
    (h2 : DRel g R s1 ss1 → res.1.errors = s1.errors →
      CPSv K s1 res.1 (p2 (effCount s1.root.context)) ∧ (res.2 = true → endsRet (p2 (effCount s1.root.context)).1 = true)) :
    CPSv K s res.1 (p1.1 ++ (p2 p1.2).1, (p2 p1.2).2) ∧ (res.2 = true → endsRet (p1.1 ++ (p2 p1.2).1) = true) := by
  obtain ⟨e1, e2⟩ := chain2 x1 x2 he
  obtain ⟨c, d⟩ := h1 e1
  have := h2 d e2
  rw [c.eff] at this
  exact ⟨c.trans this.1, fun hr => endsRet_append _ _ (this.2 hr)⟩

/-- after a successful nested return nothing may follow -/
theorem no_more_after {s sf : St} (rc bc cc : Bool) (h : rc = true ∨ bc = true ∨ cc = true)
    (x : ∃ Δ, sf.errors = (forbidden rc bc cc s).errors ++ Δ) : sf.errors ≠ s.errors := by
  intro heq
  have h1 := forbidden_grows rc bc cc s h
  obtain ⟨Δ, hΔ⟩ := x
  have := congrArg List.length heq
  rw [hΔ, List.length_append] at this
  omega

theorem cons_facts {s s1 sf : St} (rc bc cc : Bool)
    (x1 : ∃ Δ, s1.errors = (forbidden rc bc cc s).errors ++ Δ) (x2 : ∃ Δ, sf.errors = s1.errors ++ Δ)
    (he : sf.errors = s.errors) :
    rc = false ∧ bc = false ∧ cc = false ∧ s1.errors = (forbidden rc bc cc s).errors ∧ sf.errors = s1.errors := by
  obtain ⟨e0, e1, e2⟩ := chain3 (esteps_forbidden rc bc cc s).errors_ext x1 x2 he
  obtain ⟨h1, h2, h3⟩ := forbidden_flags rc bc cc s e0
  exact ⟨h1, h2, h3, e1, e2⟩

/-! ### The mutual induction over the control constructs -/

section mutualLay
variable {g : Globals} {R : Ty} {rg : RGlobals}

theorem kof_some (lb le : Name) (b : Bool) : KOf (some (lb, le)) b = some (lb, le, b) := rfl


mutual
theorem lay_ifCondition (hg : GlobRel g rg) (hn : GNames g) : ∀ (i : IfStmt) (le : Option Name) (ll : Option (Name × Name)) (b : Bool),
    IfStmt.anaOK ll.isSome i = true → (i.hasBrk = true → b = true) → i.f3 = false →
    ∀ s ss, DRel g R s ss → (ifCondition g i le ll s).errors = s.errors →
      (le = none → CPSv (KOf ll b) s (ifCondition g i le ll s) (IfStmt.lower true i (effCount s.root.context))) ∧
      (∀ l0, le = some l0 → PassV (KOf ll b) s (ifCondition g i le ll s) (IfStmt.lower true i (effCount s.root.context)) l0)
  | .mk cond body els elif, labelEnd, labelLoop, b => by
    intro hok hbrk hf3 s ss hr he
    unfold IfStmt.anaOK at hok
    simp only [Bool.and_eq_true] at hok
    obtain ⟨hokb, hokr⟩ := hok
    unfold IfStmt.f3 at hf3
    simp only [Bool.or_eq_false_iff] at hf3
    have hbb : body.hasBrk = true → b = true := fun h => hbrk (by unfold IfStmt.hasBrk; simp [h])
    unfold ifCondition at he ⊢
    dsimp only at he ⊢
    rw [(quiet_ifEpilogue _ _ _ _).errors] at he
    have x1 := (steps_ifPrologue g cond (els.isSome && elif.isSome) (els.isSome || elif.isSome) labelEnd s).errors_ext
    have h1 := den_ifPrologue hg hn cond (els.isSome && elif.isSome) (els.isSome || elif.isSome) labelEnd s ss hr
    have p1 := prologue_shape hg hn cond (els.isSome && elif.isSome) (els.isSome || elif.isSome) labelEnd s ss hr
    generalize ifPrologue g cond (els.isSome && elif.isSome) (els.isSome || elif.isSome) labelEnd s = p at he x1 h1 p1 ⊢
    obtain ⟨lElse, lEnd, s1⟩ := p
    dsimp only at he x1 h1 p1 ⊢
    have x2 := (steps_ifBodies g body lEnd labelLoop s1).errors_ext
    have h2 := den_ifBodies (R := R) hg hn body lEnd labelLoop hokb s1 (specIfCond false cond ss.push)
    have l2 := lay_ifBodies hg hn body lEnd labelLoop b hokb hbb hf3.1.1 s1 (specIfCond false cond ss.push)
    generalize ifBodies g body lEnd labelLoop s1 = q at he x2 h2 l2 ⊢
    obtain ⟨s2, r⟩ := q
    dsimp only at he x2 h2 l2 ⊢
    have q3 := quiet_ifAfterBody (els.isSome || elif.isSome) r lElse lEnd s2
    have f3 := ifAfterBody_fields (els.isSome || elif.isSome) r lElse lEnd s2
    have c3 := ctx_ifAfterBody (els.isSome || elif.isSome) r lElse lEnd s2
    have d3 := dts_ifAfterBody (els.isSome || elif.isSome) r lElse lEnd s2
    generalize ifAfterBody (els.isSome || elif.isSome) r lElse lEnd s2 = q3' at he q3 f3 c3 d3 ⊢
    obtain ⟨k, s3⟩ := q3'
    dsimp only at he q3 f3 c3 d3 ⊢
    have x4 : ∃ Δ, (match els, elif with
        | some eb, _ => ifAfterElse k (ifBodies g eb lEnd labelLoop s3.enter).2 lEnd (ifBodies g eb lEnd labelLoop s3.enter).1
        | none, some ei => ifCondition g ei (some lEnd) labelLoop s3
        | none, none => s3).errors = s2.errors ++ Δ := by
      rw [← q3.errors]
      cases els with
      | some eb =>
        dsimp only
        rw [(quiet_ifAfterElse _ _ _ _).errors]
        exact (steps_ifBodies g eb lEnd labelLoop s3.enter).errors_ext
      | none =>
        cases elif with
        | some ei => exact (steps_ifCondition g ei (some lEnd) labelLoop s3).errors_ext
        | none => exact ⟨[], by simp⟩
    have he' : (match els, elif with
        | some eb, _ => ifAfterElse k (ifBodies g eb lEnd labelLoop s3.enter).2 lEnd (ifBodies g eb lEnd labelLoop s3.enter).1
        | none, some ei => ifCondition g ei (some lEnd) labelLoop s3
        | none, none => s3).errors = s.errors := by
      cases els with
      | some eb => exact he
      | none => cases elif <;> exact he
    obtain ⟨e1, e2, e4⟩ := chain3 x1 x2 x4 he'
    obtain ⟨r1, len1⟩ := h1 e1
    obtain ⟨r2, len2⟩ := h2 r1 e2
    obtain ⟨segB, cB, nB, lB⟩ := l2 r1 e2
    obtain ⟨seg0, br, lBegin, c1, hstr, hcnt, hbr, hnr, hne, hl0⟩ := p1 e1
    have hne2 : s2.inner ≠ [] := inner_ne_of_len (by rw [len2, len1])
    have f3' := f3 hne2
    have r3 : DRel g R s3 (specBodies false rg body (specIfCond false cond ss.push)).pop := drel_leave r2 q3 f3'.2.1 (d3 hne2) hne2
    rw [← q3.errors] at e4
    -- event numbers
    have hn1 : effCount s1.root.context = effCount s.root.context + effCount seg0 := by
      rw [c1, effCount_append, effCount_append, eff_br_label _ hne]; omega
    rw [hn1] at nB lB
    rw [low_if, ← hcnt]
    -- the then part with its trailing jump
    generalize htc : segB ++ (if r then [] else [Instr.jumpTo lEnd]) = tc at lB
    have htcn : effCount tc = effCount segB := by rw [← htc, effCount_append, eff_ite_jump]; omega
    have hnb : (IfBodies.lower true body (effCount s.root.context + effCount seg0)).2 =
        effCount s.root.context + effCount seg0 + effCount tc := by rw [nB, htcn]
    rw [hnb]
    cases els with
    | some eb =>
      dsimp only at e4 hbr c3 ⊢
      simp only [Option.isSome_some, Bool.true_or, if_true] at hbr c3
      rw [(quiet_ifAfterElse _ _ _ _).errors] at e4
      have hbe : eb.hasBrk = true → b = true := fun h => hbrk (by unfold IfStmt.hasBrk; simp [h])
      have r3e : DRel g R s3.enter (specBodies false rg body (specIfCond false cond ss.push)).pop.push :=
        drel_enter r3 (quiet_enter s3) (vals_enter s3) (dts_enter s3)
      have l4 := lay_ifBodies hg hn eb lEnd labelLoop b hokr hbe hf3.1.2 s3.enter _ r3e e4
      have c5 := ctx_ifAfterElse k (ifBodies g eb lEnd labelLoop s3.enter).2 lEnd (ifBodies g eb lEnd labelLoop s3.enter).1
      generalize ifBodies g eb lEnd labelLoop s3.enter = q4 at l4 c5 ⊢
      obtain ⟨s4, r4⟩ := q4
      dsimp only at l4 c5 ⊢
      obtain ⟨segE, cE, nE, lE⟩ := l4
      have hs3e : s3.enter.root.context = s3.root.context := rfl
      rw [hs3e] at cE nE lE
      have hn3 : effCount s3.root.context = effCount s.root.context + effCount seg0 + effCount tc := by
        rw [c3, cB, c1]; simp only [effCount_append, eff_br_label _ hne, eff_ite_jump, eff_label, htcn]; omega
      rw [hn3] at nE lE
      generalize hec : segE ++ (if r4 then [] else [Instr.jumpTo lEnd]) = ec at lE
      have hecn : effCount ec = effCount segE := by rw [← hec, effCount_append, eff_ite_jump]; omega
      obtain ⟨hown, hpass⟩ := ite_else (n := effCount s.root.context) hstr hbr hnr hne lB lE
      have hctx : (ifAfterElse k r4 lEnd s4).root.context =
          s.root.context ++ (seg0 ++ [br, Instr.setLabel lBegin] ++ tc ++ [Instr.setLabel lElse] ++ ec) := by
        rw [c5, cE, c3, cB, c1, ← htc, ← hec]; simp
      refine ⟨fun hle => ?_, fun l0 hle => ?_⟩
      · subst hle
        refine ⟨seg0 ++ [br, Instr.setLabel lBegin] ++ tc ++ [Instr.setLabel lElse] ++ ec ++ [Instr.setLabel lEnd], ?_, ?_, ?_⟩
        · rw [ctx_ifEpilogue, hctx]; simp
        · dsimp only
          rw [nE, ← hecn]; simp only [effCount_append, eff_br_label _ hne, eff_label]; omega
        · intro rest code e hrest
          dsimp only
          apply hown
          have : effCount (seg0 ++ [br, Instr.setLabel lBegin] ++ tc ++ [Instr.setLabel lElse] ++ ec ++ [Instr.setLabel lEnd]) =
              effCount seg0 + effCount tc + effCount ec := by
            simp only [effCount_append, eff_br_label _ hne, eff_label]; omega
          rw [this] at hrest
          simpa [Nat.add_assoc] using hrest
      · subst hle
        have hl := hl0 l0 rfl
        subst hl
        refine ⟨seg0 ++ [br, Instr.setLabel lBegin] ++ tc ++ [Instr.setLabel lElse] ++ ec, ?_, ?_, hpass⟩
        · rw [ctx_ifEpilogue, hctx]; simp
        · dsimp only
          rw [nE, ← hecn]; simp only [effCount_append, eff_br_label _ hne, eff_label]; omega
    | none =>
      cases elif with
      | some ei =>
        dsimp only at e4 hbr c3 ⊢
        simp only [Option.isSome_none, Option.isSome_some, Bool.false_or, if_true] at hbr c3
        have hbe : ei.hasBrk = true → b = true := fun h => hbrk (by unfold IfStmt.hasBrk; simp [h])
        obtain ⟨_, hp5⟩ := lay_ifCondition hg hn ei (some lEnd) labelLoop b hokr hbe hf3.2 s3 _ r3 e4
        obtain ⟨ec, cE, nE, lE⟩ := hp5 lEnd rfl
        have hn3 : effCount s3.root.context = effCount s.root.context + effCount seg0 + effCount tc := by
          rw [c3, cB, c1]; simp only [effCount_append, eff_br_label _ hne, eff_ite_jump, eff_label, htcn]; omega
        rw [hn3] at nE lE
        obtain ⟨hown, hpass⟩ := ite_else (n := effCount s.root.context) hstr hbr hnr hne lB lE
        have hctx : (ifCondition g ei (some lEnd) labelLoop s3).root.context =
            s.root.context ++ (seg0 ++ [br, Instr.setLabel lBegin] ++ tc ++ [Instr.setLabel lElse] ++ ec) := by
          rw [cE, c3, cB, c1, ← htc]; simp
        refine ⟨fun hle => ?_, fun l0 hle => ?_⟩
        · subst hle
          refine ⟨seg0 ++ [br, Instr.setLabel lBegin] ++ tc ++ [Instr.setLabel lElse] ++ ec ++ [Instr.setLabel lEnd], ?_, ?_, ?_⟩
          · rw [ctx_ifEpilogue, hctx]; simp
          · dsimp only
            rw [nE]; simp only [effCount_append, eff_br_label _ hne, eff_label]; omega
          · intro rest code e hrest
            dsimp only
            apply hown
            have : effCount (seg0 ++ [br, Instr.setLabel lBegin] ++ tc ++ [Instr.setLabel lElse] ++ ec ++ [Instr.setLabel lEnd]) =
                effCount seg0 + effCount tc + effCount ec := by
              simp only [effCount_append, eff_br_label _ hne, eff_label]; omega
            rw [this] at hrest
            simpa [Nat.add_assoc] using hrest
        · subst hle
          have hl := hl0 l0 rfl
          subst hl
          refine ⟨seg0 ++ [br, Instr.setLabel lBegin] ++ tc ++ [Instr.setLabel lElse] ++ ec, ?_, ?_, hpass⟩
          · rw [ctx_ifEpilogue, hctx]; simp
          · dsimp only
            rw [nE]; simp only [effCount_append, eff_br_label _ hne, eff_label]; omega
      | none =>
        dsimp only at hbr c3 ⊢
        simp only [Option.isSome_none, Bool.or_self, Bool.false_eq_true, if_false] at hbr c3
        obtain ⟨hown, hpass⟩ := ite_noElse (n := effCount s.root.context) hstr hbr hnr hne lB
        have hctx : s3.root.context = s.root.context ++ (seg0 ++ [br, Instr.setLabel lBegin] ++ tc) := by
          rw [c3, cB, c1, ← htc]; simp
        refine ⟨fun hle => ?_, fun l0 hle => ?_⟩
        · subst hle
          refine ⟨seg0 ++ [br, Instr.setLabel lBegin] ++ tc ++ [Instr.setLabel lEnd], ?_, ?_, ?_⟩
          · rw [ctx_ifEpilogue, hctx]; simp
          · dsimp only
            simp only [effCount_append, eff_br_label _ hne, eff_label]; omega
          · intro rest code e hrest
            dsimp only
            apply hown
            have : effCount (seg0 ++ [br, Instr.setLabel lBegin] ++ tc ++ [Instr.setLabel lEnd]) = effCount seg0 + effCount tc := by
              simp only [effCount_append, eff_br_label _ hne, eff_label]; omega
            rw [this] at hrest
            simpa [Nat.add_assoc] using hrest
        · subst hle
          have hl := hl0 l0 rfl
          subst hl
          refine ⟨seg0 ++ [br, Instr.setLabel lBegin] ++ tc, ?_, ?_, hpass⟩
          · rw [ctx_ifEpilogue, hctx]; simp
          · dsimp only
            simp only [effCount_append, eff_br_label _ hne, eff_label]; omega
theorem lay_ifBodies (hg : GlobRel g rg) (hn : GNames g) : ∀ (bd : IfBodies) (lEnd : Name) (ll : Option (Name × Name)) (b : Bool),
    IfBodies.anaOK ll.isSome bd = true → (bd.hasBrk = true → b = true) → bd.f3 = false →
    ∀ s ss, DRel g R s ss → (ifBodies g bd lEnd ll s).1.errors = s.errors →
      BodyJ (KOf ll b) s (ifBodies g bd lEnd ll s) (IfBodies.lower true bd (effCount s.root.context)) lEnd
  | .ifb l, lEnd, ll, b => by
    intro hok hbrk hf3 s ss hr he
    unfold IfBodies.anaOK at hok; unfold IfBodies.hasBrk at hbrk; unfold IfBodies.f3 at hf3
    unfold ifBodies at he ⊢
    unfold IfBodies.lower
    exact lay_ifBody hg hn l lEnd ll b false hok hbrk hf3 (fun _ => rfl) s ss hr he
  | .loopb l, lEnd, some (lb, le), b => by
    intro hok hbrk hf3 s ss hr he
    unfold IfBodies.anaOK at hok; simp at hok
    unfold IfBodies.hasBrk at hbrk; unfold IfBodies.f3 at hf3
    unfold ifBodies at he ⊢
    unfold IfBodies.lower
    exact lay_ifLoopBody hg hn l lEnd lb le b false false false hok hbrk hf3 (fun _ => rfl) s ss hr he
  | .loopb _, _, none, _ => by
    intro hok; unfold IfBodies.anaOK at hok; simp at hok
theorem lay_ifBody (hg : GlobRel g rg) (hn : GNames g) : ∀ (l : List IfBodyStmt) (lEnd : Name) (ll : Option (Name × Name)) (b rc : Bool),
    IfBodyStmt.anaOKL ll.isSome l = true → (IfBodyStmt.hasBrkL l = true → b = true) →
    IfBodyStmt.f3L l = false → (l = [] → rc = false) →
    ∀ s ss, DRel g R s ss → (ifBody g l lEnd ll rc s).1.errors = s.errors →
      BodyJ (KOf ll b) s (ifBody g l lEnd ll rc s) (IfBodyStmt.lowerL true l (effCount s.root.context)) lEnd
  | [], lEnd, ll, b, rc => by
    intro _ _ _ hrc s ss hr _
    have : rc = false := hrc rfl
    subst this
    unfold ifBody
    rw [low_ifb_nil]
    refine ⟨[], by simp, by simp [effCount], ?_⟩
    simpa using Lay.jmp (KOf ll b) (effCount s.root.context) lEnd []
  | .letB bd :: tl, lEnd, ll, b, rc => by
    intro hok hbrk hf3 _ s ss hr he
    unfold IfBodyStmt.anaOKL at hok; unfold IfBodyStmt.hasBrkL at hbrk; unfold IfBodyStmt.f3L at hf3
    unfold ifBody at he ⊢
    dsimp only at he ⊢
    obtain ⟨h1, _, _, _, _⟩ := cons_facts rc false false (esteps_letBinding g bd _).errors_ext (steps_ifBody g tl lEnd ll rc _).errors_ext he
    subst h1
    rw [forbidden_fff] at he ⊢
    rw [low_ifb_let]
    exact bodyj_cons (IfBodyStmt.lowerL true tl) (esteps_letBinding g bd s).errors_ext (steps_ifBody g tl lEnd ll false _).errors_ext he
      (fun e => ⟨cpsv_of (cps_let hg hn _ bd s ss hr e), den_let hg hn bd s ss hr e⟩)
      (fun d e => lay_ifBody hg hn tl lEnd ll b false hok hbrk hf3 (fun _ => rfl) _ _ d e)
  | .bind bd :: tl, lEnd, ll, b, rc => by
    intro hok hbrk hf3 _ s ss hr he
    unfold IfBodyStmt.anaOKL at hok; unfold IfBodyStmt.hasBrkL at hbrk; unfold IfBodyStmt.f3L at hf3
    unfold ifBody at he ⊢
    dsimp only at he ⊢
    obtain ⟨h1, _, _, _, _⟩ := cons_facts rc false false (esteps_binding g bd _).errors_ext (steps_ifBody g tl lEnd ll rc _).errors_ext he
    subst h1
    rw [forbidden_fff] at he ⊢
    rw [low_ifb_bind]
    exact bodyj_cons (IfBodyStmt.lowerL true tl) (esteps_binding g bd s).errors_ext (steps_ifBody g tl lEnd ll false _).errors_ext he
      (fun e => ⟨cpsv_of (cps_bind hg hn _ bd s ss hr e), den_bind hg hn bd s ss hr e⟩)
      (fun d e => lay_ifBody hg hn tl lEnd ll b false hok hbrk hf3 (fun _ => rfl) _ _ d e)
  | .call c :: tl, lEnd, ll, b, rc => by
    intro hok hbrk hf3 _ s ss hr he
    unfold IfBodyStmt.anaOKL at hok; unfold IfBodyStmt.hasBrkL at hbrk; unfold IfBodyStmt.f3L at hf3
    unfold ifBody at he ⊢
    dsimp only at he ⊢
    obtain ⟨h1, _, _, _, _⟩ := cons_facts rc false false (esteps_callStmt g c _).errors_ext (steps_ifBody g tl lEnd ll rc _).errors_ext he
    subst h1
    rw [forbidden_fff] at he ⊢
    rw [low_ifb_call]
    exact bodyj_cons (IfBodyStmt.lowerL true tl) (esteps_callStmt g c s).errors_ext (steps_ifBody g tl lEnd ll false _).errors_ext he
      (fun e => ⟨cpsv_of (cps_callS hg hn _ c s ss hr e), den_callS hg hn c s ss hr e⟩)
      (fun d e => lay_ifBody hg hn tl lEnd ll b false hok hbrk hf3 (fun _ => rfl) _ _ d e)
  | .loop lbody :: tl, lEnd, ll, b, rc => by
    intro hok hbrk hf3 _ s ss hr he
    unfold IfBodyStmt.anaOKL at hok; unfold IfBodyStmt.hasBrkL at hbrk; unfold IfBodyStmt.f3L at hf3
    simp only [Bool.and_eq_true] at hok
    simp only [Bool.or_eq_false_iff] at hf3
    unfold ifBody at he ⊢
    dsimp only at he ⊢
    obtain ⟨h1, _, _, _, _⟩ := cons_facts rc false false (steps_loopWrap _ (steps_loopBody g lbody) _).errors_ext (steps_ifBody g tl lEnd ll rc _).errors_ext he
    subst h1
    rw [forbidden_fff] at he ⊢
    rw [low_ifb_loop]
    exact bodyj_cons (IfBodyStmt.lowerL true tl) (steps_loopWrap _ (steps_loopBody g lbody) s).errors_ext (steps_ifBody g tl lEnd ll false _).errors_ext he
      (fun e => ⟨lay_loopWrap (loopBody g lbody) (specLoopBody false rg lbody) (LoopStmt.lowerL true lbody) (LoopStmt.hasRetL lbody)
          (LoopStmt.nestedBrkL lbody) (KOf ll b) (steps_loopBody g lbody)
          (fun lb le s ss => den_loopBody hg hn lbody lb le false false false hok.1 s ss)
          (fun lb le b' s ss d e hb' => lay_loopBody hg hn lbody lb le b' false false false hok.1 hb' hf3.1.2 (fun _ => rfl) s ss d e)
          (fun lb le s h => by rcases ret_loopBody g lbody lb le false false false s h with h | h; cases h; exact h)
          hf3.1.1 s ss hr e,
        (den_loopWrap _ (specLoopBody false rg lbody) (steps_loopBody g lbody)
          (fun lb le s ss => den_loopBody hg hn lbody lb le false false false hok.1 s ss) s ss hr e).1⟩)
      (fun d e => lay_ifBody hg hn tl lEnd ll b false hok.2 hbrk hf3.2 (fun _ => rfl) _ _ d e)
  | .ifS i :: tl, lEnd, ll, b, rc => by
    intro hok hbrk hf3 _ s ss hr he
    cases tl with
    | cons x tl' =>
      unfold IfBodyStmt.anaOKL at hok; unfold IfBodyStmt.hasBrkL at hbrk; unfold IfBodyStmt.f3L at hf3
      simp only [Bool.and_eq_true] at hok
      simp only [Bool.or_eq_false_iff] at hf3
      unfold ifBody at he ⊢
      dsimp only at he ⊢
      have x1 := (steps_ifCondition g i (some lEnd) ll (forbidden rc false false s)).errors_ext
      have x2 := (steps_ifBody g (x :: tl') lEnd ll rc (ifCondition g i (some lEnd) ll (forbidden rc false false s))).errors_ext
      obtain ⟨h1, _, _, _, _⟩ := cons_facts rc false false x1 x2 he
      subst h1
      rw [forbidden_fff] at he x1 x2 ⊢
      obtain ⟨e1, e2⟩ := chain2 x1 x2 he
      obtain ⟨_, hpass⟩ := lay_ifCondition hg hn i (some lEnd) ll b hok.1 (fun h => hbrk (by simp [h])) hf3.1 s ss hr e1
      have hp := hpass lEnd rfl
      have d1 := (den_ifCondition (R := R) hg hn i (some lEnd) ll hok.1 s ss hr e1).1
      have ih := lay_ifBody hg hn (x :: tl') lEnd ll b false hok.2 (fun h => hbrk (by simp [h])) hf3.2 (fun h => by cases h) _ _ d1 e2
      rw [low_ifb_if]
      simp only [List.isEmpty_cons, Bool.false_eq_true, if_false]
      rw [hp.eff] at ih
      exact bodyj_dead hp ih
    | nil =>
      unfold IfBodyStmt.anaOKL at hok; unfold IfBodyStmt.hasBrkL at hbrk; unfold IfBodyStmt.f3L at hf3
      simp only [Bool.and_eq_true] at hok
      simp only [Bool.or_eq_false_iff] at hf3
      unfold ifBody at he ⊢
      dsimp only at he ⊢
      have hnil : ∀ (rc' bc' cc' : Bool) (s' : St), (ifBody g [] lEnd ll rc' s') = (s', rc') := by
        intro rc' bc' cc' s'; unfold ifBody; rfl
      obtain ⟨h1, _, _, _, _⟩ := cons_facts rc false false (steps_ifCondition g i (some lEnd) ll _).errors_ext (steps_ifBody g [] lEnd ll rc _).errors_ext he
      subst h1
      rw [forbidden_fff] at he ⊢
      try rw [hnil false false false] at he ⊢
      dsimp only at he ⊢
      obtain ⟨_, hpass⟩ := lay_ifCondition hg hn i (some lEnd) ll b hok.1 (fun h => hbrk (by simp [h])) hf3.1 s ss hr he
      obtain ⟨seg, c1, n1, l1⟩ := hpass lEnd rfl
      rw [low_ifb_if, low_ifb_nil]
      refine ⟨seg, c1, by simpa using n1, ?_⟩
      have l1' : Lay (KOf ll b) _ _ _ _ := l1
      have := Lay.dead [Instr.jumpTo lEnd] l1'
      simpa using this
  | .ret e :: tl, lEnd, ll, b, rc => by
    intro hok hbrk hf3 _ s ss hr he
    unfold IfBodyStmt.anaOKL at hok; unfold IfBodyStmt.hasBrkL at hbrk; unfold IfBodyStmt.f3L at hf3
    unfold ifBody at he ⊢
    dsimp only at he ⊢
    have x1 := (steps_nestedReturn g e (forbidden rc false false s)).errors_ext
    have x2 := (steps_ifBody g tl lEnd ll (rc || (nestedReturn g e (forbidden rc false false s)).2) (nestedReturn g e (forbidden rc false false s)).1).errors_ext
    obtain ⟨h1, _, _, _, _⟩ := cons_facts rc false false x1 x2 he
    subst h1
    rw [forbidden_fff] at he x1 x2 ⊢
    obtain ⟨e1, e2⟩ := chain2 x1 x2 he
    obtain ⟨jr, jf⟩ := cps_jret hg hn (KOf ll b) e s ss hr e1
    have jd := den_nestedReturn hg hn e s ss hr e1
    rw [jf] at he e2 ⊢
    simp only [Bool.false_or] at he e2 ⊢
    rw [low_ifb_ret]
    cases tl with
    | nil =>
      have hnil : ∀ (s' : St), (ifBody g [] lEnd ll true s') = (s', true) := by
        intro s'; unfold ifBody; rfl
      rw [hnil, low_ifb_nil]
      dsimp only
      have := RetV.body (lEnd := lEnd) (res := ((nestedReturn g e s).1, true)) jr
      simpa using this
    | cons x tl' =>
      have ih := lay_ifBody hg hn (x :: tl') lEnd ll b true hok hbrk hf3 (fun h => by cases h) _ _ jd e2
      exact jr.cps.thenBody (by rw [jr.cps.eff] at ih; exact ih)
theorem lay_ifLoopBody (hg : GlobRel g rg) (hn : GNames g) : ∀ (l : List IfLoopStmt) (lEnd lb le : Name) (b rc bc cc : Bool),
    IfLoopStmt.anaOKL l = true → (IfLoopStmt.hasBrkL l = true → b = true) →
    IfLoopStmt.f3L l = false → (l = [] → rc = false) →
    ∀ s ss, DRel g R s ss → (ifLoopBody g l lEnd lb le rc bc cc s).1.errors = s.errors →
      BodyJ (some (lb, le, b)) s (ifLoopBody g l lEnd lb le rc bc cc s) (IfLoopStmt.lowerL true l (effCount s.root.context)) lEnd
  | [], lEnd, lb, le, b, rc, bc, cc => by
    intro _ _ _ hrc s ss hr _
    have : rc = false := hrc rfl
    subst this
    unfold ifLoopBody
    rw [low_ifl_nil]
    refine ⟨[], by simp, by simp [effCount], ?_⟩
    simpa using Lay.jmp (some (lb, le, b)) (effCount s.root.context) lEnd []
  | .letB bd :: tl, lEnd, lb, le, b, rc, bc, cc => by
    intro hok hbrk hf3 _ s ss hr he
    unfold IfLoopStmt.anaOKL at hok; unfold IfLoopStmt.hasBrkL at hbrk; unfold IfLoopStmt.f3L at hf3
    unfold ifLoopBody at he ⊢
    dsimp only at he ⊢
    obtain ⟨h1, h2, h3, _, _⟩ := cons_facts rc bc cc (esteps_letBinding g bd _).errors_ext (steps_ifLoopBody g tl lEnd lb le rc bc cc _).errors_ext he
    subst h1; subst h2; subst h3
    rw [forbidden_fff] at he ⊢
    rw [low_ifl_let]
    exact bodyj_cons (IfLoopStmt.lowerL true tl) (esteps_letBinding g bd s).errors_ext (steps_ifLoopBody g tl lEnd lb le false false false _).errors_ext he
      (fun e => ⟨cpsv_of (cps_let hg hn _ bd s ss hr e), den_let hg hn bd s ss hr e⟩)
      (fun d e => lay_ifLoopBody hg hn tl lEnd lb le b false false false hok hbrk hf3 (fun _ => rfl) _ _ d e)
  | .bind bd :: tl, lEnd, lb, le, b, rc, bc, cc => by
    intro hok hbrk hf3 _ s ss hr he
    unfold IfLoopStmt.anaOKL at hok; unfold IfLoopStmt.hasBrkL at hbrk; unfold IfLoopStmt.f3L at hf3
    unfold ifLoopBody at he ⊢
    dsimp only at he ⊢
    obtain ⟨h1, h2, h3, _, _⟩ := cons_facts rc bc cc (esteps_binding g bd _).errors_ext (steps_ifLoopBody g tl lEnd lb le rc bc cc _).errors_ext he
    subst h1; subst h2; subst h3
    rw [forbidden_fff] at he ⊢
    rw [low_ifl_bind]
    exact bodyj_cons (IfLoopStmt.lowerL true tl) (esteps_binding g bd s).errors_ext (steps_ifLoopBody g tl lEnd lb le false false false _).errors_ext he
      (fun e => ⟨cpsv_of (cps_bind hg hn _ bd s ss hr e), den_bind hg hn bd s ss hr e⟩)
      (fun d e => lay_ifLoopBody hg hn tl lEnd lb le b false false false hok hbrk hf3 (fun _ => rfl) _ _ d e)
  | .call c :: tl, lEnd, lb, le, b, rc, bc, cc => by
    intro hok hbrk hf3 _ s ss hr he
    unfold IfLoopStmt.anaOKL at hok; unfold IfLoopStmt.hasBrkL at hbrk; unfold IfLoopStmt.f3L at hf3
    unfold ifLoopBody at he ⊢
    dsimp only at he ⊢
    obtain ⟨h1, h2, h3, _, _⟩ := cons_facts rc bc cc (esteps_callStmt g c _).errors_ext (steps_ifLoopBody g tl lEnd lb le rc bc cc _).errors_ext he
    subst h1; subst h2; subst h3
    rw [forbidden_fff] at he ⊢
    rw [low_ifl_call]
    exact bodyj_cons (IfLoopStmt.lowerL true tl) (esteps_callStmt g c s).errors_ext (steps_ifLoopBody g tl lEnd lb le false false false _).errors_ext he
      (fun e => ⟨cpsv_of (cps_callS hg hn _ c s ss hr e), den_callS hg hn c s ss hr e⟩)
      (fun d e => lay_ifLoopBody hg hn tl lEnd lb le b false false false hok hbrk hf3 (fun _ => rfl) _ _ d e)
  | .loop lbody :: tl, lEnd, lb, le, b, rc, bc, cc => by
    intro hok hbrk hf3 _ s ss hr he
    unfold IfLoopStmt.anaOKL at hok; unfold IfLoopStmt.hasBrkL at hbrk; unfold IfLoopStmt.f3L at hf3
    simp only [Bool.and_eq_true] at hok
    simp only [Bool.or_eq_false_iff] at hf3
    unfold ifLoopBody at he ⊢
    dsimp only at he ⊢
    obtain ⟨h1, h2, h3, _, _⟩ := cons_facts rc bc cc (steps_loopWrap _ (steps_loopBody g lbody) _).errors_ext (steps_ifLoopBody g tl lEnd lb le rc bc cc _).errors_ext he
    subst h1; subst h2; subst h3
    rw [forbidden_fff] at he ⊢
    rw [low_ifl_loop]
    exact bodyj_cons (IfLoopStmt.lowerL true tl) (steps_loopWrap _ (steps_loopBody g lbody) s).errors_ext (steps_ifLoopBody g tl lEnd lb le false false false _).errors_ext he
      (fun e => ⟨lay_loopWrap (loopBody g lbody) (specLoopBody false rg lbody) (LoopStmt.lowerL true lbody) (LoopStmt.hasRetL lbody)
          (LoopStmt.nestedBrkL lbody) (some (lb, le, b)) (steps_loopBody g lbody)
          (fun lb le s ss => den_loopBody hg hn lbody lb le false false false hok.1 s ss)
          (fun lb le b' s ss d e hb' => lay_loopBody hg hn lbody lb le b' false false false hok.1 hb' hf3.1.2 (fun _ => rfl) s ss d e)
          (fun lb le s h => by rcases ret_loopBody g lbody lb le false false false s h with h | h; cases h; exact h)
          hf3.1.1 s ss hr e,
        (den_loopWrap _ (specLoopBody false rg lbody) (steps_loopBody g lbody)
          (fun lb le s ss => den_loopBody hg hn lbody lb le false false false hok.1 s ss) s ss hr e).1⟩)
      (fun d e => lay_ifLoopBody hg hn tl lEnd lb le b false false false hok.2 hbrk hf3.2 (fun _ => rfl) _ _ d e)
  | .ifS i :: tl, lEnd, lb, le, b, rc, bc, cc => by
    intro hok hbrk hf3 _ s ss hr he
    cases tl with
    | cons x tl' =>
      unfold IfLoopStmt.anaOKL at hok; unfold IfLoopStmt.hasBrkL at hbrk; unfold IfLoopStmt.f3L at hf3
      simp only [Bool.and_eq_true] at hok
      simp only [Bool.or_eq_false_iff] at hf3
      unfold ifLoopBody at he ⊢
      dsimp only at he ⊢
      have x1 := (steps_ifCondition g i (some lEnd) (some (lb, le)) (forbidden rc bc cc s)).errors_ext
      have x2 := (steps_ifLoopBody g (x :: tl') lEnd lb le rc bc cc (ifCondition g i (some lEnd) (some (lb, le)) (forbidden rc bc cc s))).errors_ext
      obtain ⟨h1, h2, h3, _, _⟩ := cons_facts rc bc cc x1 x2 he
      subst h1; subst h2; subst h3
      rw [forbidden_fff] at he x1 x2 ⊢
      obtain ⟨e1, e2⟩ := chain2 x1 x2 he
      obtain ⟨_, hpass⟩ := lay_ifCondition hg hn i (some lEnd) (some (lb, le)) b hok.1 (fun h => hbrk (by simp [h])) hf3.1 s ss hr e1
      have hp := hpass lEnd rfl
      have d1 := (den_ifCondition (R := R) hg hn i (some lEnd) (some (lb, le)) hok.1 s ss hr e1).1
      have ih := lay_ifLoopBody hg hn (x :: tl') lEnd lb le b false false false hok.2 (fun h => hbrk (by simp [h])) hf3.2 (fun h => by cases h) _ _ d1 e2
      rw [low_ifl_if]
      simp only [List.isEmpty_cons, Bool.false_eq_true, if_false]
      rw [hp.eff] at ih
      exact bodyj_dead hp ih
    | nil =>
      unfold IfLoopStmt.anaOKL at hok; unfold IfLoopStmt.hasBrkL at hbrk; unfold IfLoopStmt.f3L at hf3
      simp only [Bool.and_eq_true] at hok
      simp only [Bool.or_eq_false_iff] at hf3
      unfold ifLoopBody at he ⊢
      dsimp only at he ⊢
      have hnil : ∀ (rc' bc' cc' : Bool) (s' : St), (ifLoopBody g [] lEnd lb le rc' bc' cc' s') = (s', rc') := by
        intro rc' bc' cc' s'; unfold ifLoopBody; rfl
      obtain ⟨h1, h2, h3, _, _⟩ := cons_facts rc bc cc (steps_ifCondition g i (some lEnd) (some (lb, le)) _).errors_ext (steps_ifLoopBody g [] lEnd lb le rc bc cc _).errors_ext he
      subst h1; subst h2; subst h3
      rw [forbidden_fff] at he ⊢
      try rw [hnil false false false] at he ⊢
      dsimp only at he ⊢
      obtain ⟨_, hpass⟩ := lay_ifCondition hg hn i (some lEnd) (some (lb, le)) b hok.1 (fun h => hbrk (by simp [h])) hf3.1 s ss hr he
      obtain ⟨seg, c1, n1, l1⟩ := hpass lEnd rfl
      rw [low_ifl_if, low_ifl_nil]
      refine ⟨seg, c1, by simpa using n1, ?_⟩
      have l1' : Lay (some (lb, le, b)) _ _ _ _ := l1
      have := Lay.dead [Instr.jumpTo lEnd] l1'
      simpa using this
  | .ret e :: tl, lEnd, lb, le, b, rc, bc, cc => by
    intro hok hbrk hf3 _ s ss hr he
    unfold IfLoopStmt.anaOKL at hok; unfold IfLoopStmt.hasBrkL at hbrk; unfold IfLoopStmt.f3L at hf3
    unfold ifLoopBody at he ⊢
    dsimp only at he ⊢
    have x1 := (steps_nestedReturn g e (forbidden rc bc cc s)).errors_ext
    have x2 := (steps_ifLoopBody g tl lEnd lb le (rc || (nestedReturn g e (forbidden rc bc cc s)).2) bc cc (nestedReturn g e (forbidden rc bc cc s)).1).errors_ext
    obtain ⟨h1, h2, h3, _, _⟩ := cons_facts rc bc cc x1 x2 he
    subst h1; subst h2; subst h3
    rw [forbidden_fff] at he x1 x2 ⊢
    obtain ⟨e1, e2⟩ := chain2 x1 x2 he
    obtain ⟨jr, jf⟩ := cps_jret hg hn (some (lb, le, b)) e s ss hr e1
    have jd := den_nestedReturn hg hn e s ss hr e1
    rw [jf] at he e2 ⊢
    simp only [Bool.false_or] at he e2 ⊢
    rw [low_ifl_ret]
    cases tl with
    | nil =>
      have hnil : ∀ (s' : St), (ifLoopBody g [] lEnd lb le true false false s') = (s', true) := by
        intro s'; unfold ifLoopBody; rfl
      rw [hnil, low_ifl_nil]
      dsimp only
      have := RetV.body (lEnd := lEnd) (res := ((nestedReturn g e s).1, true)) jr
      simpa using this
    | cons x tl' =>
      have ih := lay_ifLoopBody hg hn (x :: tl') lEnd lb le b true false false hok hbrk hf3 (fun h => by cases h) _ _ jd e2
      exact jr.cps.thenBody (by rw [jr.cps.eff] at ih; exact ih)
  | .brk :: tl, lEnd, lb, le, b, rc, bc, cc => by
    intro hok hbrk hf3 _ s ss hr he
    unfold IfLoopStmt.anaOKL at hok; unfold IfLoopStmt.hasBrkL at hbrk; unfold IfLoopStmt.f3L at hf3
    have hb : b = true := hbrk rfl
    unfold ifLoopBody at he ⊢
    dsimp only at he ⊢
    have x1 : ∃ Δ, ((forbidden rc bc cc s).push (Instr.jumpTo le)).errors = (forbidden rc bc cc s).errors ++ Δ := ⟨[], by simp [St.push, St.mapFrames]⟩
    have x2 := (steps_ifLoopBody g tl lEnd lb le rc true cc ((forbidden rc bc cc s).push (Instr.jumpTo le))).errors_ext
    obtain ⟨h1, h2, h3, _, _⟩ := cons_facts rc bc cc x1 x2 he
    subst h1; subst h2; subst h3
    rw [forbidden_fff] at he x1 x2 ⊢
    have e2 := (chain2 x1 x2 he).2
    have jd : DRel g R (s.push (Instr.jumpTo le)) ss := drel_same hr (quiet_push _ (skipped_jumpTo _) _) (vals_push _ _) (dts_push_plain _ _ rfl)
    have jr : RetV (some (lb, le, b)) s (s.push (Instr.jumpTo le)) ([Flow.brk], effCount s.root.context) :=
      ⟨[Instr.jumpTo le], rfl, by simp [effCount, Instr.isEffect], fun rest code e => by
        subst hb
        simpa using Lay.brk (effCount s.root.context) rest lb le code e⟩
    rw [low_ifl_brk]
    cases tl with
    | nil =>
      have hnil : ∀ (rc' bc' cc' : Bool) (s' : St), (ifLoopBody g [] lEnd lb le rc' bc' cc' s') = (s', rc') := by
        intro rc' bc' cc' s'; unfold ifLoopBody; rfl
      rw [hnil, low_ifl_nil]
      dsimp only
      have := RetV.body (lEnd := lEnd) (res := (s.push (Instr.jumpTo le), false)) jr
      simpa using this
    | cons x tl' =>
      have ih := lay_ifLoopBody hg hn (x :: tl') lEnd lb le b false true false hok (fun _ => hb) hf3 (fun h => by cases h) _ _ jd e2
      exact jr.cps.thenBody (by rw [jr.cps.eff] at ih; exact ih)
  | .cont :: tl, lEnd, lb, le, b, rc, bc, cc => by
    intro hok hbrk hf3 _ s ss hr he
    unfold IfLoopStmt.anaOKL at hok; unfold IfLoopStmt.hasBrkL at hbrk; unfold IfLoopStmt.f3L at hf3
    
    unfold ifLoopBody at he ⊢
    dsimp only at he ⊢
    have x1 : ∃ Δ, ((forbidden rc bc cc s).push (Instr.jumpTo lb)).errors = (forbidden rc bc cc s).errors ++ Δ := ⟨[], by simp [St.push, St.mapFrames]⟩
    have x2 := (steps_ifLoopBody g tl lEnd lb le rc bc true ((forbidden rc bc cc s).push (Instr.jumpTo lb))).errors_ext
    obtain ⟨h1, h2, h3, _, _⟩ := cons_facts rc bc cc x1 x2 he
    subst h1; subst h2; subst h3
    rw [forbidden_fff] at he x1 x2 ⊢
    have e2 := (chain2 x1 x2 he).2
    have jd : DRel g R (s.push (Instr.jumpTo lb)) ss := drel_same hr (quiet_push _ (skipped_jumpTo _) _) (vals_push _ _) (dts_push_plain _ _ rfl)
    have jr : RetV (some (lb, le, b)) s (s.push (Instr.jumpTo lb)) ([Flow.cont], effCount s.root.context) :=
      ⟨[Instr.jumpTo lb], rfl, by simp [effCount, Instr.isEffect], fun rest code e => by
        skip
        simpa using Lay.cont (effCount s.root.context) rest lb le _ code e⟩
    rw [low_ifl_cont]
    cases tl with
    | nil =>
      have hnil : ∀ (rc' bc' cc' : Bool) (s' : St), (ifLoopBody g [] lEnd lb le rc' bc' cc' s') = (s', rc') := by
        intro rc' bc' cc' s'; unfold ifLoopBody; rfl
      rw [hnil, low_ifl_nil]
      dsimp only
      have := RetV.body (lEnd := lEnd) (res := (s.push (Instr.jumpTo lb), false)) jr
      simpa using this
    | cons x tl' =>
      have ih := lay_ifLoopBody hg hn (x :: tl') lEnd lb le b false false true hok hbrk hf3 (fun h => by cases h) _ _ jd e2
      exact jr.cps.thenBody (by rw [jr.cps.eff] at ih; exact ih)
theorem lay_loopBody (hg : GlobRel g rg) (hn : GNames g) : ∀ (l : List LoopStmt) (lb le : Name) (b rc bc cc : Bool),
    LoopStmt.anaOKL l = true → (LoopStmt.nestedBrkL l = true → b = true) →
    LoopStmt.f3L l = false → (l = [] → rc = false) →
    ∀ s ss, DRel g R s ss → (loopBody g l lb le rc bc cc s).1.errors = s.errors →
      CPSv (some (lb, le, b)) s (loopBody g l lb le rc bc cc s).1 (LoopStmt.lowerL true l (effCount s.root.context)) ∧
      ((loopBody g l lb le rc bc cc s).2 = true → endsRet (LoopStmt.lowerL true l (effCount s.root.context)).1 = true)
  | [], lb, le, b, rc, bc, cc => by
    intro _ _ _ hrc s ss hr _
    have : rc = false := hrc rfl
    subst this
    unfold loopBody
    rw [low_lp_nil]
    exact ⟨CPSv.same rfl, fun h => by cases h⟩
  | .letB bd :: tl, lb, le, b, rc, bc, cc => by
    intro hok hbrk hf3 _ s ss hr he
    unfold LoopStmt.anaOKL at hok; unfold LoopStmt.nestedBrkL at hbrk; unfold LoopStmt.f3L at hf3
    unfold loopBody at he ⊢
    dsimp only at he ⊢
    obtain ⟨h1, h2, h3, _, _⟩ := cons_facts rc bc cc (esteps_letBinding g bd _).errors_ext (steps_loopBody g tl lb le rc bc cc _).errors_ext he
    subst h1; subst h2; subst h3
    rw [forbidden_fff] at he ⊢
    rw [low_lp_let]
    exact cpsl_cons (LoopStmt.lowerL true tl) (esteps_letBinding g bd s).errors_ext (steps_loopBody g tl lb le false false false _).errors_ext he
      (fun e => ⟨cpsv_of (cps_let hg hn _ bd s ss hr e), den_let hg hn bd s ss hr e⟩)
      (fun d e => lay_loopBody hg hn tl lb le b false false false hok hbrk hf3 (fun _ => rfl) _ _ d e)
  | .bind bd :: tl, lb, le, b, rc, bc, cc => by
    intro hok hbrk hf3 _ s ss hr he
    unfold LoopStmt.anaOKL at hok; unfold LoopStmt.nestedBrkL at hbrk; unfold LoopStmt.f3L at hf3
    unfold loopBody at he ⊢
    dsimp only at he ⊢
    obtain ⟨h1, h2, h3, _, _⟩ := cons_facts rc bc cc (esteps_binding g bd _).errors_ext (steps_loopBody g tl lb le rc bc cc _).errors_ext he
    subst h1; subst h2; subst h3
    rw [forbidden_fff] at he ⊢
    rw [low_lp_bind]
    exact cpsl_cons (LoopStmt.lowerL true tl) (esteps_binding g bd s).errors_ext (steps_loopBody g tl lb le false false false _).errors_ext he
      (fun e => ⟨cpsv_of (cps_bind hg hn _ bd s ss hr e), den_bind hg hn bd s ss hr e⟩)
      (fun d e => lay_loopBody hg hn tl lb le b false false false hok hbrk hf3 (fun _ => rfl) _ _ d e)
  | .call c :: tl, lb, le, b, rc, bc, cc => by
    intro hok hbrk hf3 _ s ss hr he
    unfold LoopStmt.anaOKL at hok; unfold LoopStmt.nestedBrkL at hbrk; unfold LoopStmt.f3L at hf3
    unfold loopBody at he ⊢
    dsimp only at he ⊢
    obtain ⟨h1, h2, h3, _, _⟩ := cons_facts rc bc cc (esteps_callStmt g c _).errors_ext (steps_loopBody g tl lb le rc bc cc _).errors_ext he
    subst h1; subst h2; subst h3
    rw [forbidden_fff] at he ⊢
    rw [low_lp_call]
    exact cpsl_cons (LoopStmt.lowerL true tl) (esteps_callStmt g c s).errors_ext (steps_loopBody g tl lb le false false false _).errors_ext he
      (fun e => ⟨cpsv_of (cps_callS hg hn _ c s ss hr e), den_callS hg hn c s ss hr e⟩)
      (fun d e => lay_loopBody hg hn tl lb le b false false false hok hbrk hf3 (fun _ => rfl) _ _ d e)
  | .loop lbody :: tl, lb, le, b, rc, bc, cc => by
    intro hok hbrk hf3 _ s ss hr he
    unfold LoopStmt.anaOKL at hok; unfold LoopStmt.nestedBrkL at hbrk; unfold LoopStmt.f3L at hf3
    simp only [Bool.and_eq_true] at hok
    simp only [Bool.or_eq_false_iff] at hf3
    unfold loopBody at he ⊢
    dsimp only at he ⊢
    obtain ⟨h1, h2, h3, _, _⟩ := cons_facts rc bc cc (steps_loopWrap _ (steps_loopBody g lbody) _).errors_ext (steps_loopBody g tl lb le rc bc cc _).errors_ext he
    subst h1; subst h2; subst h3
    rw [forbidden_fff] at he ⊢
    rw [low_lp_loop]
    exact cpsl_cons (LoopStmt.lowerL true tl) (steps_loopWrap _ (steps_loopBody g lbody) s).errors_ext (steps_loopBody g tl lb le false false false _).errors_ext he
      (fun e => ⟨lay_loopWrap (loopBody g lbody) (specLoopBody false rg lbody) (LoopStmt.lowerL true lbody) (LoopStmt.hasRetL lbody)
          (LoopStmt.nestedBrkL lbody) (some (lb, le, b)) (steps_loopBody g lbody)
          (fun lb le s ss => den_loopBody hg hn lbody lb le false false false hok.1 s ss)
          (fun lb le b' s ss d e hb' => lay_loopBody hg hn lbody lb le b' false false false hok.1 hb' hf3.1.2 (fun _ => rfl) s ss d e)
          (fun lb le s h => by rcases ret_loopBody g lbody lb le false false false s h with h | h; cases h; exact h)
          hf3.1.1 s ss hr e,
        (den_loopWrap _ (specLoopBody false rg lbody) (steps_loopBody g lbody)
          (fun lb le s ss => den_loopBody hg hn lbody lb le false false false hok.1 s ss) s ss hr e).1⟩)
      (fun d e => lay_loopBody hg hn tl lb le b false false false hok.2 hbrk hf3.2 (fun _ => rfl) _ _ d e)
  | .ifS i :: tl, lb, le, b, rc, bc, cc => by
    intro hok hbrk hf3 _ s ss hr he
    unfold LoopStmt.anaOKL at hok; unfold LoopStmt.nestedBrkL at hbrk; unfold LoopStmt.f3L at hf3
    simp only [Bool.and_eq_true] at hok
    simp only [Bool.or_eq_false_iff] at hf3
    unfold loopBody at he ⊢
    dsimp only at he ⊢
    obtain ⟨h1, h2, h3, _, _⟩ := cons_facts rc bc cc (steps_ifCondition g i none (some (lb, le)) _).errors_ext (steps_loopBody g tl lb le rc bc cc _).errors_ext he
    subst h1; subst h2; subst h3
    rw [forbidden_fff] at he ⊢
    rw [low_lp_if]
    exact cpsl_cons (LoopStmt.lowerL true tl) (steps_ifCondition g i none (some (lb, le)) s).errors_ext (steps_loopBody g tl lb le false false false _).errors_ext he
      (fun e => ⟨(lay_ifCondition hg hn i none (some (lb, le)) b hok.1 (fun h => hbrk (by simp [h])) hf3.1 s ss hr e).1 rfl,
        (den_ifCondition hg hn i none (some (lb, le)) hok.1 s ss hr e).1⟩)
      (fun d e => lay_loopBody hg hn tl lb le b false false false hok.2 (fun h => hbrk (by simp [h])) hf3.2 (fun _ => rfl) _ _ d e)
  | .ret e :: tl, lb, le, b, rc, bc, cc => by
    intro hok hbrk hf3 _ s ss hr he
    unfold LoopStmt.anaOKL at hok; unfold LoopStmt.nestedBrkL at hbrk; unfold LoopStmt.f3L at hf3
    unfold loopBody at he ⊢
    dsimp only at he ⊢
    have x1 := (steps_nestedReturn g e (forbidden rc bc cc s)).errors_ext
    have x2 := (steps_loopBody g tl lb le (rc || (nestedReturn g e (forbidden rc bc cc s)).2) bc cc (nestedReturn g e (forbidden rc bc cc s)).1).errors_ext
    obtain ⟨h1, h2, h3, _, _⟩ := cons_facts rc bc cc x1 x2 he
    subst h1; subst h2; subst h3
    rw [forbidden_fff] at he x1 x2 ⊢
    obtain ⟨e1, e2⟩ := chain2 x1 x2 he
    obtain ⟨jr, jf⟩ := cps_jret hg hn (some (lb, le, b)) e s ss hr e1
    have jd := den_nestedReturn hg hn e s ss hr e1
    rw [jf] at he e2 ⊢
    simp only [Bool.false_or] at he e2 ⊢
    rw [low_lp_ret]
    cases tl with
    | nil =>
      have hnil : ∀ (s' : St), (loopBody g [] lb le true false false s') = (s', true) := by
        intro s'; unfold loopBody; rfl
      rw [hnil, low_lp_nil]
      dsimp only
      refine ⟨?_, fun _ => ?_⟩
      · simpa using jr.cps
      · simpa using endsRet_lowerRet e (effCount s.root.context)
    | cons x tl' =>
      have ih := lay_loopBody hg hn (x :: tl') lb le b true false false hok hbrk hf3 (fun h => by cases h) _ _ jd e2
      refine ⟨jr.cps.trans (by have := ih.1; rw [jr.cps.eff] at this; exact this), fun hr' => endsRet_append _ _ ?_⟩
      have := ih.2 hr'; rw [jr.cps.eff] at this; exact this
  | .brk :: tl, lb, le, b, rc, bc, cc => by
    intro hok hbrk hf3 _ s ss hr he
    unfold LoopStmt.anaOKL at hok; unfold LoopStmt.nestedBrkL at hbrk; unfold LoopStmt.f3L at hf3
    have hb : b = true := hbrk rfl
    unfold loopBody at he ⊢
    dsimp only at he ⊢
    have x1 : ∃ Δ, ((forbidden rc bc cc s).push (Instr.jumpTo le)).errors = (forbidden rc bc cc s).errors ++ Δ := ⟨[], by simp [St.push, St.mapFrames]⟩
    have x2 := (steps_loopBody g tl lb le rc true cc ((forbidden rc bc cc s).push (Instr.jumpTo le))).errors_ext
    obtain ⟨h1, h2, h3, _, _⟩ := cons_facts rc bc cc x1 x2 he
    subst h1; subst h2; subst h3
    rw [forbidden_fff] at he x1 x2 ⊢
    have e2 := (chain2 x1 x2 he).2
    have jd : DRel g R (s.push (Instr.jumpTo le)) ss := drel_same hr (quiet_push _ (skipped_jumpTo _) _) (vals_push _ _) (dts_push_plain _ _ rfl)
    have jr : RetV (some (lb, le, b)) s (s.push (Instr.jumpTo le)) ([Flow.brk], effCount s.root.context) :=
      ⟨[Instr.jumpTo le], rfl, by simp [effCount, Instr.isEffect], fun rest code e => by
        subst hb
        simpa using Lay.brk (effCount s.root.context) rest lb le code e⟩
    rw [low_lp_brk]
    cases tl with
    | nil =>
      have hnil : ∀ (rc' bc' cc' : Bool) (s' : St), (loopBody g [] lb le rc' bc' cc' s') = (s', rc') := by
        intro rc' bc' cc' s'; unfold loopBody; rfl
      rw [hnil, low_lp_nil]
      dsimp only
      refine ⟨?_, fun h => by cases h⟩
      simpa using jr.cps
    | cons x tl' =>
      have ih := lay_loopBody hg hn (x :: tl') lb le b false true false hok (fun _ => hb) hf3 (fun h => by cases h) _ _ jd e2
      refine ⟨jr.cps.trans (by have := ih.1; rw [jr.cps.eff] at this; exact this), fun hr' => endsRet_append _ _ ?_⟩
      have := ih.2 hr'; rw [jr.cps.eff] at this; exact this
  | .cont :: tl, lb, le, b, rc, bc, cc => by
    intro hok hbrk hf3 _ s ss hr he
    unfold LoopStmt.anaOKL at hok; unfold LoopStmt.nestedBrkL at hbrk; unfold LoopStmt.f3L at hf3
    
    unfold loopBody at he ⊢
    dsimp only at he ⊢
    have x1 : ∃ Δ, ((forbidden rc bc cc s).push (Instr.jumpTo lb)).errors = (forbidden rc bc cc s).errors ++ Δ := ⟨[], by simp [St.push, St.mapFrames]⟩
    have x2 := (steps_loopBody g tl lb le rc bc true ((forbidden rc bc cc s).push (Instr.jumpTo lb))).errors_ext
    obtain ⟨h1, h2, h3, _, _⟩ := cons_facts rc bc cc x1 x2 he
    subst h1; subst h2; subst h3
    rw [forbidden_fff] at he x1 x2 ⊢
    have e2 := (chain2 x1 x2 he).2
    have jd : DRel g R (s.push (Instr.jumpTo lb)) ss := drel_same hr (quiet_push _ (skipped_jumpTo _) _) (vals_push _ _) (dts_push_plain _ _ rfl)
    have jr : RetV (some (lb, le, b)) s (s.push (Instr.jumpTo lb)) ([Flow.cont], effCount s.root.context) :=
      ⟨[Instr.jumpTo lb], rfl, by simp [effCount, Instr.isEffect], fun rest code e => by
        skip
        simpa using Lay.cont (effCount s.root.context) rest lb le _ code e⟩
    rw [low_lp_cont]
    cases tl with
    | nil =>
      have hnil : ∀ (rc' bc' cc' : Bool) (s' : St), (loopBody g [] lb le rc' bc' cc' s') = (s', rc') := by
        intro rc' bc' cc' s'; unfold loopBody; rfl
      rw [hnil, low_lp_nil]
      dsimp only
      refine ⟨?_, fun h => by cases h⟩
      simpa using jr.cps
    | cons x tl' =>
      have ih := lay_loopBody hg hn (x :: tl') lb le b false false true hok hbrk hf3 (fun h => by cases h) _ _ jd e2
      refine ⟨jr.cps.trans (by have := ih.1; rw [jr.cps.eff] at this; exact this), fun hr' => endsRet_append _ _ ?_⟩
      have := ih.2 hr'; rw [jr.cps.eff] at this; exact this
end

end mutualLay

/-! ### Function level -/

section fnLevel
variable {g : Globals} {R : Ty} {rg : RGlobals}

theorem cnt_specParams : ∀ (ps : List (Name × ATy)) (s : SpecSt), countEff (specParams ps s).out = countEff s.out
  | [], s => by unfold specParams; rfl
  | (n, t) :: rest, s => by
    unfold specParams
    dsimp only
    rw [cnt_specParams rest]
    simp [SpecSt.declare, SpecSt.emit, countEff, DStmt.isEff]

theorem lay_bodyStmts (hg : GlobRel g rg) (hn : GNames g) (resTy : Ty) : ∀ (l : List BodyStmt) (rc : Bool),
    BodyStmt.anaOKL l = true → BodyStmt.f3L l = false → (l = [] → rc = false) →
    ∀ s ss, DRel g resTy s ss → (bodyStmts g resTy l rc s).1.errors = s.errors →
      CPSv none s (bodyStmts g resTy l rc s).1 (BodyStmt.lowerL true l (effCount s.root.context)) ∧
      ((bodyStmts g resTy l rc s).2 = true → endsRet (BodyStmt.lowerL true l (effCount s.root.context)).1 = true)
  | [], rc => by
    intro _ _ hrc s ss hr _
    have : rc = false := hrc rfl
    subst this
    unfold bodyStmts
    rw [low_fb_nil]
    exact ⟨CPSv.same rfl, fun h => by cases h⟩
  | .letB bd :: tl, rc => by
    intro hok hf3 _ s ss hr he
    unfold BodyStmt.anaOKL at hok; unfold BodyStmt.f3L at hf3
    unfold bodyStmts at he ⊢
    dsimp only at he ⊢
    obtain ⟨h1, _, _, _, _⟩ := cons_facts rc false false (esteps_letBinding g bd _).errors_ext (steps_bodyStmts g resTy tl rc _).errors_ext he
    subst h1
    rw [forbidden_fff] at he ⊢
    rw [low_fb_let]
    exact cpsl_cons (BodyStmt.lowerL true tl) (esteps_letBinding g bd s).errors_ext (steps_bodyStmts g resTy tl false _).errors_ext he
      (fun e => ⟨cpsv_of (cps_let hg hn _ bd s ss hr e), den_let hg hn bd s ss hr e⟩)
      (fun d e => lay_bodyStmts hg hn resTy tl false hok hf3 (fun _ => rfl) _ _ d e)
  | .bind bd :: tl, rc => by
    intro hok hf3 _ s ss hr he
    unfold BodyStmt.anaOKL at hok; unfold BodyStmt.f3L at hf3
    unfold bodyStmts at he ⊢
    dsimp only at he ⊢
    obtain ⟨h1, _, _, _, _⟩ := cons_facts rc false false (esteps_binding g bd _).errors_ext (steps_bodyStmts g resTy tl rc _).errors_ext he
    subst h1
    rw [forbidden_fff] at he ⊢
    rw [low_fb_bind]
    exact cpsl_cons (BodyStmt.lowerL true tl) (esteps_binding g bd s).errors_ext (steps_bodyStmts g resTy tl false _).errors_ext he
      (fun e => ⟨cpsv_of (cps_bind hg hn _ bd s ss hr e), den_bind hg hn bd s ss hr e⟩)
      (fun d e => lay_bodyStmts hg hn resTy tl false hok hf3 (fun _ => rfl) _ _ d e)
  | .call c :: tl, rc => by
    intro hok hf3 _ s ss hr he
    unfold BodyStmt.anaOKL at hok; unfold BodyStmt.f3L at hf3
    unfold bodyStmts at he ⊢
    dsimp only at he ⊢
    obtain ⟨h1, _, _, _, _⟩ := cons_facts rc false false (esteps_callStmt g c _).errors_ext (steps_bodyStmts g resTy tl rc _).errors_ext he
    subst h1
    rw [forbidden_fff] at he ⊢
    rw [low_fb_call]
    exact cpsl_cons (BodyStmt.lowerL true tl) (esteps_callStmt g c s).errors_ext (steps_bodyStmts g resTy tl false _).errors_ext he
      (fun e => ⟨cpsv_of (cps_callS hg hn _ c s ss hr e), den_callS hg hn c s ss hr e⟩)
      (fun d e => lay_bodyStmts hg hn resTy tl false hok hf3 (fun _ => rfl) _ _ d e)
  | .ifS i :: tl, rc => by
    intro hok hf3 _ s ss hr he
    unfold BodyStmt.anaOKL at hok; unfold BodyStmt.f3L at hf3
    simp only [Bool.and_eq_true] at hok
    simp only [Bool.or_eq_false_iff] at hf3
    unfold bodyStmts at he ⊢
    dsimp only at he ⊢
    obtain ⟨h1, _, _, _, _⟩ := cons_facts rc false false (steps_ifCondition g i none none _).errors_ext (steps_bodyStmts g resTy tl rc _).errors_ext he
    subst h1
    rw [forbidden_fff] at he ⊢
    rw [low_fb_if]
    exact cpsl_cons (BodyStmt.lowerL true tl) (steps_ifCondition g i none none s).errors_ext (steps_bodyStmts g resTy tl false _).errors_ext he
      (fun e => ⟨(lay_ifCondition hg hn i none none true hok.1 (fun _ => rfl) hf3.1 s ss hr e).1 rfl,
        (den_ifCondition hg hn i none none hok.1 s ss hr e).1⟩)
      (fun d e => lay_bodyStmts hg hn resTy tl false hok.2 hf3.2 (fun _ => rfl) _ _ d e)
  | .loop lbody :: tl, rc => by
    intro hok hf3 _ s ss hr he
    unfold BodyStmt.anaOKL at hok; unfold BodyStmt.f3L at hf3
    simp only [Bool.and_eq_true] at hok
    simp only [Bool.or_eq_false_iff] at hf3
    unfold bodyStmts at he ⊢
    dsimp only at he ⊢
    obtain ⟨h1, _, _, _, _⟩ := cons_facts rc false false (steps_loopWrap _ (steps_loopBody g lbody) _).errors_ext (steps_bodyStmts g resTy tl rc _).errors_ext he
    subst h1
    rw [forbidden_fff] at he ⊢
    rw [low_fb_loop]
    exact cpsl_cons (BodyStmt.lowerL true tl) (steps_loopWrap _ (steps_loopBody g lbody) s).errors_ext (steps_bodyStmts g resTy tl false _).errors_ext he
      (fun e => ⟨lay_loopWrap (loopBody g lbody) (specLoopBody false rg lbody) (LoopStmt.lowerL true lbody) (LoopStmt.hasRetL lbody)
          (LoopStmt.nestedBrkL lbody) none (steps_loopBody g lbody)
          (fun lb le s ss => den_loopBody hg hn lbody lb le false false false hok.1 s ss)
          (fun lb le b' s ss d e hb' => lay_loopBody hg hn lbody lb le b' false false false hok.1 hb' hf3.1.2 (fun _ => rfl) s ss d e)
          (fun lb le s h => by rcases ret_loopBody g lbody lb le false false false s h with h | h; cases h; exact h)
          hf3.1.1 s ss hr e,
        (den_loopWrap _ (specLoopBody false rg lbody) (steps_loopBody g lbody)
          (fun lb le s ss => den_loopBody hg hn lbody lb le false false false hok.1 s ss) s ss hr e).1⟩)
      (fun d e => lay_bodyStmts hg hn resTy tl false hok.2 hf3.2 (fun _ => rfl) _ _ d e)
  | .expr e :: tl, rc => by
    intro hok hf3 _ s ss hr he
    unfold BodyStmt.anaOKL at hok; unfold BodyStmt.f3L at hf3
    unfold bodyStmts at he ⊢
    dsimp only at he ⊢
    have x1 := (steps_fnReturn g resTy e rc (forbidden rc false false s)).errors_ext
    have x2 := (steps_bodyStmts g resTy tl (fnReturn g resTy e rc (forbidden rc false false s)).2 (fnReturn g resTy e rc (forbidden rc false false s)).1).errors_ext
    obtain ⟨h1, _, _, _, _⟩ := cons_facts rc false false x1 x2 he
    subst h1
    rw [forbidden_fff] at he x1 x2 ⊢
    obtain ⟨e1, e2⟩ := chain2 x1 x2 he
    obtain ⟨jr, jf⟩ := cps_fnRet hg hn none resTy e s ss hr e1
    have jd := den_fnReturn hg hn resTy e false s ss hr e1
    rw [jf] at he e2 ⊢
    rw [low_fb_expr]
    cases tl with
    | nil =>
      have hnil : ∀ (s' : St), bodyStmts g resTy [] true s' = (s', true) := by intro s'; unfold bodyStmts; rfl
      rw [hnil, low_fb_nil]
      dsimp only
      refine ⟨?_, fun _ => ?_⟩
      · simpa using jr.cps
      · simpa using endsRet_lowerRet e (effCount s.root.context)
    | cons x tl' =>
      have ih := lay_bodyStmts hg hn resTy (x :: tl') true hok hf3 (fun h => by cases h) _ _ jd e2
      refine ⟨jr.cps.trans (by have := ih.1; rw [jr.cps.eff] at this; exact this), fun hr' => endsRet_append _ _ ?_⟩
      have := ih.2 hr'; rw [jr.cps.eff] at this; exact this
  | .ret e :: tl, rc => by
    intro hok hf3 _ s ss hr he
    unfold BodyStmt.anaOKL at hok; unfold BodyStmt.f3L at hf3
    unfold bodyStmts at he ⊢
    dsimp only at he ⊢
    have x1 := (steps_fnReturn g resTy e rc (forbidden rc false false s)).errors_ext
    have x2 := (steps_bodyStmts g resTy tl (fnReturn g resTy e rc (forbidden rc false false s)).2 (fnReturn g resTy e rc (forbidden rc false false s)).1).errors_ext
    obtain ⟨h1, _, _, _, _⟩ := cons_facts rc false false x1 x2 he
    subst h1
    rw [forbidden_fff] at he x1 x2 ⊢
    obtain ⟨e1, e2⟩ := chain2 x1 x2 he
    obtain ⟨jr, jf⟩ := cps_fnRet hg hn none resTy e s ss hr e1
    have jd := den_fnReturn hg hn resTy e false s ss hr e1
    rw [jf] at he e2 ⊢
    rw [low_fb_ret]
    cases tl with
    | nil =>
      have hnil : ∀ (s' : St), bodyStmts g resTy [] true s' = (s', true) := by intro s'; unfold bodyStmts; rfl
      rw [hnil, low_fb_nil]
      dsimp only
      refine ⟨?_, fun _ => ?_⟩
      · simpa using jr.cps
      · simpa using endsRet_lowerRet e (effCount s.root.context)
    | cons x tl' =>
      have ih := lay_bodyStmts hg hn resTy (x :: tl') true hok hf3 (fun h => by cases h) _ _ jd e2
      refine ⟨jr.cps.trans (by have := ih.1; rw [jr.cps.eff] at this; exact this), fun hr' => endsRet_append _ _ ?_⟩
      have := ih.2 hr'; rw [jr.cps.eff] at this; exact this

/-- **T4, analyzer half** — the root stack of a function analysed without error, outside the
finding F3, is a layout of the function's structured flow *under the F2 reading* (statements after
a nested `if` in an if / else body are dead), which ends in a return -/
theorem T4F2_function (hg : GlobRel g rg) (hn : GNames g) (f : FnDecl) (hok : BodyStmt.anaOKL f.body = true)
    (hf3 : f.hasF3 = false) (he : (functionBody g f).errors = []) :
    Lay none 0 f.flowF2 (functionBody g f).root.context .fall ∧ endsRet f.flowF2 = true := by
  unfold functionBody at he ⊢
  unfold FnDecl.flowF2
  unfold FnDecl.hasF3 at hf3
  dsimp only at he ⊢
  have x1 := (esteps_initParams f.params St.init paramInv_init).errors_ext
  have h1 := den_initParams (g := g) (R := f.result.toTy) f.params St.init SpecSt.init paramInv_init drel_init
  have st1 := esteps_initParams f.params St.init paramInv_init
  generalize initParams f.params St.init = s1 at he x1 h1 st1 ⊢
  have x2 := (steps_bodyStmts g f.result.toTy f.body false s1).errors_ext
  have l2 := lay_bodyStmts hg hn f.result.toTy f.body false hok hf3 (fun _ => rfl) s1 (specParams f.params SpecSt.init)
  generalize bodyStmts g f.result.toTy f.body false s1 = q at he x2 l2 ⊢
  obtain ⟨s2, rc⟩ := q
  dsimp only at he x2 l2 ⊢
  have x3 : ∃ Δ, (if rc = true then s2 else s2.addErr .returnNotFound [] 1 0).errors = s2.errors ++ Δ := by
    cases rc
    · exact ⟨_, rfl⟩
    · exact ⟨[], by simp⟩
  have hi : St.init.errors = [] := rfl
  rw [← hi] at he
  obtain ⟨e1, e2, e3⟩ := chain3 x1 x2 x3 he
  have d1 := h1 e1
  obtain ⟨c2, hend⟩ := l2 d1 e2
  have hrc : rc = true := by
    cases rc
    · exfalso
      have := congrArg List.length e3
      simp [St.addErr] at this
    · rfl
  subst hrc
  -- the parameters: straight code without effects
  have hn1 : effCount s1.root.context = 0 := by
    rw [eff_of_drel d1, cnt_specParams]; rfl
  obtain ⟨seg1, cs1, hs1⟩ := esteps_seg st1
  have hinit : St.init.root.context = [] := rfl
  rw [hinit, List.nil_append] at cs1
  rw [hn1] at c2 hend
  obtain ⟨seg2, cs2, n2, lay2⟩ := c2
  rw [hn1] at lay2
  simp only [if_true]
  refine ⟨?_, hend rfl⟩
  have hl := lay2 [] [] .fall (by simpa using Lay.nil none (0 + effCount seg2))
  have hs1e : effCount seg1 = 0 := by rw [← cs1]; exact hn1
  have := lay_seg (K := none) seg1 0 hs1 (by rw [hs1e]; simpa using hl)
  rw [hs1e] at this
  rw [cs2, cs1]
  simpa [evs] using this

/-- outside the findings F2 and F3 the root stack is a layout of the function's structured flow -/
theorem T4_function (hg : GlobRel g rg) (hn : GNames g) (f : FnDecl) (hok : BodyStmt.anaOKL f.body = true)
    (hf2 : f.hasF2 = false) (hf3 : f.hasF3 = false) (he : (functionBody g f).errors = []) :
    Lay none 0 f.flow (functionBody g f).root.context .fall ∧ endsRet f.flow = true := by
  rw [← flowF2_eq f hf2]
  exact T4F2_function hg hn f hok hf3 he

end fnLevel

end SemVerif
