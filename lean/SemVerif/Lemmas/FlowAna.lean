import SemVerif.Lemmas.FlowLay
import SemVerif.Lemmas.T2Fn
import SemVerif.Lemmas.ExtEvents
import SemVerif.Spec.Findings
/-!
# Lemmas/FlowAna — the analyzer emits laid-out code (family T4, analyzer half)

For a function analysed without error whose body does not match findings F2 / F3, the root stack is
a layout (`Lay`) of the structured flow `FnDecl.flow` of the source: every control construct emits
its labels, jumps and branch in the shape the layout rules describe, and everything below the
control constructs is straight-line code with one effect instruction per event.  Mutual structural
induction in continuation-passing style on top of the T2 relation `DRel` (which supplies the
success of every evaluation and the number of call events).
-/
namespace SemVerif

/-! ### Straight-line code below the control constructs -/

theorem straight_of_writes {i : Instr} {w : Nat} (hw : i.writes = some w) : i.isRet = false := by
  cases i <;> simp [Instr.writes, Instr.isRet, Instr.isFnReturn, Instr.isJumpReturn] at hw ⊢
theorem straight_of_declares {i : Instr} {v : Value} (hd : i.declares = some v) : i.isRet = false := by
  cases i <;> simp [Instr.declares, Instr.isRet, Instr.isFnReturn, Instr.isJumpReturn] at hd ⊢

theorem estep_seg {s s' : St} (st : EStep s s') :
    ∃ seg, s'.root.context = s.root.context ++ seg ∧ ∀ i ∈ seg, i.straight = true := by
  cases st with
  | incReg => exact ⟨[], by simp [St.incReg, St.mapFrames], by simp⟩
  | emit i _ _ hl _ hr ht =>
    exact ⟨[i], rfl, by intro j hj; simp at hj; subst hj; simp [Instr.straight, ht, hl, hr]⟩
  | incEmit i hw _ hl _ ht =>
    exact ⟨[i], rfl, by intro j hj; simp at hj; subst hj; simp [Instr.straight, ht, hl, straight_of_writes hw]⟩
  | addErr k v l o => exact ⟨[], by simp [St.addErr], by simp⟩
  | declare n v i hi _ hl _ _ ht =>
    refine ⟨[i], ?_, by intro j hj; simp at hj; subst hj; simp [Instr.straight, ht, hl, straight_of_declares hi]⟩
    unfold St.push St.registerInner St.mapFrames St.insertValue St.mapCur
    cases s.inner <;> rfl

theorem esteps_seg {s s' : St} (h : ESteps s s') :
    ∃ seg, s'.root.context = s.root.context ++ seg ∧ ∀ i ∈ seg, i.straight = true := by
  induction h with
  | refl => exact ⟨[], by simp, by simp⟩
  | tail _ st ih =>
    obtain ⟨seg1, h1, s1⟩ := ih
    obtain ⟨seg2, h2, s2⟩ := estep_seg st
    exact ⟨seg1 ++ seg2, by rw [h2, h1, List.append_assoc], by
      intro i hi; rcases List.mem_append.mp hi with h | h; exact s1 i h; exact s2 i h⟩

/-! ### Effect instructions are the effect events of the reading -/

def DStmt.isEff : DStmt → Bool
  | .letD _ _ _ | .assign _ _ | .callS _ | .ret _ | .jret _ => true
  | _ => false

def countEff (l : List DStmt) : Nat := (l.filter DStmt.isEff).length

theorem countEff_append (a b : List DStmt) : countEff (a ++ b) = countEff a + countEff b := by
  simp [countEff, List.filter_append]

theorem countEff_step (A : AbsSt) (i : Instr) :
    countEff (abstractStep A i).out = countEff A.out + (if i.isEffect then 1 else 0) := by
  cases i <;> simp [abstractStep, AbsSt.emit, AbsSt.bind, countEff, DStmt.isEff, Instr.isEffect, List.filter_append] <;> rfl

theorem countEff_fold (stack : List Instr) : ∀ (A : AbsSt),
    countEff (stack.foldl abstractStep A).out = countEff A.out + effCount stack := by
  induction stack with
  | nil => intro A; simp [effCount]
  | cons i rest ih =>
    intro A
    simp only [List.foldl_cons]
    rw [ih, countEff_step, effCount_cons, Nat.add_assoc]

theorem eff_of_drel {s : St} {ss : SpecSt} (h : DRel s ss) : effCount s.root.context = countEff ss.out := by
  rw [← h.out]
  unfold St.abs abstractFold
  rw [countEff_fold]
  simp [AbsSt.init, countEff]

/-! ### Call events of the source denotation -/

theorem calls_more (v : ExprValue) (o : Op) (e : Expr) : (Expr.mk v (some (o, e))).calls = v.calls + e.calls := by
  rw [Expr.calls]
theorem calls_last (v : ExprValue) : (Expr.mk v none).calls = v.calls := by rw [Expr.calls]

mutual
theorem ce_specExpr (s : SpecSt) : ∀ e, countEff (specExpr false s e).1 = e.calls
  | .mk v none => by
    rw [specExpr_events, calls_last]
    unfold specRest
    simp only [List.map_nil, List.flatten_nil, List.append_nil]
    exact ce_specVal s v
  | .mk v (some (o, e)) => by
    rw [specExpr_events, countEff_append, ce_specVal s v, calls_more, ce_specRest s o e]
theorem ce_specRest (s : SpecSt) : ∀ o e, countEff ((specRest false s (some (o, e))).map (·.2.1)).flatten = e.calls
  | o, .mk v none => by
    unfold specRest
    simp only [List.map_cons, List.flatten_cons]
    unfold specRest
    simp only [List.map_nil, List.flatten_nil, List.append_nil]
    rw [calls_last]
    exact ce_specVal s v
  | o, .mk v (some (o2, e2)) => by
    unfold specRest
    simp only [List.map_cons, List.flatten_cons]
    rw [countEff_append, ce_specVal s v, ce_specRest s o2 e2, calls_more]
theorem ce_specVal (s : SpecSt) : ∀ v, countEff (specVal false s v).1 = v.calls
  | .var x => by unfold specVal ExprValue.calls; rfl
  | .lit v => by unfold specVal ExprValue.calls; rfl
  | .call f args => by
    unfold specVal ExprValue.calls
    dsimp only
    rw [countEff_append, ce_specArgs s args]
    rfl
  | .field x a => by unfold specVal ExprValue.calls; rfl
  | .sub e => by unfold specVal ExprValue.calls; exact ce_specExpr s e
  | .ext tag ty => by unfold specVal ExprValue.calls; simp [countEff, DStmt.isEff]
theorem ce_specArgs (s : SpecSt) : ∀ as, countEff (specArgs false s as).1 = Expr.callsL as
  | [] => by unfold specArgs Expr.callsL; rfl
  | e :: es => by
    unfold specArgs Expr.callsL
    dsimp only
    rw [countEff_append, ce_specExpr s e, ce_specArgs s es]
end

/-! ### Statement-level event counts of the source denotation -/

theorem cnt_let (g : RGlobals) (b : LetB) (s : SpecSt) :
    countEff (specLet false g b s).out = countEff s.out + (b.value.calls + 1) := by
  unfold specLet
  simp only [SpecSt.declare, SpecSt.emits, SpecSt.emit]
  rw [countEff_append, countEff_append, ce_specExpr]
  rfl

theorem cnt_bind (b : Bind) (s : SpecSt) :
    countEff (specBind false b s).out = countEff s.out + (b.value.calls + 1) := by
  unfold specBind
  simp only [SpecSt.emits, SpecSt.emit]
  rw [countEff_append, countEff_append, ce_specExpr]
  rfl

theorem cnt_callS (c : CallS) (s : SpecSt) :
    countEff (specCallS false c s).out = countEff s.out + (Expr.callsL c.args + 1) := by
  unfold specCallS
  simp only [SpecSt.emits]
  rw [countEff_append, ce_specVal]
  unfold ExprValue.calls
  rfl

theorem cnt_jret (e : Expr) (s : SpecSt) : countEff (specJret false e s).out = countEff s.out + (e.calls + 1) := by
  unfold specJret
  simp only [SpecSt.emits, SpecSt.emit]
  rw [countEff_append, countEff_append, ce_specExpr]
  rfl

theorem cnt_ret (e : Expr) (s : SpecSt) : countEff (specRet false e s).out = countEff s.out + (e.calls + 1) := by
  unfold specRet
  simp only [SpecSt.emits, SpecSt.emit]
  rw [countEff_append, countEff_append, ce_specExpr]
  rfl

theorem ce_specLogic (s : SpecSt) : ∀ lc, countEff (specLogic false s lc).1 = lc.calls
  | .mk c none => by
    unfold specLogic LogicCond.calls
    dsimp only
    rw [countEff_append, ce_specExpr, ce_specExpr]
  | .mk c (some (lg, rc)) => by
    unfold specLogic LogicCond.calls
    dsimp only
    rw [countEff_append, countEff_append, ce_specExpr, ce_specExpr, ce_specLogic s rc]

theorem cnt_ifCond (c : IfCond) (s : SpecSt) : countEff (specIfCond false c s).out = countEff s.out + c.calls := by
  unfold specIfCond IfCond.calls
  cases c with
  | single e =>
    simp only [SpecSt.emits, SpecSt.emit]
    rw [countEff_append, countEff_append, ce_specExpr]
    rfl
  | logic lc =>
    simp only [SpecSt.emits, SpecSt.emit]
    rw [countEff_append, countEff_append, ce_specLogic]
    rfl

/-! ### Continuation-passing layout claims -/

/-- between `s` and `s'` the root stack grew by code that lays out the flow `fl n` in front of
whatever is laid out after it -/
def CPS (K : LoopK) (s s' : St) (fl : Nat → List Flow × Nat) : Prop :=
  ∃ seg, s'.root.context = s.root.context ++ seg ∧
    (fl (effCount s.root.context)).2 = effCount s.root.context + effCount seg ∧
    ∀ rest code e, Lay K (effCount s.root.context + effCount seg) rest code e →
      Lay K (effCount s.root.context) ((fl (effCount s.root.context)).1 ++ rest) (seg ++ code) e

theorem CPS.eff {K : LoopK} {s s' : St} {fl : Nat → List Flow × Nat} (h : CPS K s s' fl) :
    effCount s'.root.context = (fl (effCount s.root.context)).2 := by
  obtain ⟨seg, h1, h2, _⟩ := h
  rw [h1, effCount_append, h2]

theorem CPS.refl (K : LoopK) (s : St) : CPS K s s (fun n => ([], n)) :=
  ⟨[], by simp, by simp [effCount], fun rest code e h => by simpa [effCount] using h⟩

theorem CPS.same {K : LoopK} {s s' : St} (h : s'.root.context = s.root.context) : CPS K s s' (fun n => ([], n)) :=
  ⟨[], by simp [h], by simp [effCount], fun rest code e h => by simpa [effCount] using h⟩

theorem CPS.trans {K : LoopK} {a b c : St} {f1 f2 : Nat → List Flow × Nat} (h1 : CPS K a b f1) (h2 : CPS K b c f2) :
    CPS K a c (fun n => ((f1 n).1 ++ (f2 (f1 n).2).1, (f2 (f1 n).2).2)) := by
  have he := h1.eff
  obtain ⟨seg1, c1, n1, l1⟩ := h1
  obtain ⟨seg2, c2, n2, l2⟩ := h2
  refine ⟨seg1 ++ seg2, by rw [c2, c1, List.append_assoc], ?_, ?_⟩
  · dsimp only
    rw [← he, n2, c1, effCount_append, effCount_append]; omega
  · intro rest code e h
    dsimp only
    rw [List.append_assoc, List.append_assoc]
    apply l1
    rw [← he] 
    have hb : effCount b.root.context = effCount a.root.context + effCount seg1 := by rw [c1, effCount_append]
    rw [← hb]
    apply l2
    rw [hb, Nat.add_assoc, ← effCount_append]
    exact h

/-- a straight segment with `c` effect instructions lays out `c` events -/
theorem cps_straight {K : LoopK} {s s' : St} (h : ESteps s s') (c : Nat)
    (hc : effCount s'.root.context = effCount s.root.context + c) : CPS K s s' (fun n => (evs n c, n + c)) := by
  obtain ⟨seg, h1, h2⟩ := esteps_seg h
  have hseg : effCount seg = c := by rw [h1, effCount_append] at hc; omega
  refine ⟨seg, h1, by rw [hseg], ?_⟩
  intro rest code e hl
  dsimp only
  rw [← hseg]
  exact lay_seg seg _ h2 hl

/-! ### Statements -/

section leaves
variable {g : Globals} {rg : RGlobals}

theorem eff_trans {s s1 : St} {ss : SpecSt} {evs : List DStmt} (hr : DRel s ss) (t : Trans s s1 evs) :
    effCount s1.root.context = effCount s.root.context + countEff evs := by
  rw [eff_of_drel (drel_trans hr t), eff_of_drel hr]
  simp only [SpecSt.emits]
  rw [countEff_append]

theorem cps_let (hg : GlobRel g rg) (hn : GNames g) (K : LoopK) (b : LetB) (s : St) (ss : SpecSt) (hr : DRel s ss)
    (he : (letBinding g b s).errors = s.errors) : CPS K s (letBinding g b s) (lowerLet b) := by
  have hd := den_let hg hn b s ss hr he
  have hc : effCount (letBinding g b s).root.context = effCount s.root.context + (b.value.calls + 1) := by
    rw [eff_of_drel hd, eff_of_drel hr, cnt_let]
  exact cps_straight (esteps_letBinding g b s) _ hc

theorem cps_bind (hg : GlobRel g rg) (hn : GNames g) (K : LoopK) (b : Bind) (s : St) (ss : SpecSt) (hr : DRel s ss)
    (he : (binding g b s).errors = s.errors) : CPS K s (binding g b s) (lowerBind b) := by
  have hd := den_bind hg hn b s ss hr he
  have hc : effCount (binding g b s).root.context = effCount s.root.context + (b.value.calls + 1) := by
    rw [eff_of_drel hd, eff_of_drel hr, cnt_bind]
  exact cps_straight (esteps_binding g b s) _ hc

theorem cps_callS (hg : GlobRel g rg) (hn : GNames g) (K : LoopK) (c : CallS) (s : St) (ss : SpecSt) (hr : DRel s ss)
    (he : (callStmt g c s).errors = s.errors) : CPS K s (callStmt g c s) (lowerCallS c) := by
  have hd := den_callS hg hn c s ss hr he
  have hc : effCount (callStmt g c s).root.context = effCount s.root.context + (Expr.callsL c.args + 1) := by
    rw [eff_of_drel hd, eff_of_drel hr, cnt_callS]
  exact cps_straight (esteps_callStmt g c s) _ hc

/-- a straight segment followed by a return instruction -/
theorem cps_ret_seg {K : LoopK} {s s1 : St} (h : ESteps s s1) (c : Nat)
    (hc : effCount s1.root.context = effCount s.root.context + c) (i : Instr) (hi : i.isRet = true) (s' : St)
    (hs' : s'.root.context = s1.root.context ++ [i]) :
    CPS K s s' (fun n => (evs n c ++ [.ret (n + c)], n + c + 1)) := by
  obtain ⟨seg, h1, h2⟩ := esteps_seg h
  have hseg : effCount seg = c := by rw [h1, effCount_append] at hc; omega
  have hie : i.isEffect = true := by
    cases i <;> simp [Instr.isRet, Instr.isFnReturn, Instr.isJumpReturn, Instr.isEffect] at hi ⊢
  refine ⟨seg ++ [i], by rw [hs', h1, List.append_assoc], ?_, ?_⟩
  · dsimp only
    rw [effCount_append, hseg]; simp [effCount, hie]; omega
  · intro rest code e _
    dsimp only
    rw [List.append_assoc, List.append_assoc, ← hseg]
    exact lay_seg seg _ h2 (Lay.ret K _ _ i _ e hi)

theorem cps_jret (hg : GlobRel g rg) (hn : GNames g) (K : LoopK) (e : Expr) (s : St) (ss : SpecSt) (hr : DRel s ss)
    (he : (nestedReturn g e s).1.errors = s.errors) :
    CPS K s (nestedReturn g e s).1 (lowerRet e) ∧ (nestedReturn g e s).2 = true := by
  unfold nestedReturn at he ⊢
  cases hm : exprM g e s with
  | mk a s1 =>
    rw [hm] at he
    have hrun := fun h => expr_run hg hn e (rg := rg) (s := s) (ss := ss) hr.scope (by rw [hm]; exact h)
    cases a with
    | none =>
      dsimp only at he
      obtain ⟨r, s2, hm2, _⟩ := hrun he
      rw [hm] at hm2; simp at hm2
    | some r =>
      dsimp only at he ⊢
      have he1 : s1.errors = s.errors := he
      obtain ⟨r', s2, hm2, _, _, t1, _⟩ := hrun he1
      rw [hm] at hm2
      injection hm2 with hm2 hm3
      subst hm3
      have hst : ESteps s s1 := by have := em_exprM g e s; rw [hm] at this; exact this
      have hc := eff_trans hr t1
      rw [ce_specExpr] at hc
      exact ⟨cps_ret_seg hst e.calls hc (.jumpFnReturn r) rfl _ rfl, rfl⟩

theorem cps_fnRet (hg : GlobRel g rg) (hn : GNames g) (K : LoopK) (resTy : Ty) (e : Expr) (s : St) (ss : SpecSt)
    (hr : DRel s ss) (he : (fnReturn g resTy e false s).1.errors = s.errors) :
    CPS K s (fnReturn g resTy e false s).1 (lowerRet e) ∧ (fnReturn g resTy e false s).2 = true := by
  -- the evaluation succeeds
  have hx := exprM_ext g e s
  have hsucc : ∃ r s1, exprM g e s = (some r, s1) ∧ Trans s s1 (specExpr false ss e).1 := by
    unfold fnReturn at he
    cases hm : exprM g e s with
    | mk a s1 =>
      rw [hm] at he hx
      dsimp only at he hx
      cases a with
      | none =>
        dsimp only at he
        simp only [Bool.false_eq_true, if_false] at he
        obtain ⟨r, s2, hm2, _⟩ := expr_run hg hn e (rg := rg) (s := s) (ss := ss) hr.scope (by rw [hm]; exact he)
        rw [hm] at hm2; simp at hm2
      | some r =>
        dsimp only at he
        simp only [Bool.false_eq_true, if_false] at he
        have hlen : s1.errors.length ≤ s.errors.length := by
          have := (steps_fnReturnTail g resTy e r s1).errors_ext
          obtain ⟨Δ, hΔ⟩ := this
          rw [hΔ] at he
          have := congrArg List.length he
          simp at this; omega
        have he1 : s1.errors = s.errors := eq_of_ext_len hx hlen
        obtain ⟨r', s2, hm2, _, _, t1, _⟩ := expr_run hg hn e (rg := rg) (s := s) (ss := ss) hr.scope (by rw [hm]; exact he1)
        rw [hm] at hm2
        injection hm2 with hm2 hm3
        subst hm3
        exact ⟨r, s1, rfl, t1⟩
  obtain ⟨r, s1, hm, t1⟩ := hsucc
  have hflag : (fnReturn g resTy e false s).2 = true := by
    unfold fnReturn; rw [hm]
  obtain ⟨s2, hst, hq | ⟨r2, hq⟩⟩ := fnReturn_split g resTy e false s
  · rw [hq] at hflag; cases hflag
  · refine ⟨?_, hflag⟩
    -- the effect count of the expression part
    have hctx : (fnReturn g resTy e false s).1.root.context = s2.root.context ++
        [if s2.cur.manualReturn then Instr.fnReturnWithLabel r2 else Instr.fnReturn r2] := by
      rw [hq]; dsimp only; split <;> rfl
    have hd := den_fnReturn hg hn resTy e false s ss hr he
    have hc2 : effCount s2.root.context = effCount s.root.context + e.calls := by
      have h1 := eff_of_drel hd
      rw [cnt_ret, ← eff_of_drel hr, hctx, effCount_append] at h1
      have : effCount [if s2.cur.manualReturn then Instr.fnReturnWithLabel r2 else Instr.fnReturn r2] = 1 := by
        split <;> rfl
      omega
    exact cps_ret_seg hst e.calls hc2 _ (by split <;> rfl) _ hctx

/-- the condition of an `if`: straight code with the calls of the condition, then the branch -/
theorem cond_shape (hg : GlobRel g rg) (hn : GNames g) (c : IfCond) (lb le ln : Name) (isElse : Bool) (s : St) (ss : SpecSt)
    (hr : DRel s ss) (he : (ifCondCalc g c lb le ln isElse s).errors = s.errors) :
    ∃ s1 br, ESteps s s1 ∧ ifCondCalc g c lb le ln isElse s = s1.push br ∧
      br.targets = [lb, if isElse then le else ln] ∧ br.isRet = false ∧ br.isEffect = false ∧
      effCount s1.root.context = effCount s.root.context + c.calls := by
  unfold ifCondCalc at he ⊢
  cases c with
  | single e =>
    dsimp only at he ⊢
    cases hm : exprM g e s with
    | mk a s1 =>
      rw [hm] at he
      have hrun := fun h => expr_run hg hn e (rg := rg) (s := s) (ss := ss) hr.scope (by rw [hm]; exact h)
      cases a with
      | none =>
        dsimp only at he
        obtain ⟨r, s2, hm2, _⟩ := hrun he
        rw [hm] at hm2; simp at hm2
      | some r =>
        dsimp only at he ⊢
        rw [push_errors] at he
        obtain ⟨r', s2, hm2, _, _, t1, _⟩ := hrun he
        rw [hm] at hm2
        injection hm2 with hm2 hm3
        subst hm3
        have hst : ESteps s s1 := by have := em_exprM g e s; rw [hm] at this; exact this
        have hc := eff_trans hr t1
        rw [ce_specExpr] at hc
        exact ⟨s1, _, hst, rfl, rfl, rfl, rfl, hc⟩
  | logic lc =>
    dsimp only at he ⊢
    cases hq : condExprM g lc s with
    | mk q s1 =>
      rw [hq] at he
      dsimp only at he ⊢
      rw [push_errors] at he
      obtain ⟨t1, _⟩ := den_cond hg hn ss lc s q s1 hq hr.scope he
      have hst : ESteps s s1 := by have := esteps_condExprM g lc s; rw [hq] at this; exact this
      have hc := eff_trans hr t1
      rw [ce_specLogic] at hc
      exact ⟨s1, _, hst, rfl, rfl, rfl, rfl, hc⟩

end leaves

/-! ### What the helpers of the control constructs append to the root stack -/

theorem ctx_push (i : Instr) (s : St) : (s.push i).root.context = s.root.context ++ [i] := rfl

theorem ctx_pushVia (k : Nat) (i : Instr) (s : St) : (s.pushVia k i).root.context = s.root.context ++ [i] := by
  unfold St.pushVia St.push St.mapFrames St.mapCur
  cases s.inner <;> rfl

theorem ctx_leave (s : St) : s.leave.2.root.context = s.root.context := (root_leave_fields s).1

theorem ctx_ifLabels (le : Option Name) (s : St) : (ifLabels le s).2.2.2.root.context = s.root.context := by
  unfold ifLabels
  dsimp only
  cases le <;> rfl

theorem ctx_ifAfterBody (isElse r : Bool) (lElse lEnd : Name) (s : St) :
    (ifAfterBody isElse r lElse lEnd s).2.root.context =
      s.root.context ++ ((if r then [] else [Instr.jumpTo lEnd]) ++ (if isElse then [Instr.setLabel lElse] else [])) := by
  unfold ifAfterBody
  dsimp only
  rw [ctx_leave]
  cases r <;> cases isElse <;> simp [ctx_push]

theorem ctx_ifAfterElse (k : Nat) (r : Bool) (lEnd : Name) (s : St) :
    (ifAfterElse k r lEnd s).root.context = s.root.context ++ (if r then [] else [Instr.jumpTo lEnd]) := by
  unfold ifAfterElse
  dsimp only
  cases r
  · simp only [Bool.false_eq_true, if_false]; rw [ctx_pushVia, ctx_leave]
  · simp only [if_true]; rw [ctx_leave]; simp

theorem ctx_ifEpilogue (k : Nat) (le : Option Name) (lEnd : Name) (s : St) :
    (ifEpilogue k le lEnd s).root.context = s.root.context ++ (if le.isSome then [] else [Instr.setLabel lEnd]) := by
  unfold ifEpilogue
  cases le
  · simp only [Option.isSome_none, Bool.false_eq_true, if_false]; rw [ctx_pushVia]
  · simp

theorem ctx_loopPrologue (s : St) :
    (loopPrologue s).2.2.root.context = s.root.context ++ [Instr.jumpTo (loopPrologue s).1, Instr.setLabel (loopPrologue s).1] := by
  unfold loopPrologue
  dsimp only
  rw [ctx_push, ctx_push]
  simp [St.probeLabel, St.enter, St.mapFrames]

theorem ctx_loopEpilogue (r : Bool) (lb le : Name) (s : St) :
    (loopEpilogue r lb le s).root.context = s.root.context ++ (if r then [] else [Instr.jumpTo lb, Instr.setLabel le]) := by
  unfold loopEpilogue
  dsimp only
  rw [ctx_leave]
  cases r <;> simp [ctx_push]

/-- an error-free `forbidden` means that no terminator has been seen -/
theorem forbidden_flags (rc bc cc : Bool) (s : St) (h : (forbidden rc bc cc s).errors = s.errors) :
    rc = false ∧ bc = false ∧ cc = false := by
  cases rc <;> cases bc <;> cases cc <;> simp [forbidden, St.addErr] at h ⊢

theorem endsRet_append (a b : List Flow) (h : endsRet b = true) : endsRet (a ++ b) = true := by
  induction a with
  | nil => exact h
  | cons x xs ih =>
    cases hb : xs ++ b with
    | nil => rw [hb] at ih; simp [endsRet] at ih
    | cons y ys =>
      show endsRet (x :: (xs ++ b)) = true
      rw [hb]
      rw [hb] at ih
      cases x <;> exact ih

theorem endsRet_lowerRet (e : Expr) (n : Nat) : endsRet (lowerRet e n).1 = true := by
  unfold lowerRet
  apply endsRet_append
  rfl

def KOf (ll : Option (Name × Name)) (b : Bool) : LoopK :=
  match ll with
  | none => none
  | some (lb, le) => some (lb, le, b)

/-! ### Value-style claims (the flow and the next event number at the current event number) -/

def CPSv (K : LoopK) (s s' : St) (p : List Flow × Nat) : Prop :=
  ∃ seg, s'.root.context = s.root.context ++ seg ∧
    p.2 = effCount s.root.context + effCount seg ∧
    ∀ rest code e, Lay K (effCount s.root.context + effCount seg) rest code e →
      Lay K (effCount s.root.context) (p.1 ++ rest) (seg ++ code) e

theorem cpsv_of {K : LoopK} {s s' : St} {fl : Nat → List Flow × Nat} (h : CPS K s s' fl) :
    CPSv K s s' (fl (effCount s.root.context)) := h

theorem CPSv.eff {K : LoopK} {s s' : St} {p : List Flow × Nat} (h : CPSv K s s' p) : effCount s'.root.context = p.2 := by
  obtain ⟨seg, h1, h2, _⟩ := h
  rw [h1, effCount_append, h2]

theorem CPSv.same {K : LoopK} {s s' : St} (h : s'.root.context = s.root.context) :
    CPSv K s s' ([], effCount s.root.context) :=
  ⟨[], by simp [h], by simp [effCount], fun rest code e h => by simpa [effCount] using h⟩

theorem CPSv.trans {K : LoopK} {a b c : St} {p1 p2 : List Flow × Nat} (h1 : CPSv K a b p1) (h2 : CPSv K b c p2) :
    CPSv K a c (p1.1 ++ p2.1, p2.2) := by
  obtain ⟨seg1, c1, n1, l1⟩ := h1
  obtain ⟨seg2, c2, n2, l2⟩ := h2
  have hb : effCount b.root.context = effCount a.root.context + effCount seg1 := by rw [c1, effCount_append]
  refine ⟨seg1 ++ seg2, by rw [c2, c1, List.append_assoc], ?_, ?_⟩
  · dsimp only
    rw [n2, hb, effCount_append]; omega
  · intro rest code e h
    dsimp only
    rw [List.append_assoc, List.append_assoc]
    apply l1
    rw [← hb]
    apply l2
    rw [hb, Nat.add_assoc, ← effCount_append]
    exact h

/-- a list that leaves by a jump to `lEnd`, followed by that jump unless it ended in a return -/
def BodyJ (K : LoopK) (s : St) (res : St × Bool) (p : List Flow × Nat) (lEnd : Name) : Prop :=
  ∃ seg, res.1.root.context = s.root.context ++ seg ∧ p.2 = effCount s.root.context + effCount seg ∧
    Lay K (effCount s.root.context) p.1 (seg ++ (if res.2 then [] else [Instr.jumpTo lEnd])) (.jump lEnd)

theorem CPSv.thenBody {K : LoopK} {a b : St} {res : St × Bool} {p1 p2 : List Flow × Nat} {lEnd : Name}
    (h1 : CPSv K a b p1) (h2 : BodyJ K b res p2 lEnd) : BodyJ K a res (p1.1 ++ p2.1, p2.2) lEnd := by
  obtain ⟨seg1, c1, n1, l1⟩ := h1
  obtain ⟨seg2, c2, n2, l2⟩ := h2
  have hb : effCount b.root.context = effCount a.root.context + effCount seg1 := by rw [c1, effCount_append]
  refine ⟨seg1 ++ seg2, by rw [c2, c1, List.append_assoc], ?_, ?_⟩
  · dsimp only
    rw [n2, hb, effCount_append]; omega
  · dsimp only
    rw [List.append_assoc]
    apply l1
    rw [← hb]
    exact l2

def PassV (K : LoopK) (s s' : St) (p : List Flow × Nat) (l0 : Name) : Prop :=
  ∃ seg, s'.root.context = s.root.context ++ seg ∧ p.2 = effCount s.root.context + effCount seg ∧
    Lay K (effCount s.root.context) p.1 seg (.jump l0)

section control
variable {g : Globals} {rg : RGlobals}

/-- the prologue of an `if`: straight condition code, the branch, the begin label -/
theorem prologue_shape (hg : GlobRel g rg) (hn : GNames g) (cond : IfCond) (dup isElse : Bool)
    (le : Option Name) (s : St) (ss : SpecSt) (hr : DRel s ss)
    (he : (ifPrologue g cond dup isElse le s).2.2.errors = s.errors) :
    ∃ seg br lBegin,
      (ifPrologue g cond dup isElse le s).2.2.root.context = s.root.context ++ (seg ++ [br, Instr.setLabel lBegin]) ∧
      (∀ i ∈ seg, i.straight = true) ∧ effCount seg = cond.calls ∧
      br.targets = [lBegin, if isElse then (ifPrologue g cond dup isElse le s).1 else (ifPrologue g cond dup isElse le s).2.1] ∧
      br.isRet = false ∧ br.isEffect = false ∧
      (∀ l0, le = some l0 → (ifPrologue g cond dup isElse le s).2.1 = l0) := by
  unfold ifPrologue at he ⊢
  dsimp only at he ⊢
  have x0 : ∃ Δ, (if dup then s.addErr .ifElseDuplicated "if-condition".toList 1 0 else s).errors = s.errors ++ Δ := by
    cases dup
    · exact ⟨[], by simp⟩
    · exact ⟨_, rfl⟩
  have hdup : (if dup then s.addErr .ifElseDuplicated "if-condition".toList 1 0 else s).errors = s.errors →
      (if dup then s.addErr .ifElseDuplicated "if-condition".toList 1 0 else s) = s := by
    cases dup
    · intro _; rfl
    · intro h
      have := congrArg List.length h
      simp [St.addErr] at this
  generalize (if dup then s.addErr .ifElseDuplicated "if-condition".toList 1 0 else s) = s0 at he x0 hdup ⊢
  have q1 := quiet_ifLabels le s0
  have f1 := ifLabels_fields le s0
  have c1 := ctx_ifLabels le s0
  have hl0 : ∀ l0, le = some l0 → (ifLabels le s0).2.2.1 = l0 := by
    intro l0 h; subst h; unfold ifLabels; rfl
  generalize ifLabels le s0 = p at he q1 f1 c1 hl0 ⊢
  obtain ⟨lBegin, lElse, lEnd, s1⟩ := p
  dsimp only at he q1 f1 c1 hl0 ⊢
  rw [(push_fields _ _).1] at he
  have x2 := (esteps_ifCondCalc g cond lBegin lElse lEnd isElse s1).errors_ext
  have x1 : ∃ Δ, s1.errors = s.errors ++ Δ := by rw [f1.1]; exact x0
  obtain ⟨e1, e2⟩ := chain2 x1 x2 he
  have hs0 : s0 = s := hdup (by rw [← f1.1]; exact e1)
  subst hs0
  have r1 : DRel s1 ss.push := drel_enter hr q1 f1.2.1
  obtain ⟨s2, br, hst, hcalc, hbr, hnr, hne, hcnt⟩ := cond_shape hg hn cond lBegin lElse lEnd isElse s1 ss.push r1 e2
  obtain ⟨seg, hseg, hstr⟩ := esteps_seg hst
  refine ⟨seg, br, lBegin, ?_, hstr, ?_, hbr, hnr, hne, hl0⟩
  · rw [ctx_push, hcalc, ctx_push, hseg, c1]; simp
  · rw [hseg, effCount_append] at hcnt; omega

/-- layout of a construct that leaves by a jump to the label `l0` it was handed -/
def PassC (K : LoopK) (s s' : St) (fl : Nat → List Flow × Nat) (l0 : Name) : Prop :=
  ∃ seg, s'.root.context = s.root.context ++ seg ∧
    (fl (effCount s.root.context)).2 = effCount s.root.context + effCount seg ∧
    Lay K (effCount s.root.context) (fl (effCount s.root.context)).1 seg (.jump l0)

theorem PassC.eff {K : LoopK} {s s' : St} {fl : Nat → List Flow × Nat} {l0 : Name} (h : PassC K s s' fl l0) :
    effCount s'.root.context = (fl (effCount s.root.context)).2 := by
  obtain ⟨seg, h1, h2, _⟩ := h
  rw [h1, effCount_append, h2]

/-- a statement (continuation-passing) in front of a body that leaves by a jump -/
theorem CPS.thenPass {K : LoopK} {a b c : St} {f1 f2 : Nat → List Flow × Nat} {l0 : Name}
    (h1 : CPS K a b f1) (h2 : PassC K b c f2 l0) :
    PassC K a c (fun n => ((f1 n).1 ++ (f2 (f1 n).2).1, (f2 (f1 n).2).2)) l0 := by
  have he := h1.eff
  obtain ⟨seg1, c1, n1, l1⟩ := h1
  obtain ⟨seg2, c2, n2, l2⟩ := h2
  have hb : effCount b.root.context = effCount a.root.context + effCount seg1 := by rw [c1, effCount_append]
  refine ⟨seg1 ++ seg2, by rw [c2, c1, List.append_assoc], ?_, ?_⟩
  · dsimp only
    rw [← he, n2, hb, effCount_append]; omega
  · dsimp only
    apply l1
    rw [← hb, ← he]
    exact l2

theorem PassC.dead {K : LoopK} {a b c : St} {fl : Nat → List Flow × Nat} {l0 : Name} (d : List Instr)
    (h : PassC K a b fl l0) (hc : c.root.context = b.root.context ++ d) (hd : effCount d = 0) : PassC K a c fl l0 := by
  obtain ⟨seg, c1, n1, l1⟩ := h
  refine ⟨seg ++ d, by rw [hc, c1, List.append_assoc], by rw [effCount_append, hd, n1]; rfl, Lay.dead d l1⟩

end control

/-! ### `loop_statement` -/

theorem lay_loopWrap (k : Name → Name → Bool → Bool → Bool → St → St × Bool) (F : SpecSt → SpecSt)
    (bf : Nat → List Flow × Nat) (ret brk : Bool) (K : LoopK)
    (hx : ∀ lb le rc bc cc s, Steps s (k lb le rc bc cc s).1)
    (hk : ∀ lb le s ss, DRel s ss → (k lb le false false false s).1.errors = s.errors →
      DRel (k lb le false false false s).1 (F ss) ∧ (k lb le false false false s).1.inner.length = s.inner.length)
    (hlay : ∀ lb le b s ss, DRel s ss → (k lb le false false false s).1.errors = s.errors → (brk = true → b = true) →
      CPSv (some (lb, le, b)) s (k lb le false false false s).1 (bf (effCount s.root.context)) ∧
      ((k lb le false false false s).2 = true → endsRet (bf (effCount s.root.context)).1 = true))
    (hret : ∀ lb le s, (k lb le false false false s).2 = true → ret = true)
    (hf3 : (ret && brk) = false)
    (s : St) (ss : SpecSt) (hr : DRel s ss) (he : (loopWrap k s).errors = s.errors) :
    CPSv K s (loopWrap k s) ([Flow.loop (bf (effCount s.root.context)).1], (bf (effCount s.root.context)).2) := by
  unfold loopWrap at he ⊢
  dsimp only at he ⊢
  have q1 := quiet_loopPrologue s
  have f1 := loopPrologue_fields s
  have c1 := ctx_loopPrologue s
  generalize loopPrologue s = p at he q1 f1 c1 ⊢
  obtain ⟨lb, le, s1⟩ := p
  dsimp only at he q1 f1 c1 ⊢
  have x2 := (hx lb le false false false s1).errors_ext
  have h2 := hk lb le s1 ss.push (drel_enter hr q1 f1.2.1)
  have hl := fun b => hlay lb le b s1 ss.push (drel_enter hr q1 f1.2.1)
  have hrt := hret lb le s1
  generalize k lb le false false false s1 = q at he x2 h2 hl hrt ⊢
  obtain ⟨s2, r⟩ := q
  dsimp only at he x2 h2 hl hrt ⊢
  have e2 : s2.errors = s1.errors := by
    have hin : s2.errors.length ≤ s1.errors.length := by
      have := congrArg List.length he
      rw [f1.1]
      obtain ⟨Δ, hΔ⟩ := x2
      by_cases hne : s2.inner ≠ []
      · rw [(loopEpilogue_fields r lb le s2 hne).1] at this; omega
      · have : (loopEpilogue r lb le s2).errors = s2.errors := (quiet_loopEpilogue r lb le s2).errors
        rw [this] at he; rw [he]; omega
    exact eq_of_ext_len x2 hin
  have hn1 : effCount s1.root.context = effCount s.root.context := by
    rw [c1, effCount_append]; simp [effCount, Instr.isEffect]
  -- the flag that is available for `break`
  have hb : brk = true → (!r) = true := by
    intro hbk
    cases r with
    | false => rfl
    | true => rw [hrt rfl, hbk] at hf3; cases hf3
  obtain ⟨⟨bc, cb, nb, lbody⟩, hends⟩ := hl (!r) e2 hb
  rw [hn1] at nb lbody hends
  have hbody : Lay (some (lb, le, !r)) (effCount s.root.context) (bf (effCount s.root.context)).1 bc .fall := by
    have := lbody [] [] .fall (Lay.nil _ _)
    simpa using this
  have ctail := ctx_loopEpilogue r lb le s2
  refine ⟨Instr.jumpTo lb :: Instr.setLabel lb :: (bc ++ (if r then [] else [Instr.jumpTo lb, Instr.setLabel le])), ?_, ?_, ?_⟩
  · rw [ctail, cb, c1]; simp
  · dsimp only
    rw [nb, effCount_cons, effCount_cons, effCount_append]
    cases r <;> simp [effCount, Instr.isEffect]
  · intro rest code e hrest
    dsimp only
    have htail : (if r then [] else [Instr.jumpTo lb, Instr.setLabel le]) = [Instr.jumpTo lb, Instr.setLabel le] ∨
        ((if r then [] else [Instr.jumpTo lb, Instr.setLabel le]) = [] ∧
          endsRet (bf (effCount s.root.context)).1 = true ∧ (!r) = false) := by
      cases r with
      | false => left; rfl
      | true => right; exact ⟨rfl, hends rfl, rfl⟩
    have hcount : effCount (Instr.jumpTo lb :: Instr.setLabel lb :: (bc ++ (if r then [] else [Instr.jumpTo lb, Instr.setLabel le]))) =
        effCount bc := by
      rw [effCount_cons, effCount_cons, effCount_append]
      cases r <;> simp [effCount, Instr.isEffect]
    rw [hcount] at hrest
    have := Lay.loop (K := K) (rest := rest) (c := code) (e := e) lb le (!r) hbody htail hrest
    simpa using this

end SemVerif
