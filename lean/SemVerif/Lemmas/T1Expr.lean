import SemVerif.Lemmas.ExprSteps
import SemVerif.Lemmas.FoldMap
import SemVerif.Lemmas.Frames
import SemVerif.Spec.Preds
/-!
# Lemmas/T1Expr — verdict simulation (family T1), expression level

Analyzer model and reference rule checker walk the same expression from related scopes: either
both succeed with the same type, the analyzer adding no error and the checker no enforced violation,
or both fail and the first error added names the first enforced violation (kind, and identifier
for the kinds that name one).  After a failure nothing is claimed (both sides only append).
-/
namespace SemVerif

def projV (v : Value) : Ty × Bool := (v.ty, v.mutable)

/-- value tables of the live blocks against the scope frames of the rule checker -/
inductive ValsRel : List (List (Name × Value)) → Scope → Prop
  | nil : ValsRel [] []
  | cons {vals : List (Name × Value)} {fr : List (Name × Ty × Bool)} {rest : List (List (Name × Value))} {sc : Scope} :
      (∀ n, (assocGet n vals).map projV = rlookup n fr) → ValsRel rest sc → ValsRel (vals :: rest) (fr :: sc)

def St.vals (s : St) : List (List (Name × Value)) := s.frames.map (·.values)
def ScopeRel (s : St) (sc : Scope) : Prop := ValsRel s.vals sc

theorem valsRel_lookup {vs : List (List (Name × Value))} {sc : Scope} (h : ValsRel vs sc) (n : Name) :
    (vs.findSome? fun vals => assocGet n vals).map projV = sc.lookup n := by
  induction h with
  | nil => rfl
  | @cons vals fr rest sc' hfr _ ih =>
    simp only [List.findSome?_cons, Scope.lookup]
    have := hfr n
    cases hg : assocGet n vals with
    | some v => rw [hg] at this; simp only [Option.map_some] at this; rw [← this]; rfl
    | none => rw [hg] at this; simp only [Option.map_none] at this; rw [← this]; exact ih

theorem scopeRel_lookup {s : St} {sc : Scope} (h : ScopeRel s sc) (n : Name) :
    (s.lookupValue n).map projV = sc.lookup n := by
  have := valsRel_lookup h n
  unfold St.vals at this
  rw [List.findSome?_map] at this
  exact this

/-- the model's view of the global tables against the rule checker's -/
structure GlobRel (g : Globals) (rg : RGlobals) : Prop where
  types : ∀ n, g.types n = rlookup n rg.types
  consts : ∀ n, (g.consts n).map (·.ty) = rlookup n rg.consts
  funcs : ∀ n, (g.funcs n).map (fun f => (f.params, f.ty)) = rlookup n rg.funcs

def keyE (e : Err) : String := errKey e.kind e.value
def keyV (v : Viol) : String := errKey v.kind v.name
def firstEnf (vs : List Viol) : Option Viol := (vs.filter (·.enforced)).head?

theorem firstEnf_append_none {a b : List Viol} (h : firstEnf a = none) : firstEnf (a ++ b) = firstEnf b := by
  unfold firstEnf at *
  rw [List.filter_append]
  have : a.filter (·.enforced) = [] := by
    cases hf : a.filter (·.enforced) with
    | nil => rfl
    | cons x xs => rw [hf] at h; simp at h
  rw [this]; rfl

theorem firstEnf_append_some {a b : List Viol} {v : Viol} (h : firstEnf a = some v) : firstEnf (a ++ b) = some v := by
  unfold firstEnf at *
  rw [List.filter_append]
  cases hf : a.filter (·.enforced) with
  | nil => rw [hf] at h; simp at h
  | cons x xs => rw [hf] at h; simpa using h

theorem firstEnf_single_enf (v : Viol) (h : v.enforced = true) : firstEnf [v] = some v := by
  simp [firstEnf, List.filter, h]

theorem firstEnf_single_unenf (v : Viol) (h : v.enforced = false) : firstEnf [v] = none := by
  simp [firstEnf, List.filter, h]

/-- the analyzer failed after the checker's first enforced violation, with matching first error -/
def Fail (s s' : St) (vs : List Viol) : Prop :=
  ∃ e rest v, s'.errors = s.errors ++ e :: rest ∧ firstEnf vs = some v ∧ keyE e = keyV v

def SameVals (s s' : St) : Prop := s'.vals = s.vals

theorem EStep.errors_ext {s s' : St} (st : EStep s s') : ∃ Δ, s'.errors = s.errors ++ Δ := by
  cases st with
  | incReg => exact ⟨[], by simp [St.incReg, St.mapFrames]⟩
  | emit i _ _ _ _ => exact ⟨[], by simp [St.push, St.mapFrames]⟩
  | incEmit i _ _ _ _ => exact ⟨[], by simp [St.push, St.incReg, St.mapFrames]⟩
  | addErr k v l o => exact ⟨[⟨k, v, l, o⟩], rfl⟩
  | declare n v i _ _ _ _ _ =>
    refine ⟨[], ?_⟩
    unfold St.push St.registerInner St.mapFrames St.insertValue St.mapCur
    cases s.inner <;> simp

theorem ESteps.errors_ext {s s' : St} (h : ESteps s s') : ∃ Δ, s'.errors = s.errors ++ Δ := by
  induction h with
  | refl => exact ⟨[], by simp⟩
  | tail _ st ih =>
    obtain ⟨Δ, hΔ⟩ := ih
    obtain ⟨Δ2, hΔ2⟩ := st.errors_ext
    exact ⟨Δ ++ Δ2, by rw [hΔ2, hΔ]; simp⟩

theorem BSteps.errors_ext {s s' : St} (h : BSteps s s') : ∃ Δ, s'.errors = s.errors ++ Δ := by
  obtain ⟨s1, h1, rfl | ⟨i, rfl, _⟩⟩ := h
  · exact h1.errors_ext
  · exact h1.errors_ext

theorem Fail.mono {s s1 s2 : St} {vs : List Viol} (h : Fail s s1 vs) (hx : ∃ Δ, s2.errors = s1.errors ++ Δ)
    (ws : List Viol) : Fail s s2 (vs ++ ws) := by
  obtain ⟨e, rest, v, he, hv, hk⟩ := h
  obtain ⟨Δ, hΔ⟩ := hx
  exact ⟨e, rest ++ Δ, v, by rw [hΔ, he]; simp, firstEnf_append_some hv, hk⟩

/-- simulation of one expression evaluator against one check result, from scopes related to `sc` -/
def ExprSim (sc : Scope) (m : EvalM) (c : ERes) : Prop :=
  ∀ s, ScopeRel s sc →
    match c.2 with
    | some ty => firstEnf c.1 = none ∧ ∃ r, (m s).1 = some r ∧ r.ty = ty ∧ (m s).2.errors = s.errors ∧ SameVals s (m s).2
    | none => Fail s (m s).2 c.1

theorem vals_push (i : Instr) (s : St) : (s.push i).vals = s.vals := by
  unfold St.vals St.push; rw [frames_mapFrames]; simp [List.map_map, Function.comp_def]
theorem vals_incReg (s : St) : s.incReg.vals = s.vals := by
  unfold St.vals St.incReg; rw [frames_mapFrames]; simp [List.map_map, Function.comp_def]
theorem vals_addErr (k : ErrKind) (v : Name) (l o : Nat) (s : St) : (s.addErr k v l o).vals = s.vals := rfl

theorem scopeRel_of_sameVals {s s' : St} {sc : Scope} (h : ScopeRel s sc) (hv : SameVals s s') : ScopeRel s' sc := by
  unfold ScopeRel; rw [hv]; exact h

theorem sim_evalLit (sc : Scope) (v : PrimVal) : ExprSim sc (evalLit v) (eOk (.prim v.ty)) := by
  intro s _
  exact ⟨rfl, ⟨_, rfl, rfl, rfl, rfl⟩⟩

theorem sim_evalExt (sc : Scope) (tag : Nat) (ty : PrimTy) : ExprSim sc (evalExt tag ty) (eOk (.prim ty)) := by
  intro s _
  refine ⟨rfl, ⟨_, rfl, rfl, rfl, ?_⟩⟩
  show (s.incReg.push _).vals = s.vals
  rw [vals_push, vals_incReg]

theorem keyE_mk (k : ErrKind) (n : Name) (l o : Nat) : keyE ⟨k, n, l, o⟩ = errKey k n := rfl

theorem sim_evalVar {g : Globals} {rg : RGlobals} (hg : GlobRel g rg) (sc : Scope) (x : Name) :
    ExprSim sc (evalVar g x) (checkVar rg sc x) := by
  intro s hs
  have hl := scopeRel_lookup hs x
  unfold evalVar checkVar
  cases hv : s.lookupValue x with
  | some val =>
    rw [hv] at hl
    simp only [Option.map_some, projV] at hl
    rw [← hl]
    dsimp only [eOk]
    refine ⟨rfl, ⟨_, rfl, rfl, rfl, ?_⟩⟩
    show (s.incReg.push _).vals = s.vals
    rw [vals_push, vals_incReg]
  | none =>
    rw [hv] at hl
    simp only [Option.map_none] at hl
    rw [← hl]
    dsimp only
    have hc := hg.consts x
    cases hcx : g.consts x with
    | some c =>
      rw [hcx] at hc
      simp only [Option.map_some] at hc
      rw [← hc]
      dsimp only [eOk]
      refine ⟨rfl, ⟨_, rfl, rfl, rfl, ?_⟩⟩
      show (s.incReg.push _).vals = s.vals
      rw [vals_push, vals_incReg]
    | none =>
      rw [hcx] at hc
      simp only [Option.map_none] at hc
      rw [← hc]
      dsimp only [eFail]
      exact ⟨_, [], _, rfl, firstEnf_single_enf _ rfl, rfl⟩

theorem sim_evalField {g : Globals} {rg : RGlobals} (hg : GlobRel g rg) (sc : Scope) (x a : Name) :
    ExprSim sc (evalField g x a) (checkField rg sc x a) := by
  intro s hs
  have hl := scopeRel_lookup hs x
  unfold evalField checkField
  cases hv : s.lookupValue x with
  | none =>
    rw [hv] at hl
    simp only [Option.map_none] at hl
    rw [← hl]
    exact ⟨_, [], _, rfl, firstEnf_single_enf _ rfl, rfl⟩
  | some val =>
    rw [hv] at hl
    simp only [Option.map_some, projV] at hl
    rw [← hl]
    dsimp only
    cases hty : val.ty with
    | prim p => exact ⟨_, [], _, rfl, firstEnf_single_enf _ rfl, rfl⟩
    | array t n => exact ⟨_, [], _, rfl, firstEnf_single_enf _ rfl, rfl⟩
    | struct sn attrs =>
      dsimp only
      rw [← hg.types sn]
      cases hreg : g.types sn with
      | none => exact ⟨_, [], _, rfl, firstEnf_single_enf _ rfl, rfl⟩
      | some regTy =>
        dsimp only
        by_cases hne : Ty.struct sn attrs = regTy
        · simp only [ne_eq, hne, not_true_eq_false, if_false]
          cases hat : attrs.lookup a with
          | none => exact ⟨_, [], _, rfl, firstEnf_single_enf _ rfl, rfl⟩
          | some p =>
            obtain ⟨idx, aty⟩ := p
            dsimp only [eOk]
            refine ⟨rfl, ⟨_, rfl, rfl, rfl, ?_⟩⟩
            show (((s.incReg.push _).incReg)).vals = s.vals
            rw [vals_incReg, vals_push, vals_incReg]
        · simp only [ne_eq, hne, not_false_eq_true, if_true]
          exact ⟨_, [], _, rfl, firstEnf_single_enf _ rfl, rfl⟩

theorem EM.errors_ext {m : EvalM} (h : EM m) (s : St) : ∃ Δ, (m s).2.errors = s.errors ++ Δ := (h s).errors_ext

theorem sim_pair {sc : Scope} {l r : EvalM} {cl cr : ERes} (o : Op) (hl : ExprSim sc l cl) (hr : ExprSim sc r cr)
    (ml : EM l) (mr : EM r) : ExprSim sc (evalPair l o r) (checkPair cl cr) := by
  intro s hs
  have h1 := hl s hs
  obtain ⟨vl, tlo⟩ := cl
  obtain ⟨vr, tro⟩ := cr
  have hall := (em_evalPair l r o ml mr)
  cases tlo with
  | none =>
    -- the left operand failed: whatever happens next only appends errors
    simp only [checkPair]
    dsimp only at h1
    have hx : ∃ Δ, (evalPair l o r s).2.errors = (l s).2.errors ++ Δ := by
      unfold evalPair
      cases hls : l s with
      | mk a s1 =>
        cases a with
        | none => exact ⟨[], by simp⟩
        | some lv =>
          dsimp only
          obtain ⟨Δ, hΔ⟩ := mr.errors_ext s1
          cases hrs : r s1 with
          | mk b s2 =>
            rw [hrs] at hΔ
            cases b with
            | none => exact ⟨Δ, hΔ⟩
            | some rv =>
              dsimp only
              have hΔ' : s2.errors = s1.errors ++ Δ := hΔ
              split
              · exact ⟨Δ ++ [⟨.wrongExpressionType, lv.ty.show, 1, 0⟩], by simp [St.addErr, hΔ']⟩
              · exact ⟨Δ, by simp [St.push, St.incReg, St.mapFrames, hΔ']⟩
    have := Fail.mono h1 hx []
    simpa using this
  | some tl =>
    dsimp only at h1
    obtain ⟨hvl, lv, hlv, hlty, hle, hlvals⟩ := h1
    have hs1 : ScopeRel (l s).2 sc := scopeRel_of_sameVals hs hlvals
    have h2 := hr (l s).2 hs1
    cases tro with
    | none =>
      simp only [checkPair]
      dsimp only at h2
      have hx : ∃ Δ, (evalPair l o r s).2.errors = (r (l s).2).2.errors ++ Δ := by
        unfold evalPair
        cases hls : l s with
        | mk a s1 =>
          rw [hls] at hlv
          simp only at hlv
          subst hlv
          dsimp only
          cases hrs : r s1 with
          | mk b s2 =>
            cases b with
            | none => exact ⟨[], by simp⟩
            | some rv =>
              dsimp only
              split
              · exact ⟨[⟨.wrongExpressionType, lv.ty.show, 1, 0⟩], by simp [St.addErr]⟩
              · exact ⟨[], by simp [St.push, St.incReg, St.mapFrames]⟩
      obtain ⟨e, rest, v, he, hv, hk⟩ := h2
      obtain ⟨Δ, hΔ⟩ := hx
      exact ⟨e, rest ++ Δ, v, by rw [hΔ, he, hle]; simp, by rw [firstEnf_append_none hvl]; exact hv, hk⟩
    | some tr =>
      dsimp only at h2
      obtain ⟨hvr, rv, hrv, hrty, hre, hrvals⟩ := h2
      simp only [checkPair]
      unfold evalPair
      cases hls : l s with
      | mk a s1 =>
        rw [hls] at hlv hle hlvals hrv hre hrvals
        simp only at hlv hle hlvals hrv hre hrvals
        subst hlv
        dsimp only
        cases hrs : r s1 with
        | mk b s2 =>
          rw [hrs] at hrv hre hrvals
          simp only at hrv hre hrvals
          subst hrv
          dsimp only
          by_cases hne : lv.ty = rv.ty
          · have hne' : tl = tr := by rw [← hlty, ← hrty]; exact hne
            simp only [ne_eq, hne, hne', not_true_eq_false, if_false]
            refine ⟨by rw [firstEnf_append_none hvl]; exact hvr, ⟨_, rfl, hrty, ?_, ?_⟩⟩
            · simp [St.push, St.incReg, St.mapFrames, hre, hle]
            · show (s2.incReg.push _).vals = s.vals
              rw [vals_push, vals_incReg, hrvals, hlvals]
          · have hne' : ¬ tl = tr := by rw [← hlty, ← hrty]; exact hne
            simp only [ne_eq, hne, hne', not_false_eq_true, if_true]
            refine ⟨⟨.wrongExpressionType, lv.ty.show, 1, 0⟩, [], ⟨"B6", .wrongExpressionType, tl.show, true⟩, by simp [St.addErr, hre, hle], ?_, ?_⟩
            · rw [List.append_assoc, firstEnf_append_none hvl, firstEnf_append_none hvr]
              exact firstEnf_single_enf _ rfl
            · simp [keyE, keyV, hlty]

theorem sim_tree {sc : Scope} {γ : Type} (fm : γ → EvalM) (fc : γ → ERes) (t : W γ)
    (h : ∀ a ∈ t.atoms, ExprSim sc (fm a) (fc a) ∧ EM (fm a)) :
    ExprSim sc (runW (t.map fm)) (checkTree (t.map fc)) ∧ EM (runW (t.map fm)) := by
  induction t with
  | atom a => simpa [W.map, runW, checkTree] using h a (by simp [W.atoms])
  | pair l o r ihl ihr =>
    have hl := ihl (fun a ha => h a (by simp [W.atoms, ha]))
    have hr := ihr (fun a ha => h a (by simp [W.atoms, ha]))
    simp only [W.map, runW, checkTree]
    exact ⟨sim_pair o hl.1 hr.1 hl.2 hr.2, em_evalPair _ _ _ hl.2 hr.2⟩

/-! ### Calls -/

theorem evalArgs_errors_ext : ∀ (ms : List EvalM), (∀ m ∈ ms, EM m) → ∀ (tys : List Ty) (s : St),
    ∃ Δ, (evalArgs ms tys s).2.errors = s.errors ++ Δ
  | [], _, _, s => ⟨[], by simp [evalArgs]⟩
  | m :: ms, h, tys, s => by
    unfold evalArgs
    obtain ⟨Δ1, h1⟩ := (h m (by simp)).errors_ext s
    cases hm : m s with
    | mk a s1 =>
      rw [hm] at h1
      have h1' : s1.errors = s.errors ++ Δ1 := h1
      cases a with
      | none => exact ⟨Δ1, h1'⟩
      | some r =>
        dsimp only
        cases tys with
        | nil => exact ⟨Δ1, by unfold St.setPanic; cases s1.panic <;> exact h1'⟩
        | cons t ts =>
          dsimp only
          have ih := evalArgs_errors_ext ms (fun m hm => h m (by simp [hm])) ts
          split
          · obtain ⟨Δ2, h2⟩ := ih (s1.addErr .functionParameterTypeWrong r.ty.show 1 0)
            exact ⟨Δ1 ++ [⟨.functionParameterTypeWrong, r.ty.show, 1, 0⟩] ++ Δ2, by rw [h2]; simp [St.addErr, h1']⟩
          · obtain ⟨Δ2, h2⟩ := ih s1
            cases hr : evalArgs ms ts s1 with
            | mk b s2 =>
              rw [hr] at h2
              have h2' : s2.errors = s1.errors ++ Δ2 := h2
              cases b <;> exact ⟨Δ1 ++ Δ2, by simp [h2', h1']⟩

/-- arguments against parameter types -/
theorem sim_args {sc : Scope} : ∀ (l : List (EvalM × ERes)), (∀ x ∈ l, ExprSim sc x.1 x.2 ∧ EM x.1) →
    ∀ (tys : List Ty) (s : St), l.length ≤ tys.length → ScopeRel s sc →
    (firstEnf (checkArgs (l.map (·.2)) tys) = none ∧
      ∃ rs, (evalArgs (l.map (·.1)) tys s).1 = some rs ∧ (evalArgs (l.map (·.1)) tys s).2.errors = s.errors ∧
        SameVals s (evalArgs (l.map (·.1)) tys s).2) ∨
    Fail s (evalArgs (l.map (·.1)) tys s).2 (checkArgs (l.map (·.2)) tys)
  | [], _, tys, s, _, _ => by
    left
    cases tys with
    | nil => exact ⟨rfl, [], rfl, rfl, rfl⟩
    | cons t ts => exact ⟨firstEnf_single_unenf _ rfl, [], rfl, rfl, rfl⟩
  | (m, c) :: rest, h, tys, s, hlen, hs => by
    cases tys with
    | nil => simp at hlen
    | cons t ts =>
      have hlen' : rest.length ≤ ts.length := by simpa using hlen
      obtain ⟨hsim, hem⟩ := h (m, c) (by simp)
      have hrest : ∀ x ∈ rest, ExprSim sc x.1 x.2 ∧ EM x.1 := fun x hx => h x (by simp [hx])
      have hemrest : ∀ m' ∈ rest.map (·.1), EM m' := by
        intro m' hm'; rw [List.mem_map] at hm'; obtain ⟨x, hx, rfl⟩ := hm'; exact (hrest x hx).2
      have h1 := hsim s hs
      obtain ⟨va, tao⟩ := c
      simp only [List.map_cons]
      cases tao with
      | none =>
        right
        dsimp only at h1
        simp only [checkArgs]
        have hx : ∃ Δ, (evalArgs (m :: rest.map (·.1)) (t :: ts) s).2.errors = (m s).2.errors ++ Δ := by
          unfold evalArgs
          cases hm : m s with
          | mk a s1 =>
            cases a with
            | none => exact ⟨[], by simp⟩
            | some r =>
              dsimp only
              split
              · obtain ⟨Δ2, h2⟩ := evalArgs_errors_ext (rest.map (·.1)) hemrest ts (s1.addErr .functionParameterTypeWrong r.ty.show 1 0)
                exact ⟨[⟨.functionParameterTypeWrong, r.ty.show, 1, 0⟩] ++ Δ2, by rw [h2]; simp [St.addErr]⟩
              · obtain ⟨Δ2, h2⟩ := evalArgs_errors_ext (rest.map (·.1)) hemrest ts s1
                cases hr : evalArgs (rest.map (·.1)) ts s1 with
                | mk b s2 =>
                  rw [hr] at h2
                  cases b <;> exact ⟨Δ2, h2⟩
        have := Fail.mono h1 hx []
        simpa using this
      | some ta =>
        dsimp only at h1
        obtain ⟨hva, r, hr, hrty, hre, hrvals⟩ := h1
        have hs1 : ScopeRel (m s).2 sc := scopeRel_of_sameVals hs hrvals
        simp only [checkArgs]
        unfold evalArgs
        cases hm : m s with
        | mk a s1 =>
          rw [hm] at hr hre hrvals hs1
          simp only at hr hre hrvals hs1
          subst hr
          dsimp only
          by_cases hty : r.ty = t
          · have hty' : ta = t := by rw [← hrty]; exact hty
            simp only [ne_eq, hty, hty', not_true_eq_false, if_false]
            rcases sim_args rest hrest ts s1 hlen' hs1 with ⟨hv2, rs, hrs, hre2, hvals2⟩ | hf
            · left
              refine ⟨by rw [firstEnf_append_none hva]; exact hv2, ?_⟩
              cases hev : evalArgs (rest.map (·.1)) ts s1 with
              | mk b s2 =>
                rw [hev] at hrs hre2 hvals2
                simp only at hrs hre2 hvals2
                subst hrs
                exact ⟨r :: rs, rfl, by simp [hre2, hre], by unfold SameVals at *; rw [hvals2, hrvals]⟩
            · right
              obtain ⟨e, rs, v, he, hv, hk⟩ := hf
              cases hev : evalArgs (rest.map (·.1)) ts s1 with
              | mk b s2 =>
                rw [hev] at he
                simp only at he
                cases b <;> exact ⟨e, rs, v, by simp [he, hre], by rw [firstEnf_append_none hva]; exact hv, hk⟩
          · have hty' : ¬ ta = t := by rw [← hrty]; exact hty
            simp only [ne_eq, hty, hty', not_false_eq_true, if_true]
            right
            obtain ⟨Δ2, h2⟩ := evalArgs_errors_ext (rest.map (·.1)) hemrest ts (s1.addErr .functionParameterTypeWrong r.ty.show 1 0)
            refine ⟨⟨.functionParameterTypeWrong, r.ty.show, 1, 0⟩, Δ2, ⟨"B5-type", .functionParameterTypeWrong, ta.show, true⟩, ?_, ?_, rfl⟩
            · rw [h2]; simp [St.addErr, hre]
            · rw [firstEnf_append_none hva]; exact firstEnf_single_enf _ rfl

theorem sim_functionCall {g : Globals} {rg : RGlobals} (hg : GlobRel g rg) {sc : Scope} (f : Name)
    (l : List (EvalM × ERes)) (h : ∀ x ∈ l, ExprSim sc x.1 x.2 ∧ EM x.1) (s : St) (hs : ScopeRel s sc) :
    match (checkCall rg f (l.map (·.2))).2 with
    | some ty => firstEnf (checkCall rg f (l.map (·.2))).1 = none ∧ (functionCall g f (l.map (·.1)) s).1 = some ty ∧
        (functionCall g f (l.map (·.1)) s).2.errors = s.errors ∧ SameVals s (functionCall g f (l.map (·.1)) s).2
    | none => Fail s (functionCall g f (l.map (·.1)) s).2 (checkCall rg f (l.map (·.2))).1 := by
  have hf := hg.funcs f
  unfold checkCall functionCall
  cases hgf : g.funcs f with
  | none =>
    rw [hgf] at hf
    simp only [Option.map_none] at hf
    rw [← hf]
    exact ⟨_, [], _, rfl, firstEnf_single_enf _ rfl, rfl⟩
  | some fd =>
    rw [hgf] at hf
    simp only [Option.map_some] at hf
    rw [← hf]
    dsimp only
    simp only [List.length_map]
    by_cases hlen : fd.params.length < l.length
    · simp only [hlen, if_true]
      exact ⟨_, [], _, rfl, firstEnf_single_enf _ rfl, rfl⟩
    · simp only [hlen, if_false]
      rcases sim_args l h fd.params s (by omega) hs with ⟨hv, rs, hrs, hre, hvals⟩ | hfail
      · have hany : (checkArgs (l.map (·.2)) fd.params).any (·.enforced) = false := by
          unfold firstEnf at hv
          cases hfl : (checkArgs (l.map (·.2)) fd.params).filter (·.enforced) with
          | nil =>
            rw [Bool.eq_false_iff]
            intro hcon
            rw [List.any_eq_true] at hcon
            obtain ⟨x, hx, hxe⟩ := hcon
            have : x ∈ (checkArgs (l.map (·.2)) fd.params).filter (·.enforced) := List.mem_filter.mpr ⟨hx, hxe⟩
            rw [hfl] at this; cases this
          | cons x xs => rw [hfl] at hv; simp at hv
        simp only [hany, Bool.false_eq_true, if_false]
        cases hev : evalArgs (l.map (·.1)) fd.params s with
        | mk b s2 =>
          rw [hev] at hrs hre hvals
          simp only at hrs hre hvals
          subst hrs
          dsimp only
          refine ⟨hv, rfl, by simp [St.push, St.incReg, St.mapFrames, hre], ?_⟩
          show (s2.incReg.push _).vals = s.vals
          rw [vals_push, vals_incReg, hvals]
      · have hany : (checkArgs (l.map (·.2)) fd.params).any (·.enforced) = true := by
          obtain ⟨_, _, v, _, hv, _⟩ := hfail
          unfold firstEnf at hv
          rw [List.any_eq_true]
          have : v ∈ (checkArgs (l.map (·.2)) fd.params).filter (·.enforced) := by
            cases hfl : (checkArgs (l.map (·.2)) fd.params).filter (·.enforced) with
            | nil => rw [hfl] at hv; simp at hv
            | cons x xs => rw [hfl] at hv; simp at hv; subst hv; simp
          exact ⟨v, (List.mem_filter.mp this).1, (List.mem_filter.mp this).2⟩
        simp only [hany, if_true]
        obtain ⟨e, rs, v, he, hv, hk⟩ := hfail
        cases hev : evalArgs (l.map (·.1)) fd.params s with
        | mk b s2 =>
          rw [hev] at he
          simp only at he
          cases b with
          | none => exact ⟨e, rs, v, he, hv, hk⟩
          | some ps => exact ⟨e, rs, v, by simp [St.push, St.incReg, St.mapFrames, he], hv, hk⟩

theorem sim_evalCall {g : Globals} {rg : RGlobals} (hg : GlobRel g rg) {sc : Scope} (f : Name)
    (l : List (EvalM × ERes)) (h : ∀ x ∈ l, ExprSim sc x.1 x.2 ∧ EM x.1) :
    ExprSim sc (evalCall g f (l.map (·.1))) (checkCall rg f (l.map (·.2))) := by
  intro s hs
  have h1 := sim_functionCall hg f l h s hs
  unfold evalCall
  cases hc : (checkCall rg f (l.map (·.2))).2 with
  | some ty =>
    rw [hc] at h1
    dsimp only at h1 ⊢
    obtain ⟨hv, hres, hre, hvals⟩ := h1
    cases hfc : functionCall g f (l.map (·.1)) s with
    | mk a s1 =>
      rw [hfc] at hres hre hvals
      simp only at hres hre hvals
      subst hres
      dsimp only
      exact ⟨hv, _, rfl, rfl, by simp [St.incReg, St.mapFrames, hre], by unfold SameVals; rw [vals_incReg]; exact hvals⟩
  | none =>
    rw [hc] at h1
    dsimp only at h1 ⊢
    obtain ⟨e, rs, v, he, hv, hk⟩ := h1
    cases hfc : functionCall g f (l.map (·.1)) s with
    | mk a s1 =>
      rw [hfc] at he
      simp only at he
      cases a with
      | none => exact ⟨e, rs, v, he, hv, hk⟩
      | some ty => exact ⟨e, rs, v, by simp [St.incReg, St.mapFrames, he], hv, hk⟩

/-! ### Whole expressions -/

/-- the operands after the first one, with their operators -/
def chainTail : Option (Op × Expr) → List (Op × ExprValue)
  | none => []
  | some (o, .mk v rest) => (o, v) :: chainTail rest

theorem restM_eq (g : Globals) : ∀ r, restM g r = (chainTail r).map fun x => (x.1, valM g x.2)
  | none => by simp [restM, chainTail]
  | some (o, .mk v rest) => by simp [restM, chainTail, restM_eq g rest]

theorem checkRest_eq (rg : RGlobals) (sc : Scope) : ∀ r,
    checkRest rg sc r = (chainTail r).map fun x => (x.1, checkVal rg sc x.2)
  | none => by simp [checkRest, chainTail]
  | some (o, .mk v rest) => by simp [checkRest, chainTail, checkRest_eq rg sc rest]

theorem argsM_eq (g : Globals) : ∀ as, argsM g as = as.map (exprM g)
  | [] => by simp [argsM]
  | e :: es => by simp [argsM, argsM_eq g es]

theorem checkExprs_eq (rg : RGlobals) (sc : Scope) : ∀ as, checkExprs rg sc as = as.map (checkExpr rg sc)
  | [] => by simp [checkExprs]
  | e :: es => by simp [checkExprs, checkExprs_eq rg sc es]

mutual
theorem sim_exprM {g : Globals} {rg : RGlobals} (hg : GlobRel g rg) (sc : Scope) :
    ∀ e, ExprSim sc (exprM g e) (checkExpr rg sc e)
  | .mk v rest => by
    unfold exprM checkExpr precTree
    rw [restM_eq, checkRest_eq, foldChain_map Generated.prio (valM g), foldChain_map Generated.prio (checkVal rg sc)]
    refine (sim_tree (valM g) (checkVal rg sc) _ ?_).1
    intro a ha
    rcases foldChain_atoms_subset Generated.prio v (chainTail rest) a ha with h | h
    · rw [h]; exact ⟨sim_valM hg sc v, em_valM g v⟩
    · simp at h
      obtain ⟨o, h⟩ := h
      exact ⟨sim_chain hg sc rest o a h, em_valM g a⟩
theorem sim_chain {g : Globals} {rg : RGlobals} (hg : GlobRel g rg) (sc : Scope) :
    ∀ r, ∀ o a, (o, a) ∈ chainTail r → ExprSim sc (valM g a) (checkVal rg sc a)
  | none => by intro o a h; simp [chainTail] at h
  | some (op, .mk v rest) => by
    intro o a h
    unfold chainTail at h
    simp at h
    rcases h with ⟨_, ha⟩ | h
    · rw [ha]; exact sim_valM hg sc v
    · exact sim_chain hg sc rest o a h
theorem sim_valM {g : Globals} {rg : RGlobals} (hg : GlobRel g rg) (sc : Scope) :
    ∀ v, ExprSim sc (valM g v) (checkVal rg sc v)
  | .var n => by unfold valM checkVal; exact sim_evalVar hg sc n
  | .lit v => by unfold valM checkVal; exact sim_evalLit sc v
  | .call f args => by
    unfold valM checkVal
    rw [argsM_eq, checkExprs_eq]
    have := sim_evalCall hg f (args.map fun e => (exprM g e, checkExpr rg sc e)) (by
      intro x hx
      rw [List.mem_map] at hx
      obtain ⟨e, he, rfl⟩ := hx
      exact ⟨sim_args' hg sc args e he, em_exprM g e⟩)
    simpa [List.map_map, Function.comp_def] using this
  | .field v a => by unfold valM checkVal; exact sim_evalField hg sc v a
  | .sub e => by unfold valM checkVal; exact sim_exprM hg sc e
  | .ext tag ty => by unfold valM checkVal; exact sim_evalExt sc tag ty
theorem sim_args' {g : Globals} {rg : RGlobals} (hg : GlobRel g rg) (sc : Scope) :
    ∀ (as : List Expr), ∀ e ∈ as, ExprSim sc (exprM g e) (checkExpr rg sc e)
  | [] => by intro e h; cases h
  | a :: as => by
    intro e h
    simp at h
    rcases h with rfl | h
    · exact sim_exprM hg sc e
    · exact sim_args' hg sc as e h
end

end SemVerif
