import SemVerif.Lemmas.T1Ctl
/-!
# Lemmas/T1Fn — verdict simulation (family T1), function bodies
-/
namespace SemVerif

variable {g : Globals} {rg : RGlobals}

theorem checkTypeExists_spec (hg : GlobRel g rg) (t : Ty) (n : Name) (s : St) :
    (typeRegistered rg t = true ∧ (checkTypeExists g t n s).2 = s) ∨
    (typeRegistered rg t = false ∧ (checkTypeExists g t n s).2 = s.addErr .typeNotFound n 1 0) := by
  unfold checkTypeExists typeRegistered
  cases t with
  | prim p => exact Or.inl ⟨rfl, rfl⟩
  | struct sn a =>
    dsimp only
    rw [← hg.types]
    cases g.types (Ty.struct sn a).show with
    | none => exact Or.inr ⟨rfl, rfl⟩
    | some _ => exact Or.inl ⟨rfl, rfl⟩
  | array u k =>
    dsimp only
    rw [← hg.types]
    cases g.types (Ty.array u k).show with
    | none => exact Or.inr ⟨rfl, rfl⟩
    | some _ => exact Or.inl ⟨rfl, rfl⟩

theorem sim_optErrP (p : Prop) [Decidable p] (s : St) (rs : RS) (k : ErrKind) (n : Name) (l o : Nat) (r : String)
    (hs : ScopeRel s rs.scope) :
    StmtSim s (if p then s.addErr k n l o else s) rs (if p then rs.viol r k n else rs)
      (ScopeRel (if p then s.addErr k n l o else s) (if p then rs.viol r k n else rs).scope) := by
  by_cases hp : p
  · simp only [hp, if_true]; exact sim_err s rs k n l o r _
  · simp only [hp, if_false]; exact StmtSim.refl s rs hs

theorem optErrP_ext (p : Prop) [Decidable p] (s : St) (k : ErrKind) (n : Name) (l o : Nat) :
    ∃ Δ, (if p then s.addErr k n l o else s).errors = s.errors ++ Δ := by
  by_cases hp : p
  · simp only [hp, if_true]; exact ⟨[⟨k, n, l, o⟩], rfl⟩
  · simp only [hp, if_false]; exact ⟨[], by simp⟩

theorem optViolP_ext (p : Prop) [Decidable p] (rs : RS) (k : ErrKind) (n : Name) (r : String) :
    RExt rs (if p then rs.viol r k n else rs) := by
  by_cases hp : p
  · simp only [hp, if_true]; exact rext_viol _ _ _ _
  · simp only [hp, if_false]; exact RExt.refl _

theorem optErrP_len (p : Prop) [Decidable p] (s : St) (k : ErrKind) (n : Name) (l o : Nat) :
    (if p then s.addErr k n l o else s).inner.length = s.inner.length := by
  by_cases hp : p <;> simp [hp, St.addErr]

/-- the successful part of a function-level return -/
theorem sim_fnReturnTail (hg : GlobRel g rg) (resTy : Ty) (e : Expr) (r : ExprResult) (s : St) (rs : RS)
    (hs : ScopeRel s rs.scope) :
    StmtSim s (fnReturnTail g resTy e r s) rs (checkFnRetTail rg resTy e r.ty rs)
      (Post s (fnReturnTail g resTy e r s) (checkFnRetTail rg resTy e r.ty rs)) := by
  unfold fnReturnTail checkFnRetTail
  dsimp only
  -- type existence
  have h1 : StmtSim s (checkTypeExists g r.ty e.show s).2 rs
      (if !typeRegistered rg r.ty then rs.viol "B11-type" .typeNotFound e.show else rs)
      (ScopeRel (checkTypeExists g r.ty e.show s).2 (if !typeRegistered rg r.ty then rs.viol "B11-type" .typeNotFound e.show else rs).scope ∧
        (checkTypeExists g r.ty e.show s).2.inner.length = s.inner.length) := by
    rcases checkTypeExists_spec hg r.ty e.show s with ⟨ht, hs'⟩ | ⟨ht, hs'⟩
    · rw [hs', ht]; exact StmtSim.refl s rs ⟨hs, rfl⟩
    · rw [hs', ht]; exact sim_err s rs _ _ 1 0 _ _
  generalize (checkTypeExists g r.ty e.show s).2 = s1 at h1
  generalize (if !typeRegistered rg r.ty then rs.viol "B11-type" .typeNotFound e.show else rs) = r1 at h1
  -- return type
  have hsym : (resTy ≠ r.ty) = (r.ty ≠ resTy) := propext ⟨fun h => fun h' => h h'.symm, fun h => fun h' => h h'.symm⟩
  have h2 : StmtSim s (if resTy ≠ r.ty then s1.addErr .wrongReturnType e.show 1 0 else s1) rs
      (if r.ty ≠ resTy then r1.viol "B11" .wrongReturnType e.show else r1)
      (ScopeRel (if resTy ≠ r.ty then s1.addErr .wrongReturnType e.show 1 0 else s1)
          (if r.ty ≠ resTy then r1.viol "B11" .wrongReturnType e.show else r1).scope ∧
        (if resTy ≠ r.ty then s1.addErr .wrongReturnType e.show 1 0 else s1).inner.length = s.inner.length) := by
    refine StmtSim.seq h1 (fun hp => ?_) (optErrP_ext _ _ _ _ _ _) (optViolP_ext _ _ _ _ _)
    by_cases hne : resTy = r.ty
    · have e1 : ¬ (resTy ≠ r.ty) := fun h => h hne
      have e2 : ¬ (r.ty ≠ resTy) := fun h => h hne.symm
      rw [if_neg e1, if_neg e2]
      exact StmtSim.refl s1 r1 hp
    · have e2 : r.ty ≠ resTy := fun h => hne h.symm
      rw [if_pos hne, if_pos e2]
      exact sim_err s1 r1 _ _ 1 0 _ _
  generalize (if resTy ≠ r.ty then s1.addErr .wrongReturnType e.show 1 0 else s1) = s2 at h2
  generalize (if r.ty ≠ resTy then r1.viol "B11" .wrongReturnType e.show else r1) = r2 at h2
  split
  · exact h2.thenSilent rfl rfl fun ⟨hsc, hl⟩ => ⟨by unfold ScopeRel; rw [vals_push]; exact hsc, by rw [(push_fields _ _).2, hl]⟩
  · exact h2.thenSilent rfl rfl fun ⟨hsc, hl⟩ => ⟨by unfold ScopeRel; rw [vals_push]; exact hsc, by rw [(push_fields _ _).2, hl]⟩

theorem rext_checkFnRetTail (resTy : Ty) (e : Expr) (t : Ty) (rs : RS) : RExt rs (checkFnRetTail rg resTy e t rs) := by
  unfold checkFnRetTail
  dsimp only
  exact (optViol_ext _ _ _ _ _).trans (optViolP_ext _ _ _ _ _)

theorem rext_checkFnRet (resTy : Ty) (e : Expr) (rc : Bool) (rs : RS) : RExt rs (checkFnRet rg resTy e rc rs).1 := by
  unfold checkFnRet
  cases checkExpr rg rs.scope e with
  | mk vs t =>
    dsimp only
    have h1 : RExt rs (if rc then (rs.add vs).viol "B12-twice" .returnAlreadyCalled e.show else rs.add vs) :=
      (rext_add vs rs).trans (optViol_ext _ _ _ _ _)
    generalize (if rc then (rs.add vs).viol "B12-twice" .returnAlreadyCalled e.show else rs.add vs) = r1 at h1
    cases t with
    | none => exact h1
    | some t => exact h1.trans (rext_checkFnRetTail resTy e t r1)

theorem sim_fnReturn (hg : GlobRel g rg) (resTy : Ty) (e : Expr) (rc : Bool) (s : St) (rs : RS) (hs : ScopeRel s rs.scope) :
    StmtSim s (fnReturn g resTy e rc s).1 rs (checkFnRet rg resTy e rc rs).1
      (Post s (fnReturn g resTy e rc s).1 (checkFnRet rg resTy e rc rs).1 ∧
        (fnReturn g resTy e rc s).2 = (checkFnRet rg resTy e rc rs).2) := by
  have h1 := sim_exprM hg rs.scope e s hs
  unfold fnReturn checkFnRet
  cases hc : checkExpr rg rs.scope e with
  | mk vs to =>
    rw [hc] at h1
    cases hm : exprM g e s with
    | mk a s1 =>
      rw [hm] at h1
      dsimp only
      cases to with
      | none =>
        -- the expression failed: everything afterwards only appends
        dsimp only at h1 ⊢
        have hx : ∃ Δ, (match a with
            | none => (if rc then s1.addErr .returnAlreadyCalled e.show 1 0 else s1, rc)
            | some r => (fnReturnTail g resTy e r (if rc then s1.addErr .returnAlreadyCalled e.show 1 0 else s1), true)).1.errors =
              s1.errors ++ Δ := by
          obtain ⟨Δ2, hΔ2⟩ := optErr_ext rc s1 .returnAlreadyCalled e.show 1 0
          cases a with
          | none => exact ⟨Δ2, hΔ2⟩
          | some r =>
            obtain ⟨Δ3, hΔ3⟩ := (steps_fnReturnTail g resTy e r (if rc then s1.addErr .returnAlreadyCalled e.show 1 0 else s1)).errors_ext
            exact ⟨Δ2 ++ Δ3, by rw [hΔ3, hΔ2]; simp⟩
        have hf := Fail.mono h1 hx (if rc then [⟨"B12-twice", .returnAlreadyCalled, e.show, true⟩] else [])
        refine ⟨vs ++ (if rc then [⟨"B12-twice", .returnAlreadyCalled, e.show, true⟩] else []), ?_, Or.inr hf⟩
        cases rc
        · rw [if_neg (by decide), if_neg (by decide)]; simp [RS.add]
        · rw [if_pos rfl, if_pos rfl]; simp [RS.add, RS.viol]
      | some t =>
        dsimp only at h1 ⊢
        obtain ⟨hvs, r, hr, hrty, hre, hvals⟩ := h1
        subst hr
        subst hrty
        dsimp only
        have hs1 : ScopeRel s1 (rs.add vs).scope := scopeRel_of_sameVals hs hvals
        -- expression: silent; then the "already called" check; then the tail
        have hA : StmtSim s s1 rs (rs.add vs) (ScopeRel s1 (rs.add vs).scope) :=
          ⟨vs, rfl, Or.inl ⟨hvs, hre, hs1⟩⟩
        have hB : StmtSim s (if rc then s1.addErr .returnAlreadyCalled e.show 1 0 else s1) rs
            (if rc then (rs.add vs).viol "B12-twice" .returnAlreadyCalled e.show else rs.add vs)
            (ScopeRel (if rc then s1.addErr .returnAlreadyCalled e.show 1 0 else s1)
              (if rc then (rs.add vs).viol "B12-twice" .returnAlreadyCalled e.show else rs.add vs).scope) :=
          StmtSim.seq hA (fun hp => sim_optErr rc s1 (rs.add vs) _ _ 1 0 "B12-twice" hp) (optErr_ext _ _ _ _ _ _) (optViol_ext _ _ _ _ _)
        have hlenB : (if rc then s1.addErr .returnAlreadyCalled e.show 1 0 else s1).inner.length = s.inner.length := by
          have : s1.inner.length = s.inner.length := by
            have := (em_exprM g e s).inner_len; rw [hm] at this; exact this
          cases rc <;> simpa [St.addErr] using this
        generalize (if rc then s1.addErr .returnAlreadyCalled e.show 1 0 else s1) = s2 at hB hlenB
        generalize (if rc then (rs.add vs).viol "B12-twice" .returnAlreadyCalled e.show else rs.add vs) = r2 at hB
        refine StmtSim.seq hB (fun hp => (sim_fnReturnTail hg resTy e r s2 r2 hp).weaken fun hq => ⟨⟨hq.1, by rw [hq.2, hlenB]⟩, rfl⟩)
          (steps_fnReturnTail g resTy e r s2).errors_ext (rext_checkFnRetTail resTy e r.ty r2)


theorem forbidden_fn (rc : Bool) (s : St) :
    forbidden rc false false s = if rc then s.addErr .forbiddenCodeAfterReturnDeprecated wildcard 1 1 else s := by
  unfold forbidden; cases rc <;> rfl

theorem rext_checkBody (resTy : Ty) : ∀ (l : List BodyStmt) (rc : Bool) (rs : RS), RExt rs (checkBody rg resTy l rc rs).1
  | [], _, rs => by unfold checkBody; exact RExt.refl _
  | st :: tl, rc, rs => by
    unfold checkBody
    dsimp only
    have h0 : RExt rs (if rc then rs.viol "B12-after" .forbiddenCodeAfterReturnDeprecated wildcard else rs) := optViol_ext _ _ _ _ _
    generalize (if rc then rs.viol "B12-after" .forbiddenCodeAfterReturnDeprecated wildcard else rs) = r0 at h0
    cases st with
    | letB b => exact (h0.trans (rext_checkLet rg b r0)).trans (rext_checkBody resTy tl rc _)
    | bind b => exact (h0.trans (rext_checkBind rg b r0)).trans (rext_checkBody resTy tl rc _)
    | call c => exact (h0.trans (rext_checkCallS rg c r0)).trans (rext_checkBody resTy tl rc _)
    | ifS i => exact (h0.trans (rext_checkIf rg resTy i r0)).trans (rext_checkBody resTy tl rc _)
    | loop b =>
      exact (h0.trans (((rext_push r0).trans (rext_checkLoopBody rg resTy b false false false _)).trans (rext_pop _))).trans
        (rext_checkBody resTy tl rc _)
    | expr e =>
      dsimp only
      have h1 := h0.trans (rext_checkFnRet (rg := rg) resTy e rc r0)
      generalize checkFnRet rg resTy e rc r0 = q at h1
      obtain ⟨r1, r⟩ := q
      exact h1.trans (rext_checkBody resTy tl r r1)
    | ret e =>
      dsimp only
      have h1 := h0.trans (rext_checkFnRet (rg := rg) resTy e rc r0)
      generalize checkFnRet rg resTy e rc r0 = q at h1
      obtain ⟨r1, r⟩ := q
      exact h1.trans (rext_checkBody resTy tl r r1)

theorem sim_bodyStmts (hg : GlobRel g rg) (resTy : Ty) : ∀ (l : List BodyStmt) (rc : Bool) (s : St) (rs : RS),
    BodyStmt.loopOKL l = true → ScopeRel s rs.scope →
    StmtSim s (bodyStmts g resTy l rc s).1 rs (checkBody rg resTy l rc rs).1
      (Post s (bodyStmts g resTy l rc s).1 (checkBody rg resTy l rc rs).1 ∧
        (bodyStmts g resTy l rc s).2 = (checkBody rg resTy l rc rs).2)
  | [], rc, s, rs, _, hs => by unfold bodyStmts checkBody; exact StmtSim.refl s rs ⟨⟨hs, rfl⟩, rfl⟩
  | st :: tl, rc, s, rs, hok, hs => by
    unfold bodyStmts checkBody
    dsimp only
    rw [forbidden_fn]
    have h0 := sim_optErr rc s rs .forbiddenCodeAfterReturnDeprecated wildcard 1 1 "B12-after" hs
    have l0 : (if rc then s.addErr .forbiddenCodeAfterReturnDeprecated wildcard 1 1 else s).inner.length = s.inner.length := by
      cases rc <;> rfl
    generalize (if rc then s.addErr .forbiddenCodeAfterReturnDeprecated wildcard 1 1 else s) = s0 at h0 l0
    generalize (if rc then rs.viol "B12-after" .forbiddenCodeAfterReturnDeprecated wildcard else rs) = r0 at h0
    -- a statement that keeps the return flag, followed by the rest of the body
    have step : ∀ (s1 : St) (r1 : RS), (ScopeRel s0 r0.scope → StmtSim s0 s1 r0 r1 (Post s0 s1 r1)) →
        (∃ Δ, s1.errors = s0.errors ++ Δ) → RExt r0 r1 → BodyStmt.loopOKL tl = true →
        StmtSim s (bodyStmts g resTy tl rc s1).1 rs (checkBody rg resTy tl rc r1).1
          (Post s (bodyStmts g resTy tl rc s1).1 (checkBody rg resTy tl rc r1).1 ∧
            (bodyStmts g resTy tl rc s1).2 = (checkBody rg resTy tl rc r1).2) := by
      intro s1 r1 h1 a1 c1 hok'
      have h01 : StmtSim s s1 rs r1 (Post s0 s1 r1) := StmtSim.seq h0 h1 a1 c1
      exact StmtSim.seq h01 (fun hp => (sim_bodyStmts hg resTy tl rc s1 r1 hok' hp.1).weaken
          fun hq => ⟨⟨hq.1.1, by rw [hq.1.2, hp.2, l0]⟩, hq.2⟩)
        (ext_of_steps (steps_bodyStmts g resTy tl rc s1)) (rext_checkBody resTy tl rc r1)
    cases st with
    | letB b =>
      unfold BodyStmt.loopOKL at hok
      exact step _ _ (sim_let' hg b s0 r0) (ext_of_esteps (esteps_letBinding g b s0)) (rext_checkLet rg b r0) hok
    | bind b =>
      unfold BodyStmt.loopOKL at hok
      exact step _ _ (sim_bind' hg b s0 r0) (ext_of_esteps (esteps_binding g b s0)) (rext_checkBind rg b r0) hok
    | call c =>
      unfold BodyStmt.loopOKL at hok
      exact step _ _ (sim_callS' hg c s0 r0) (ext_of_esteps (esteps_callStmt g c s0)) (rext_checkCallS rg c r0) hok
    | ifS i =>
      unfold BodyStmt.loopOKL at hok
      simp only [Bool.and_eq_true] at hok
      exact step _ _ (sim_ifCondition hg resTy i none none s0 r0 hok.1) (ext_of_steps (steps_ifCondition g i none none s0))
        (rext_checkIf rg resTy i r0) hok.2
    | loop b =>
      unfold BodyStmt.loopOKL at hok
      simp only [Bool.and_eq_true] at hok
      exact step _ _
        (sim_loopWrap (loopBody g b) (checkLoopBody rg resTy b false false false)
          (fun lb le s rs hs => sim_loopBody hg resTy b lb le false false false s rs hok.1 hs)
          (fun lb le s => ext_of_steps (steps_loopBody g b lb le false false false s))
          (fun rs => rext_checkLoopBody rg resTy b false false false rs) s0 r0)
        (ext_of_steps (steps_loopWrap _ (steps_loopBody g b) s0))
        (((rext_push r0).trans (rext_checkLoopBody rg resTy b false false false _)).trans (rext_pop _)) hok.2
    | expr e =>
      unfold BodyStmt.loopOKL at hok
      dsimp only
      have h1 := fun hs0 => sim_fnReturn hg resTy e rc s0 r0 hs0
      have a1 := ext_of_steps (steps_fnReturn g resTy e rc s0)
      have c1 := rext_checkFnRet (rg := rg) resTy e rc r0
      generalize fnReturn g resTy e rc s0 = q at h1 a1
      obtain ⟨s1, r⟩ := q
      generalize checkFnRet rg resTy e rc r0 = qc at h1 c1
      obtain ⟨r1, rcq⟩ := qc
      dsimp only at h1 a1 c1 ⊢
      have h01 : StmtSim s s1 rs r1 (Post s0 s1 r1 ∧ r = rcq) := StmtSim.seq h0 h1 a1 c1
      refine StmtSim.seq h01 (fun hp => ?_) (ext_of_steps (steps_bodyStmts g resTy tl r s1)) (rext_checkBody resTy tl rcq r1)
      obtain ⟨hp1, hr⟩ := hp
      subst hr
      exact (sim_bodyStmts hg resTy tl r s1 r1 hok hp1.1).weaken fun hq => ⟨⟨hq.1.1, by rw [hq.1.2, hp1.2, l0]⟩, hq.2⟩
    | ret e =>
      unfold BodyStmt.loopOKL at hok
      dsimp only
      have h1 := fun hs0 => sim_fnReturn hg resTy e rc s0 r0 hs0
      have a1 := ext_of_steps (steps_fnReturn g resTy e rc s0)
      have c1 := rext_checkFnRet (rg := rg) resTy e rc r0
      generalize fnReturn g resTy e rc s0 = q at h1 a1
      obtain ⟨s1, r⟩ := q
      generalize checkFnRet rg resTy e rc r0 = qc at h1 c1
      obtain ⟨r1, rcq⟩ := qc
      dsimp only at h1 a1 c1 ⊢
      have h01 : StmtSim s s1 rs r1 (Post s0 s1 r1 ∧ r = rcq) := StmtSim.seq h0 h1 a1 c1
      refine StmtSim.seq h01 (fun hp => ?_) (ext_of_steps (steps_bodyStmts g resTy tl r s1)) (rext_checkBody resTy tl rcq r1)
      obtain ⟨hp1, hr⟩ := hp
      subst hr
      exact (sim_bodyStmts hg resTy tl r s1 r1 hok hp1.1).weaken fun hq => ⟨⟨hq.1.1, by rw [hq.1.2, hp1.2, l0]⟩, hq.2⟩

theorem rext_checkParams : ∀ (ps : List (Name × ATy)) (rs : RS), RExt rs (checkParams ps rs)
  | [], rs => by unfold checkParams; exact RExt.refl _
  | (n, t) :: rest, rs => by
    unfold checkParams
    cases rs.scope.lookup n with
    | some _ => exact rext_viol _ _ _ _
    | none => exact (rext_scope rs _).trans (rext_checkParams rest _)

theorem initParams_ext : ∀ (ps : List (Name × ATy)) (s : St), ∃ Δ, (initParams ps s).errors = s.errors ++ Δ
  | [], s => ⟨[], by simp [initParams]⟩
  | (n, t) :: rest, s => by
    unfold initParams
    cases s.lookupValue n with
    | some _ => exact ⟨[_], rfl⟩
    | none =>
      dsimp only
      obtain ⟨Δ, hΔ⟩ := initParams_ext rest (((s.insertValue n ⟨n, t.toTy, false, false, false⟩).registerInner n).push
        (.fnArg ⟨n, t.toTy, false, false, false⟩ ⟨n, t.toTy⟩))
      refine ⟨Δ, ?_⟩
      rw [hΔ]
      congr 1
      unfold St.push St.registerInner St.mapFrames St.insertValue St.mapCur
      cases s.inner <;> rfl

theorem sim_initParams : ∀ (ps : List (Name × ATy)) (s : St) (rs : RS), ScopeRel s rs.scope →
    StmtSim s (initParams ps s) rs (checkParams ps rs) (ScopeRel (initParams ps s) (checkParams ps rs).scope)
  | [], s, rs, hs => by unfold initParams checkParams; exact StmtSim.refl s rs hs
  | (n, t) :: rest, s, rs, hs => by
    unfold initParams checkParams
    have hl := scopeRel_lookup hs n
    cases hv : s.lookupValue n with
    | some v =>
      rw [hv] at hl
      simp only [Option.map_some] at hl
      rw [← hl]
      exact sim_err s rs _ _ 1 1 _ _
    | none =>
      rw [hv] at hl
      simp only [Option.map_none] at hl
      rw [← hl]
      dsimp only
      have hstep : StmtSim s (((s.insertValue n ⟨n, t.toTy, false, false, false⟩).registerInner n).push
            (.fnArg ⟨n, t.toTy, false, false, false⟩ ⟨n, t.toTy⟩)) rs { rs with scope := rs.scope.declare n t.toTy false }
          (ScopeRel (((s.insertValue n ⟨n, t.toTy, false, false, false⟩).registerInner n).push
            (.fnArg ⟨n, t.toTy, false, false, false⟩ ⟨n, t.toTy⟩)) (rs.scope.declare n t.toTy false)) := by
        refine StmtSim.silent ?_ rfl ?_
        · unfold St.push St.registerInner St.mapFrames St.insertValue St.mapCur
          cases s.inner <;> rfl
        · unfold ScopeRel
          rw [vals_push, vals_registerInner]
          obtain ⟨x, xs, hx, hins⟩ := vals_insertValue n ⟨n, t.toTy, false, false, false⟩ s
          rw [hins]
          have hrel : ValsRel (x :: xs) rs.scope := by rw [← hx]; exact hs
          exact valsRel_declare hrel n ⟨n, t.toTy, false, false, false⟩
      exact StmtSim.seq hstep (fun hp => sim_initParams rest _ _ hp)
        (initParams_ext rest _)
        (rext_checkParams rest _)

end SemVerif
