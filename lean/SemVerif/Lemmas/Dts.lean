import SemVerif.Lemmas.Frames
import SemVerif.Spec.Stack
/-!
# Lemmas/Dts — the declaration trees of the live blocks (C18, value tables)

`St.dts s`: per live block (innermost first) its value table, the value records its stack declares
and the same for its finished children.  Nothing but declarations, entering and leaving a block
changes it.
-/
namespace SemVerif

def St.dts (s : St) : List DT := s.frames.map Block.dt

theorem dt_def (b : Block) : b.dt = .node b.values (declValues b.context) (Block.dtL b.children) := by
  cases b; unfold Block.dt; rfl

theorem dtL_eq_map : ∀ (l : List Block), Block.dtL l = l.map Block.dt
  | [] => by unfold Block.dtL; rfl
  | b :: bs => by unfold Block.dtL; rw [dtL_eq_map bs]; rfl

theorem dtL_append (a b : List Block) : Block.dtL (a ++ b) = Block.dtL a ++ Block.dtL b := by
  simp [dtL_eq_map]

theorem declValues_append (a : List Instr) (i : Instr) :
    declValues (a ++ [i]) = declValues a ++ (match i.declares with | some v => [v] | none => []) := by
  unfold declValues
  rw [List.filterMap_append]
  cases h : i.declares <;> simp [List.filterMap, h]

theorem dts_mapFrames (f : Block → Block) (s : St) (hf : ∀ b, (f b).dt = b.dt) : (s.mapFrames f).dts = s.dts := by
  unfold St.dts; rw [frames_mapFrames]; simp [List.map_map, Function.comp_def, hf]

theorem dts_push_plain (i : Instr) (s : St) (h : i.declares = none) : (s.push i).dts = s.dts := by
  unfold St.push
  apply dts_mapFrames
  intro b
  rw [dt_def, dt_def]
  simp only [declValues_append, h, List.append_nil]

def DT.addDecl (v : Value) : DT → DT
  | .node vals d c => .node vals (d ++ [v]) c

theorem dts_push_decl (i : Instr) (v : Value) (s : St) (h : i.declares = some v) :
    (s.push i).dts = s.dts.map (DT.addDecl v) := by
  unfold St.push St.dts
  rw [frames_mapFrames, List.map_map, List.map_map]
  apply List.map_congr_left
  intro b _
  simp only [Function.comp]
  rw [dt_def, dt_def]
  simp only [declValues_append, h, DT.addDecl]

theorem dts_incReg (s : St) : s.incReg.dts = s.dts := by
  unfold St.incReg; exact dts_mapFrames _ s (fun b => by rw [dt_def, dt_def])
theorem dts_addErr (k : ErrKind) (v : Name) (l o : Nat) (s : St) : (s.addErr k v l o).dts = s.dts := rfl
theorem dts_probeLabel (stem : Name) (s : St) : (s.probeLabel stem).2.dts = s.dts := by
  unfold St.probeLabel; exact dts_mapFrames _ s (fun b => by rw [dt_def, dt_def])
theorem dts_setReturn (s : St) : s.setReturn.dts = s.dts := by
  unfold St.setReturn; exact dts_mapFrames _ s (fun b => by rw [dt_def, dt_def])
theorem dts_registerInner (n : Name) (s : St) : (s.registerInner n).dts = s.dts := by
  unfold St.registerInner; exact dts_mapFrames _ s (fun b => by rw [dt_def, dt_def])

def DT.setValues (f : List (Name × Value) → List (Name × Value)) : DT → DT
  | .node vals d c => .node (f vals) d c

def mapHead {α : Type} (f : α → α) : List α → List α
  | [] => []
  | x :: xs => f x :: xs

theorem dts_insertValue (n : Name) (v : Value) (s : St) :
    (s.insertValue n v).dts = mapHead (DT.setValues (assocInsert n v)) s.dts := by
  unfold St.insertValue St.dts
  rw [frames_mapCur]
  cases hf : s.frames with
  | nil => exact absurd hf (frames_ne_nil s)
  | cons b rest =>
    simp only [List.map_cons, mapHead]
    rw [dt_def, dt_def b]
    rfl

theorem dts_enter (s : St) : s.enter.dts = .node [] [] [] :: s.dts := by
  unfold St.dts
  rw [frames_enter]
  simp only [List.map_cons]
  rw [dt_def]
  simp [Block.child, declValues, Block.dtL]

/-- the innermost block becomes the last child of the next one -/
def closeDts : List DT → List DT
  | t0 :: .node v d c :: r => .node v d (c ++ [t0]) :: r
  | k => k

theorem dts_leave (s : St) (h : s.inner ≠ []) : s.leave.2.dts = closeDts s.dts := by
  unfold St.leave St.dts St.frames
  cases hi : s.inner with
  | nil => exact absurd hi h
  | cons b rest =>
    cases rest with
    | nil =>
      simp only [List.nil_append, List.map_cons, List.map_nil, List.cons_append, closeDts]
      rw [dt_def, dt_def s.root]
      simp [dtL_append, Block.dtL]
    | cons p rest' =>
      simp only [List.cons_append, List.map_cons, closeDts]
      rw [dt_def, dt_def p]
      simp [dtL_append, Block.dtL]

theorem dtL_modifyNth (f : Block → Block) (hf : ∀ c, (f c).dt = c.dt) : ∀ (k : Nat) (cs : List Block),
    Block.dtL (modifyNth f k cs) = Block.dtL cs
  | _, [] => by unfold modifyNth; rfl
  | 0, c :: cs => by simp [modifyNth, Block.dtL, hf]
  | k + 1, c :: cs => by simp [modifyNth, Block.dtL, dtL_modifyNth f hf k cs]

theorem dts_pushVia (k : Nat) (i : Instr) (s : St) (h : i.declares = none) : (s.pushVia k i).dts = s.dts := by
  unfold St.pushVia
  rw [dts_push_plain _ _ h]
  unfold St.dts
  rw [frames_mapCur]
  cases s.frames with
  | nil => rfl
  | cons b0 rest =>
    simp only [List.map_cons]
    rw [dt_def, dt_def b0]
    rw [dtL_modifyNth _ (fun c => by rw [dt_def, dt_def]; simp only [declValues_append, h, List.append_nil])]

theorem dts_of_frames {s s' : St} (h : s'.frames = s.frames) : s'.dts = s.dts := by unfold St.dts; rw [h]

end SemVerif
