import SemVerif.Lemmas.T1Fn
import SemVerif.Lemmas.FlowAna
import SemVerif.Lemmas.PanicConv
import SemVerif.Spec.ExtVisit
import SemVerif.Lemmas.VisitLock
/-!
# Lemmas/VisitSim — the analyzer model evaluates exactly the leaves `Spec/ExtVisit.lean` lists

For *every* program (rejected ones included): analyzer model and visit specification walk the same
function from related scopes; the `ExtendedExpression` instructions of the root stack grow by the
leaves the specification lists, an evaluator succeeds exactly when the specification says the
operand analysed (with the same type), and value tables stay related to the specification's own
lexical scope — whatever errors are reported on the way.
-/
namespace SemVerif

def St.ext (s : St) : List Nat := s.root.context.filterMap Instr.extTag

theorem ext_of_ctx {s s' : St} (h : s'.root.context = s.root.context) : s'.ext = s.ext := by
  unfold St.ext; rw [h]

theorem ext_of_ctx_app {s s' : St} {l : List Instr} (h : s'.root.context = s.root.context ++ l) :
    s'.ext = s.ext ++ l.filterMap Instr.extTag := by
  unfold St.ext; rw [h, List.filterMap_append]

theorem ext_push (i : Instr) (s : St) : (s.push i).ext = s.ext ++ i.extTag.toList := by
  rw [ext_of_ctx_app (ctx_push i s)]
  cases h : i.extTag <;> simp [h]

theorem ext_push_none (i : Instr) (s : St) (h : i.extTag = none) : (s.push i).ext = s.ext := by
  rw [ext_push, h]; simp

theorem ext_incReg (s : St) : s.incReg.ext = s.ext := rfl
theorem ext_addErr (k : ErrKind) (v : Name) (l o : Nat) (s : St) : (s.addErr k v l o).ext = s.ext := rfl

/-- an evaluator against the visit result of its operand -/
def VSim (sc : Scope) (m : EvalM) (v : VRes) : Prop :=
  ∀ s, ScopeRel s sc → SameVals s (m s).2 ∧ (m s).2.ext = s.ext ++ v.1 ∧
    (match v.2 with
     | some ty => ∃ r, (m s).1 = some r ∧ r.ty = ty
     | none => (m s).1 = none)

theorem vsim_lit (sc : Scope) (v : PrimVal) : VSim sc (evalLit v) ([], some (.prim v.ty)) := by
  intro s _
  exact ⟨rfl, by simp [evalLit], ⟨_, rfl, rfl⟩⟩

theorem vsim_ext (sc : Scope) (tag : Nat) (ty : PrimTy) : VSim sc (evalExt tag ty) ([tag], some (.prim ty)) := by
  intro s _
  refine ⟨?_, ?_, ⟨_, rfl, rfl⟩⟩
  · show (s.incReg.push _).vals = s.vals
    rw [vals_push, vals_incReg]
  · show (s.incReg.push _).ext = s.ext ++ [tag]
    rw [ext_push, ext_incReg]; rfl

theorem vsim_var {g : Globals} {rg : RGlobals} (hg : GlobRel g rg) (sc : Scope) (x : Name) :
    VSim sc (evalVar g x) ([], (checkVar rg sc x).2) := by
  intro s hs
  have hl := scopeRel_lookup hs x
  unfold evalVar checkVar
  cases hv : s.lookupValue x with
  | some val =>
    rw [hv] at hl
    simp only [Option.map_some, projV] at hl
    rw [← hl]
    dsimp only [eOk]
    refine ⟨?_, ?_, ⟨_, rfl, rfl⟩⟩
    · show (s.incReg.push _).vals = s.vals
      rw [vals_push, vals_incReg]
    · show (s.incReg.push _).ext = s.ext ++ []
      rw [ext_push_none _ _ rfl, ext_incReg]; simp
  | none =>
    rw [hv] at hl
    simp only [Option.map_none] at hl
    rw [← hl]
    dsimp only
    have hc := hg.consts x
    cases hcx : g.consts x with
    | some c =>
      rw [hcx] at hc
      simp only [Option.map_some] at hc
      rw [← hc]
      dsimp only [eOk]
      refine ⟨?_, ?_, ⟨_, rfl, rfl⟩⟩
      · show (s.incReg.push _).vals = s.vals
        rw [vals_push, vals_incReg]
      · show (s.incReg.push _).ext = s.ext ++ []
        rw [ext_push_none _ _ rfl, ext_incReg]; simp
    | none =>
      rw [hcx] at hc
      simp only [Option.map_none] at hc
      rw [← hc]
      dsimp only [eFail]
      exact ⟨by show (s.incReg.addErr _ _ _ _).vals = s.vals; rw [vals_addErr, vals_incReg], by simp [ext_addErr, ext_incReg], by first | rfl | trivial⟩

theorem vsim_field {g : Globals} {rg : RGlobals} (hg : GlobRel g rg) (sc : Scope) (x a : Name) :
    VSim sc (evalField g x a) ([], (checkField rg sc x a).2) := by
  intro s hs
  have hl := scopeRel_lookup hs x
  unfold evalField checkField
  cases hv : s.lookupValue x with
  | none =>
    rw [hv] at hl
    simp only [Option.map_none] at hl
    rw [← hl]
    exact ⟨rfl, by simp [ext_addErr], by first | rfl | trivial⟩
  | some val =>
    rw [hv] at hl
    simp only [Option.map_some, projV] at hl
    rw [← hl]
    dsimp only
    cases hty : val.ty with
    | prim p => exact ⟨rfl, by simp [ext_addErr], by first | rfl | trivial⟩
    | array t n => exact ⟨rfl, by simp [ext_addErr], by first | rfl | trivial⟩
    | struct sn attrs =>
      dsimp only
      rw [← hg.types sn]
      cases hreg : g.types sn with
      | none => exact ⟨rfl, by simp [ext_addErr], by first | rfl | trivial⟩
      | some regTy =>
        dsimp only
        by_cases hne : Ty.struct sn attrs = regTy
        · simp only [ne_eq, hne, not_true_eq_false, if_false]
          cases hat : attrs.lookup a with
          | none => exact ⟨rfl, by simp [ext_addErr], by first | rfl | trivial⟩
          | some p =>
            obtain ⟨idx, aty⟩ := p
            dsimp only [eOk]
            refine ⟨?_, ?_, ⟨_, rfl, rfl⟩⟩
            · show (((s.incReg.push _).incReg)).vals = s.vals
              rw [vals_incReg, vals_push, vals_incReg]
            · show (((s.incReg.push _).incReg)).ext = s.ext ++ []
              rw [ext_incReg, ext_push_none _ _ rfl, ext_incReg]; simp
        · simp only [ne_eq, hne, not_false_eq_true, if_true]
          exact ⟨rfl, by simp [ext_addErr], by first | rfl | trivial⟩

theorem vsim_pair {sc : Scope} {l r : EvalM} {vl vr : VRes} (o : Op) (hl : VSim sc l vl) (hr : VSim sc r vr) :
    VSim sc (evalPair l o r) (visPair vl vr) := by
  intro s hs
  obtain ⟨h1v, h1e, h1r⟩ := hl s hs
  obtain ⟨a, tlo⟩ := vl
  obtain ⟨b, tro⟩ := vr
  unfold evalPair visPair
  cases hm : l s with
  | mk lres s1 =>
    rw [hm] at h1v h1e h1r
    dsimp only at h1v h1e h1r ⊢
    cases tlo with
    | none =>
      dsimp only at h1r ⊢
      subst h1r
      exact ⟨h1v, h1e, rfl⟩
    | some tl =>
      dsimp only at h1r ⊢
      obtain ⟨lv, rfl, hlty⟩ := h1r
      dsimp only
      obtain ⟨h2v, h2e, h2r⟩ := hr s1 (scopeRel_of_sameVals hs h1v)
      cases hm2 : r s1 with
      | mk rres s2 =>
        rw [hm2] at h2v h2e h2r
        dsimp only at h2v h2e h2r ⊢
        have hv2 : SameVals s s2 := by unfold SameVals at *; rw [h2v, h1v]
        have he2 : s2.ext = s.ext ++ (a ++ b) := by rw [h2e, h1e, List.append_assoc]
        cases tro with
        | none =>
          dsimp only at h2r ⊢
          subst h2r
          exact ⟨hv2, he2, rfl⟩
        | some tr =>
          dsimp only at h2r ⊢
          obtain ⟨rv, rfl, hrty⟩ := h2r
          dsimp only
          by_cases hne : lv.ty = rv.ty
          · have : tl = tr := by rw [← hlty, ← hrty, hne]
            simp only [ne_eq, hne, this, not_true_eq_false, if_false]
            refine ⟨?_, ?_, ⟨_, rfl, hrty⟩⟩
            · show (s2.incReg.push _).vals = s.vals
              rw [vals_push, vals_incReg]; exact hv2
            · show (s2.incReg.push _).ext = _
              rw [ext_push_none _ _ rfl, ext_incReg]; exact he2
          · have : tl ≠ tr := by rw [← hlty, ← hrty]; exact hne
            simp only [ne_eq, hne, this, not_false_eq_true, if_true]
            exact ⟨by show (s2.addErr _ _ _ _).vals = s.vals; exact hv2, by rw [ext_addErr]; exact he2, by first | rfl | trivial⟩

theorem vsim_tree {sc : Scope} {γ : Type} (fm : γ → EvalM) (fv : γ → VRes) (t : W γ)
    (h : ∀ a ∈ t.atoms, VSim sc (fm a) (fv a)) : VSim sc (runW (t.map fm)) (visTree (t.map fv)) := by
  induction t with
  | atom a => simpa [W.map, runW, visTree] using h a (by simp [W.atoms])
  | pair l o r ihl ihr =>
    have hl := ihl (fun a ha => h a (by simp [W.atoms, ha]))
    have hr := ihr (fun a ha => h a (by simp [W.atoms, ha]))
    simp only [W.map, runW, visTree]
    exact vsim_pair o hl hr

/-! ### Calls -/

theorem vsim_args {sc : Scope} : ∀ (l : List (EvalM × VRes)), (∀ x ∈ l, VSim sc x.1 x.2) →
    ∀ (tys : List Ty) (s : St), l.length ≤ tys.length → ScopeRel s sc →
    SameVals s (evalArgs (l.map (·.1)) tys s).2 ∧
    (evalArgs (l.map (·.1)) tys s).2.ext = s.ext ++ visArgsL (l.map (·.2)) ∧
    (evalArgs (l.map (·.1)) tys s).1.isSome = (l.map (·.2)).all (·.2.isSome)
  | [], _, tys, s, _, _ => by simp [evalArgs, visArgsL, SameVals]
  | (m, v) :: rest, h, tys, s, hlen, hs => by
    obtain ⟨h1v, h1e, h1r⟩ := h (m, v) (by simp) s hs
    dsimp only at h1v h1e h1r
    simp only [List.map_cons]
    unfold evalArgs
    obtain ⟨a, to⟩ := v
    cases hm : m s with
    | mk res s1 =>
      rw [hm] at h1v h1e h1r
      dsimp only at h1v h1e h1r ⊢
      cases to with
      | none =>
        dsimp only at h1r
        subst h1r
        exact ⟨h1v, by simpa [visArgsL] using h1e, by simp⟩
      | some t0 =>
        dsimp only at h1r
        obtain ⟨r, rfl, _⟩ := h1r
        dsimp only
        cases tys with
        | nil => simp at hlen
        | cons t ts =>
          dsimp only
          have hlen' : rest.length ≤ ts.length := by simpa using hlen
          have hs1 : ScopeRel s1 sc := scopeRel_of_sameVals hs h1v
          by_cases hty : r.ty = t
          · simp only [ne_eq, hty, not_true_eq_false, if_false]
            obtain ⟨i1, i2, i3⟩ := vsim_args rest (fun x hx => h x (by simp [hx])) ts s1 hlen' hs1
            cases hr : evalArgs (rest.map (·.1)) ts s1 with
            | mk rres s2 =>
              rw [hr] at i1 i2 i3
              dsimp only at i1 i2 i3
              have hv : SameVals s s2 := by unfold SameVals at *; rw [i1, h1v]
              have he : s2.ext = s.ext ++ visArgsL ((a, some t0) :: rest.map (·.2)) := by
                rw [i2, h1e]; simp [visArgsL]
              cases rres with
              | none => exact ⟨hv, he, by simpa using i3⟩
              | some rs => exact ⟨hv, he, by simpa using i3⟩
          · simp only [ne_eq, hty, not_false_eq_true, if_true]
            have hs1' : ScopeRel (s1.addErr .functionParameterTypeWrong r.ty.show 1 0) sc := hs1
            obtain ⟨i1, i2, i3⟩ := vsim_args rest (fun x hx => h x (by simp [hx])) ts _ hlen' hs1'
            refine ⟨?_, ?_, by simpa using i3⟩
            · unfold SameVals at *; rw [i1]; exact h1v
            · rw [i2, ext_addErr, h1e]; simp [visArgsL]

/-- the visit result of a call, from the visit results of its arguments -/
def visCallR (rg : RGlobals) (f : Name) (vs : List VRes) : VRes :=
  match rlookup f rg.funcs with
  | none => ([], none)
  | some (ps, res) =>
    if ps.length < vs.length then ([], none)
    else (visArgsL vs, if vs.all (·.2.isSome) then some res else none)

theorem visV_call (rg : RGlobals) (sc : Scope) (f : Name) (args : List Expr) :
    visV rg sc (.call f args) = visCallR rg f (args.map (visE rg sc)) := by
  unfold visV visCallR
  rw [visEs_eq]
  simp only [List.length_map]
  cases rlookup f rg.funcs with
  | none => rfl
  | some p => rfl

theorem vsim_functionCall {g : Globals} {rg : RGlobals} (hg : GlobRel g rg) {sc : Scope} (f : Name)
    (l : List (EvalM × VRes)) (h : ∀ x ∈ l, VSim sc x.1 x.2) (s : St) (hs : ScopeRel s sc) :
    SameVals s (functionCall g f (l.map (·.1)) s).2 ∧
    (functionCall g f (l.map (·.1)) s).2.ext = s.ext ++ (visCallR rg f (l.map (·.2))).1 ∧
    (functionCall g f (l.map (·.1)) s).1 = (visCallR rg f (l.map (·.2))).2 := by
  unfold functionCall visCallR
  have hf := hg.funcs f
  cases hgf : g.funcs f with
  | none =>
    rw [hgf] at hf
    simp only [Option.map_none] at hf
    rw [← hf]
    exact ⟨rfl, by simp [ext_addErr], by first | rfl | trivial⟩
  | some fd =>
    rw [hgf] at hf
    simp only [Option.map_some] at hf
    rw [← hf]
    dsimp only
    by_cases hlen : fd.params.length < l.length
    · simp only [List.length_map, hlen, if_true]
      exact ⟨rfl, by simp [ext_addErr], by first | rfl | trivial⟩
    · simp only [List.length_map, hlen, if_false]
      obtain ⟨i1, i2, i3⟩ := vsim_args l h fd.params s (Nat.le_of_not_lt hlen) hs
      cases hr : evalArgs (l.map (·.1)) fd.params s with
      | mk rres s2 =>
        rw [hr] at i1 i2 i3
        dsimp only at i1 i2 i3 ⊢
        cases rres with
        | none =>
          dsimp only
          have : ((l.map (·.2)).all fun x => x.2.isSome) = false := by simpa using i3.symm
          rw [this]
          exact ⟨i1, i2, rfl⟩
        | some ps =>
          dsimp only
          have : ((l.map (·.2)).all fun x => x.2.isSome) = true := by simpa using i3.symm
          rw [this]
          refine ⟨?_, ?_, rfl⟩
          · show (s2.incReg.push _).vals = s.vals
            rw [vals_push, vals_incReg]; exact i1
          · show (s2.incReg.push _).ext = _
            rw [ext_push_none _ _ rfl, ext_incReg]; exact i2

theorem vsim_call {g : Globals} {rg : RGlobals} (hg : GlobRel g rg) {sc : Scope} (f : Name)
    (l : List (EvalM × VRes)) (h : ∀ x ∈ l, VSim sc x.1 x.2) :
    VSim sc (evalCall g f (l.map (·.1))) (visCallR rg f (l.map (·.2))) := by
  intro s hs
  obtain ⟨i1, i2, i3⟩ := vsim_functionCall hg f l h s hs
  unfold evalCall
  cases hr : functionCall g f (l.map (·.1)) s with
  | mk res s1 =>
    rw [hr] at i1 i2 i3
    dsimp only at i1 i2 i3 ⊢
    rw [← i3]
    cases res with
    | none => exact ⟨i1, i2, by first | rfl | trivial⟩
    | some ty =>
      dsimp only
      exact ⟨by show s1.incReg.vals = s.vals; rw [vals_incReg]; exact i1, by rw [ext_incReg]; exact i2, ⟨_, rfl, rfl⟩⟩

/-! ### Expressions -/

mutual
theorem vsim_exprM {g : Globals} {rg : RGlobals} (hg : GlobRel g rg) (sc : Scope) :
    ∀ e, VSim sc (exprM g e) (visE rg sc e)
  | .mk v rest => by
    unfold exprM visE precTree
    rw [restM_eq, visRest_eq, foldChain_map Generated.prio (valM g), foldChain_map Generated.prio (visV rg sc)]
    refine vsim_tree (valM g) (visV rg sc) _ ?_
    intro a ha
    rcases foldChain_atoms_subset Generated.prio v (chainTail rest) a ha with h | h
    · rw [h]; exact vsim_valM hg sc v
    · simp at h
      obtain ⟨o, h⟩ := h
      exact vsim_chain hg sc rest o a h
theorem vsim_chain {g : Globals} {rg : RGlobals} (hg : GlobRel g rg) (sc : Scope) :
    ∀ r, ∀ o a, (o, a) ∈ chainTail r → VSim sc (valM g a) (visV rg sc a)
  | none => by intro o a h; simp [chainTail] at h
  | some (op, .mk v rest) => by
    intro o a h
    unfold chainTail at h
    simp at h
    rcases h with ⟨_, ha⟩ | h
    · rw [ha]; exact vsim_valM hg sc v
    · exact vsim_chain hg sc rest o a h
theorem vsim_valM {g : Globals} {rg : RGlobals} (hg : GlobRel g rg) (sc : Scope) :
    ∀ v, VSim sc (valM g v) (visV rg sc v)
  | .var n => by unfold valM visV; exact vsim_var hg sc n
  | .lit v => by unfold valM visV; exact vsim_lit sc v
  | .call f args => by
    rw [visV_call]
    unfold valM
    rw [argsM_eq]
    have := vsim_call hg f (args.map fun e => (exprM g e, visE rg sc e)) (by
      intro x hx
      rw [List.mem_map] at hx
      obtain ⟨e, he, rfl⟩ := hx
      exact vsim_args' hg sc args e he)
    simpa [List.map_map, Function.comp_def] using this
  | .field v a => by unfold valM visV; exact vsim_field hg sc v a
  | .sub e => by unfold valM visV; exact vsim_exprM hg sc e
  | .ext tag ty => by unfold valM visV; exact vsim_ext sc tag ty
theorem vsim_args' {g : Globals} {rg : RGlobals} (hg : GlobRel g rg) (sc : Scope) :
    ∀ (as : List Expr), ∀ e ∈ as, VSim sc (exprM g e) (visE rg sc e)
  | [] => by intro e h; cases h
  | a :: as => by
    intro e h
    simp at h
    rcases h with rfl | h
    · exact vsim_exprM hg sc e
    · exact vsim_args' hg sc as e h
end

/-! ### Statements -/

/-- one step of the lockstep: value tables related to the visit scope, block depth, leaves evaluated -/
structure VS (s s' : St) (sc' : Scope) (tags : List Nat) : Prop where
  scope : ScopeRel s' sc'
  len : s'.inner.length = s.inner.length
  ext : s'.ext = s.ext ++ tags

theorem VS.trans {s s1 s2 : St} {sc1 sc2 : Scope} {t1 t2 : List Nat} (h1 : VS s s1 sc1 t1) (h2 : VS s1 s2 sc2 t2) :
    VS s s2 sc2 (t1 ++ t2) :=
  ⟨h2.scope, by rw [h2.len, h1.len], by rw [h2.ext, h1.ext, List.append_assoc]⟩

theorem VS.same {s s' : St} {sc : Scope} (hs : ScopeRel s sc) (hv : s'.vals = s.vals) (hl : s'.inner.length = s.inner.length)
    (hc : s'.root.context = s.root.context) : VS s s' sc [] :=
  ⟨by unfold ScopeRel; rw [hv]; exact hs, hl, by rw [ext_of_ctx hc]; simp⟩

theorem ext_insertValue (n : Name) (v : Value) (s : St) : (s.insertValue n v).ext = s.ext := by
  unfold St.ext St.insertValue St.mapCur
  cases s.inner <;> rfl

theorem ext_registerInner (n : Name) (s : St) : (s.registerInner n).ext = s.ext := rfl
theorem ext_setReturn (s : St) : s.setReturn.ext = s.ext := rfl

variable {g : Globals} {rg : RGlobals}

theorem v_let (hg : GlobRel g rg) (b : LetB) (s : St) (sc : Scope) (hs : ScopeRel s sc) :
    VS s (letBinding g b s) (visLetSc rg sc b) (visE rg sc b.value).1 := by
  have hl := (esteps_letBinding g b s).inner_len
  obtain ⟨h1, h2, h3⟩ := vsim_exprM hg sc b.value s hs
  refine ⟨?_, hl, ?_⟩ <;> (
    unfold letBinding
    try unfold visLetSc
    cases hm : exprM g b.value s with
    | mk res s1 =>
      rw [hm] at h1 h2 h3
      dsimp only at h1 h2 h3 ⊢
      cases hv : (visE rg sc b.value).2 with
      | none =>
        rw [hv] at h3
        dsimp only at h3
        subst h3
        first
        | exact scopeRel_of_sameVals hs h1
        | exact h2
      | some t =>
        rw [hv] at h3
        dsimp only at h3
        obtain ⟨r, rfl, hrty⟩ := h3
        subst hrty
        dsimp only
        cases hbad : letTypeBad b.ty r.ty with
        | true =>
          simp only [if_true]
          first
          | exact scopeRel_of_sameVals hs h1
          | (rw [ext_addErr]; exact h2)
        | false =>
          simp only [Bool.false_eq_true, if_false]
          first
          | (unfold ScopeRel
             rw [vals_push, vals_registerInner]
             obtain ⟨x, rest, hx, hx'⟩ := vals_insertValue b.name ⟨letInnerName s1 b.name, r.ty, b.mutable, false, false⟩ s1
             rw [hx']
             have : ValsRel (x :: rest) sc := by rw [← hx]; exact scopeRel_of_sameVals hs h1
             exact valsRel_declare this b.name ⟨letInnerName s1 b.name, r.ty, b.mutable, false, false⟩)
          | (rw [ext_push_none _ _ rfl, ext_registerInner, ext_insertValue]; exact h2))

theorem v_bind (hg : GlobRel g rg) (b : Bind) (s : St) (sc : Scope) (hs : ScopeRel s sc) :
    VS s (binding g b s) sc (visE rg sc b.value).1 := by
  have hl := (esteps_binding g b s).inner_len
  obtain ⟨h1, h2, h3⟩ := vsim_exprM hg sc b.value s hs
  have key : (binding g b s).vals = s.vals ∧ (binding g b s).ext = s.ext ++ (visE rg sc b.value).1 := by
    unfold binding
    cases hm : exprM g b.value s with
    | mk res s1 =>
      rw [hm] at h1 h2
      dsimp only at h1 h2 ⊢
      cases res with
      | none => exact ⟨h1, h2⟩
      | some r =>
        dsimp only
        cases s1.lookupValue b.name with
        | none => exact ⟨h1, by rw [ext_addErr]; exact h2⟩
        | some value =>
          dsimp only
          split
          · exact ⟨h1, by rw [ext_addErr]; exact h2⟩
          · split
            · exact ⟨h1, by rw [ext_addErr]; exact h2⟩
            · exact ⟨by rw [vals_push]; exact h1, by rw [ext_push_none _ _ rfl]; exact h2⟩
  exact ⟨by unfold ScopeRel; rw [key.1]; exact hs, hl, key.2⟩

theorem v_callS (hg : GlobRel g rg) (c : CallS) (s : St) (sc : Scope) (hs : ScopeRel s sc) :
    VS s (callStmt g c s) sc (visCallS rg sc c) := by
  have hl := (esteps_callStmt g c s).inner_len
  have := vsim_functionCall hg c.name (c.args.map fun e => (exprM g e, visE rg sc e)) (by
    intro x hx
    rw [List.mem_map] at hx
    obtain ⟨e, he, rfl⟩ := hx
    exact vsim_exprM hg sc e) s hs
  simp only [List.map_map, Function.comp_def] at this
  obtain ⟨h1, h2, _⟩ := this
  unfold callStmt at hl ⊢
  rw [argsM_eq] at hl ⊢
  unfold visCallS
  rw [visV_call]
  exact ⟨scopeRel_of_sameVals hs h1, hl, h2⟩

theorem v_nestedRet (hg : GlobRel g rg) (e : Expr) (s : St) (sc : Scope) (hs : ScopeRel s sc) :
    VS s (nestedReturn g e s).1 sc (visE rg sc e).1 := by
  have hl := nestedReturn_len (g := g) e s
  obtain ⟨h1, h2, _⟩ := vsim_exprM hg sc e s hs
  refine ⟨?_, hl, ?_⟩ <;> (
    unfold nestedReturn
    cases hm : exprM g e s with
    | mk res s1 =>
      rw [hm] at h1 h2
      dsimp only at h1 h2 ⊢
      cases res with
      | none =>
        first
        | exact scopeRel_of_sameVals hs h1
        | exact h2
      | some r =>
        dsimp only
        first
        | (unfold ScopeRel; rw [vals_setReturn, vals_push]; exact scopeRel_of_sameVals hs h1)
        | (rw [ext_setReturn, ext_push_none _ _ rfl]; exact h2))

theorem v_forbidden (rc bc cc : Bool) (s : St) (sc : Scope) (hs : ScopeRel s sc) : VS s (forbidden rc bc cc s) sc [] := by
  refine VS.same hs ?_ (forbidden_len rc bc cc s) ?_ <;> (unfold forbidden; cases rc <;> cases bc <;> cases cc <;> rfl)

theorem v_condExpr (hg : GlobRel g rg) (sc : Scope) : ∀ (lc : LogicCond) (s : St), ScopeRel s sc →
    SameVals s (condExprM g lc s).2 ∧ (condExprM g lc s).2.ext = s.ext ++ visLogic rg sc lc
  | .mk c right, s, hs => by
    obtain ⟨a1, a2, a3⟩ := vsim_exprM hg sc c.left s hs
    unfold condExprM visLogic
    cases hm1 : exprM g c.left s with
    | mk l s1 =>
      rw [hm1] at a1 a2 a3
      dsimp only at a1 a2 a3 ⊢
      obtain ⟨b1, b2, b3⟩ := vsim_exprM hg sc c.right s1 (scopeRel_of_sameVals hs a1)
      cases hm2 : exprM g c.right s1 with
      | mk r s2 =>
        rw [hm2] at b1 b2 b3
        dsimp only at b1 b2 b3 ⊢
        have hv : SameVals s s2 := by unfold SameVals at *; rw [b1, a1]
        have he : s2.ext = s.ext ++ ((visE rg sc c.left).1 ++ (visE rg sc c.right).1) := by
          rw [b2, a2, List.append_assoc]
        cases hvl : (visE rg sc c.left).2 with
        | none =>
          rw [hvl] at a3
          dsimp only at a3
          subst a3
          dsimp only
          exact ⟨hv, by rw [ext_addErr, he]; simp⟩
        | some tl =>
          rw [hvl] at a3
          dsimp only at a3
          obtain ⟨lv, rfl, hlty⟩ := a3
          cases hvr : (visE rg sc c.right).2 with
          | none =>
            rw [hvr] at b3
            dsimp only at b3
            subst b3
            dsimp only
            exact ⟨hv, by rw [ext_addErr, he]; simp⟩
          | some tr =>
            rw [hvr] at b3
            dsimp only at b3
            obtain ⟨rv, rfl, hrty⟩ := b3
            dsimp only
            by_cases hne : lv.ty = rv.ty
            · have heq : tl = tr := by rw [← hlty, ← hrty, hne]
              simp only [ne_eq, hne, not_true_eq_false, if_false]
              by_cases hp : rv.ty.isPrim = true
              · simp only [hp, Bool.not_true, Bool.false_eq_true, if_false]
                have hp' : tl.isPrim = true := by rw [heq, ← hrty]; exact hp
                cases right with
                | none =>
                  dsimp only
                  refine ⟨?_, ?_⟩
                  · show (s2.incReg.push _).vals = s.vals
                    rw [vals_push, vals_incReg]; exact hv
                  · show (s2.incReg.push _).ext = _
                    rw [ext_push_none _ _ rfl, ext_incReg, he]; simp
                | some p =>
                  obtain ⟨lg, rc⟩ := p
                  dsimp only
                  have hs3 : ScopeRel (s2.incReg.push (.condExpr lv rv c.cond s2.incReg.curReg)) sc := by
                    unfold ScopeRel; rw [vals_push, vals_incReg]; exact scopeRel_of_sameVals hs hv
                  obtain ⟨c1, c2⟩ := v_condExpr hg sc rc _ hs3
                  cases hm3 : condExprM g rc (s2.incReg.push (.condExpr lv rv c.cond s2.incReg.curReg)) with
                  | mk reg s4 =>
                    rw [hm3] at c1 c2
                    dsimp only at c1 c2 ⊢
                    refine ⟨?_, ?_⟩
                    · show (s4.incReg.push _).vals = s.vals
                      rw [vals_push, vals_incReg]
                      unfold SameVals at c1
                      rw [c1, vals_push, vals_incReg]; exact hv
                    · show (s4.incReg.push _).ext = _
                      rw [ext_push_none _ _ rfl, ext_incReg, c2, ext_push_none _ _ rfl, ext_incReg, he]
                      subst heq
                      simp [hp']
              · simp only [hp, Bool.not_false, if_true]
                have hp' : tl.isPrim = false := by rw [heq, ← hrty]; simpa using hp
                refine ⟨hv, ?_⟩
                rw [ext_addErr, he]
                subst heq
                cases right with
                | none => simp
                | some p => simp [hp']
            · have hneq : tl ≠ tr := by rw [← hlty, ← hrty]; exact hne
              simp only [ne_eq, hne, not_false_eq_true, if_true]
              refine ⟨hv, ?_⟩
              rw [ext_addErr, he]
              cases right with
              | none => simp
              | some p => simp [hneq]

theorem v_ifCondCalc (hg : GlobRel g rg) (c : IfCond) (lb le ln : Name) (isElse : Bool) (s : St) (sc : Scope)
    (hs : ScopeRel s sc) : VS s (ifCondCalc g c lb le ln isElse s) sc (visIfCond rg sc c) := by
  have hl := (esteps_ifCondCalc g c lb le ln isElse s).inner_len
  have key : SameVals s (ifCondCalc g c lb le ln isElse s) ∧
      (ifCondCalc g c lb le ln isElse s).ext = s.ext ++ visIfCond rg sc c := by
    unfold ifCondCalc visIfCond
    cases c with
    | single e =>
      dsimp only
      obtain ⟨h1, h2, _⟩ := vsim_exprM hg sc e s hs
      cases hm : exprM g e s with
      | mk res s1 =>
        rw [hm] at h1 h2
        dsimp only at h1 h2 ⊢
        cases res with
        | none => exact ⟨h1, h2⟩
        | some r =>
          dsimp only
          exact ⟨by show (s1.push _).vals = s.vals; rw [vals_push]; exact h1, by rw [ext_push_none _ _ rfl]; exact h2⟩
    | logic lc =>
      dsimp only
      obtain ⟨h1, h2⟩ := v_condExpr hg sc lc s hs
      cases hm : condExprM g lc s with
      | mk reg s1 =>
        rw [hm] at h1 h2
        dsimp only at h1 h2 ⊢
        exact ⟨by show (s1.push _).vals = s.vals; rw [vals_push]; exact h1, by rw [ext_push_none _ _ rfl]; exact h2⟩
  exact ⟨scopeRel_of_sameVals hs key.1, hl, key.2⟩

/-! ### Control constructs -/

theorem VS.silent {s s1 s2 : St} {sc : Scope} {t : List Nat} (h : VS s s1 sc t) (hv : s2.vals = s1.vals)
    (hl : s2.inner.length = s1.inner.length) (hc : s2.ext = s1.ext) : VS s s2 sc t :=
  ⟨by unfold ScopeRel; rw [hv]; exact h.scope, by rw [hl, h.len], by rw [hc, h.ext]⟩

theorem VS.refl {s : St} {sc : Scope} (hs : ScopeRel s sc) : VS s s sc [] := ⟨hs, rfl, by simp⟩

theorem ext_enter (s : St) : s.enter.ext = s.ext := rfl

theorem visLetSc_tail (sc : Scope) (b : LetB) : (visLetSc rg sc b).tail = sc.tail := by
  unfold visLetSc
  split
  · split
    · rfl
    · exact declare_tail _ _ _ _
  · rfl

/-- prologue of `if_condition`: one more live block with an empty table, the condition's leaves -/
theorem v_ifPrologue (hg : GlobRel g rg) (cond : IfCond) (dup isElse : Bool) (le : Option Name) (s : St) (sc : Scope)
    (hs : ScopeRel s sc) :
    ScopeRel (ifPrologue g cond dup isElse le s).2.2 ([] :: sc) ∧
    (ifPrologue g cond dup isElse le s).2.2.inner.length = s.inner.length + 1 ∧
    (ifPrologue g cond dup isElse le s).2.2.ext = s.ext ++ visIfCond rg ([] :: sc) cond := by
  unfold ifPrologue
  dsimp only
  have h0 : ScopeRel (if dup = true then s.addErr .ifElseDuplicated "if-condition".toList 1 0 else s) sc ∧
      (if dup = true then s.addErr .ifElseDuplicated "if-condition".toList 1 0 else s).inner.length = s.inner.length ∧
      (if dup = true then s.addErr .ifElseDuplicated "if-condition".toList 1 0 else s).ext = s.ext := by
    cases dup
    · exact ⟨hs, rfl, rfl⟩
    · exact ⟨hs, rfl, rfl⟩
  generalize (if dup = true then s.addErr .ifElseDuplicated "if-condition".toList 1 0 else s) = s0 at h0 ⊢
  obtain ⟨_, hv, hl⟩ := ifLabels_fields le s0
  have hc := ctx_ifLabels le s0
  generalize ifLabels le s0 = q at hv hl hc ⊢
  obtain ⟨lBegin, lElse, lEnd, s1⟩ := q
  dsimp only at hv hl hc ⊢
  have hs1 : ScopeRel s1 ([] :: sc) := by
    unfold ScopeRel; rw [hv]
    exact ValsRel.cons (fun n => by simp [assocGet, rlookup]) h0.1
  have hC := v_ifCondCalc hg cond lBegin lElse lEnd isElse s1 ([] :: sc) hs1
  refine ⟨?_, ?_, ?_⟩
  · unfold ScopeRel; rw [vals_push]; exact hC.scope
  · rw [(push_fields _ _).2, hC.len, hl, h0.2.1]
  · rw [ext_push_none _ _ rfl, hC.ext, ext_of_ctx hc, h0.2.2]

theorem filterMap_ext_ctl (l : List Instr) (h : ∀ i ∈ l, i.extTag = none) : l.filterMap Instr.extTag = [] := by
  induction l with
  | nil => rfl
  | cons a t ih =>
    rw [List.filterMap_cons, h a (by simp)]
    exact ih (fun i hi => h i (by simp [hi]))

/-- leaving the block of a body: the scope loses its top frame -/
theorem v_afterBody {s s2 : St} {sc sc' : Scope} {t : List Nat} (isElse r : Bool) (lElse lEnd : Name)
    (h : VS s s2 sc' t) (hlen : s2.inner.length = s.inner.length) (hs : s.inner ≠ []) (htl : sc'.tail = sc) :
    ScopeRel (ifAfterBody isElse r lElse lEnd s2).2 sc ∧
    (ifAfterBody isElse r lElse lEnd s2).2.inner.length + 1 = s.inner.length ∧
    (ifAfterBody isElse r lElse lEnd s2).2.ext = s2.ext := by
  have hin : s2.inner ≠ [] := by
    intro hn; rw [hn] at hlen
    cases hi : s.inner with
    | nil => exact hs hi
    | cons b rest => rw [hi] at hlen; simp at hlen
  obtain ⟨_, hv, hl⟩ := ifAfterBody_fields isElse r lElse lEnd s2 hin
  refine ⟨?_, by rw [hl, hlen], ?_⟩
  · unfold ScopeRel; rw [hv, ← htl]; exact scopeRel_tail h.scope
  · rw [ext_of_ctx_app (ctx_ifAfterBody isElse r lElse lEnd s2), filterMap_ext_ctl]
    · simp
    · intro i hi
      cases r <;> cases isElse <;> simp at hi <;> (try rcases hi with rfl | rfl) <;> (try subst hi) <;> rfl

theorem v_afterElse {s4 : St} {sc sc' : Scope} (k : Nat) (r : Bool) (lEnd : Name)
    (hs4 : ScopeRel s4 sc') (hin : s4.inner ≠ []) (htl : sc'.tail = sc) :
    ScopeRel (ifAfterElse k r lEnd s4) sc ∧ (ifAfterElse k r lEnd s4).inner.length + 1 = s4.inner.length ∧
    (ifAfterElse k r lEnd s4).ext = s4.ext := by
  obtain ⟨_, hv, hl⟩ := ifAfterElse_fields k r lEnd s4 hin
  refine ⟨?_, hl, ?_⟩
  · unfold ScopeRel; rw [hv, ← htl]; exact scopeRel_tail hs4
  · rw [ext_of_ctx_app (ctx_ifAfterElse k r lEnd s4), filterMap_ext_ctl]
    · simp
    · intro i hi
      cases r <;> simp at hi
      subst hi; rfl

theorem v_epilogue (k : Nat) (le : Option Name) (lEnd : Name) (s : St) :
    (ifEpilogue k le lEnd s).vals = s.vals ∧ (ifEpilogue k le lEnd s).inner.length = s.inner.length ∧
    (ifEpilogue k le lEnd s).ext = s.ext := by
  obtain ⟨_, hv, hl⟩ := ifEpilogue_fields k le lEnd s
  refine ⟨hv, hl, ?_⟩
  rw [ext_of_ctx_app (ctx_ifEpilogue k le lEnd s), filterMap_ext_ctl]
  · simp
  · intro i hi
    cases le <;> simp at hi
    subst hi; rfl

/-- `loop_statement` around a body that satisfies the lockstep -/
theorem v_loopWrap (k : Name → Name → Bool → Bool → Bool → St → St × Bool) (tags : Scope → List Nat)
    (hk : ∀ lb le rc bc cc s sc, ScopeRel s sc → ∃ sc', VS s (k lb le rc bc cc s).1 sc' (tags sc) ∧ sc'.tail = sc.tail)
    (s : St) (sc : Scope) (hs : ScopeRel s sc) : VS s (loopWrap k s) sc (tags ([] :: sc)) := by
  unfold loopWrap
  obtain ⟨_, hv, hl⟩ := loopPrologue_fields s
  have hc := ctx_loopPrologue s
  generalize loopPrologue s = q at hv hl hc ⊢
  obtain ⟨lb, le, s1⟩ := q
  dsimp only at hv hl hc ⊢
  have hs1 : ScopeRel s1 ([] :: sc) := by
    unfold ScopeRel; rw [hv]
    exact ValsRel.cons (fun n => by simp [assocGet, rlookup]) hs
  obtain ⟨sc', hB, htl⟩ := hk lb le false false false s1 ([] :: sc) hs1
  generalize k lb le false false false s1 = q2 at hB ⊢
  obtain ⟨s2, r⟩ := q2
  dsimp only at hB ⊢
  have hin : s2.inner ≠ [] := inner_ne_of_len (by rw [hB.len, hl])
  obtain ⟨_, hv3, hl3⟩ := loopEpilogue_fields r lb le s2 hin
  refine ⟨?_, ?_, ?_⟩
  · unfold ScopeRel; rw [hv3]
    have := scopeRel_tail hB.scope
    rw [htl] at this
    exact this
  · have := hB.len; omega
  · rw [ext_of_ctx_app (ctx_loopEpilogue r lb le s2), filterMap_ext_ctl, hB.ext, ext_of_ctx_app hc, filterMap_ext_ctl]
    · simp
    · intro i hi; simp at hi; rcases hi with rfl | rfl <;> rfl
    · intro i hi
      cases r <;> simp at hi
      rcases hi with rfl | rfl <;> rfl

mutual
theorem v_ifCondition (hg : GlobRel g rg) : ∀ (i : IfStmt) (le : Option Name) (ll : Option (Name × Name)) (s : St) (sc : Scope),
    IfStmt.anaOK ll.isSome i = true → ScopeRel s sc → VS s (ifCondition g i le ll s) sc (visIf rg i sc)
  | .mk cond body els elif, le, ll, s, sc, hok, hs => by
    unfold IfStmt.anaOK at hok
    simp only [Bool.and_eq_true] at hok
    obtain ⟨hokb, hoke⟩ := hok
    unfold ifCondition visIf
    dsimp only
    obtain ⟨p1, p2, p3⟩ := v_ifPrologue (rg := rg) hg cond (els.isSome && elif.isSome) (els.isSome || elif.isSome) le s sc hs
    generalize ifPrologue g cond (els.isSome && elif.isSome) (els.isSome || elif.isSome) le s = p at p1 p2 p3 ⊢
    obtain ⟨lElse, lEnd, s1⟩ := p
    dsimp only at p1 p2 p3 ⊢
    obtain ⟨scB, hB, htlB⟩ := v_ifBodies hg body lEnd ll s1 ([] :: sc) hokb p1
    generalize ifBodies g body lEnd ll s1 = q at hB ⊢
    obtain ⟨s2, r⟩ := q
    dsimp only at hB ⊢
    have hin1 : s1.inner ≠ [] := inner_ne_of_len p2
    obtain ⟨a1, a2, a3⟩ := v_afterBody (sc := sc) (els.isSome || elif.isSome) r lElse lEnd hB hB.len hin1 htlB
    generalize ifAfterBody (els.isSome || elif.isSome) r lElse lEnd s2 = q3 at a1 a2 a3 ⊢
    obtain ⟨k, s3⟩ := q3
    dsimp only at a1 a2 a3 ⊢
    have hl3 : s3.inner.length = s.inner.length := by omega
    have he3 : s3.ext = s.ext ++ (visIfCond rg ([] :: sc) cond ++ visBodies rg body ([] :: sc)) := by
      rw [a3, hB.ext, p3, List.append_assoc]
    have h3 : VS s s3 sc (visIfCond rg ([] :: sc) cond ++ visBodies rg body ([] :: sc)) := ⟨a1, hl3, he3⟩
    have hE : ∀ (s4 : St) (t : List Nat), VS s s4 sc t → VS s (ifEpilogue k le lEnd s4) sc t := by
      intro s4 t h4
      obtain ⟨e1, e2, e3⟩ := v_epilogue k le lEnd s4
      exact h4.silent e1 e2 e3
    cases els with
    | some eb =>
      dsimp only at hoke ⊢
      apply hE
      have hs3e : ScopeRel s3.enter ([] :: sc) := scopeRel_enter a1
      obtain ⟨scE, hD, htlE⟩ := v_ifBodies hg eb lEnd ll s3.enter ([] :: sc) hoke hs3e
      generalize ifBodies g eb lEnd ll s3.enter = q4 at hD ⊢
      obtain ⟨s4, r4⟩ := q4
      dsimp only at hD ⊢
      have hin4 : s4.inner ≠ [] := inner_ne_of_len (n := s3.inner.length) (by rw [hD.len]; simp [St.enter])
      obtain ⟨b1, b2, b3⟩ := v_afterElse (sc := sc) k r4 lEnd hD.scope hin4 htlE
      refine ⟨b1, ?_, ?_⟩
      · have := hD.len
        simp [St.enter] at this
        omega
      · rw [b3, hD.ext, ext_enter, he3]; simp
    | none =>
      cases elif with
      | some ei =>
        dsimp only at hoke ⊢
        apply hE
        have := h3.trans (v_ifCondition hg ei (some lEnd) ll s3 sc hoke a1)
        simpa using this
      | none =>
        dsimp only
        simpa using hE s3 _ h3
theorem v_ifBodies (hg : GlobRel g rg) : ∀ (b : IfBodies) (lEnd : Name) (ll : Option (Name × Name)) (s : St) (sc : Scope),
    IfBodies.anaOK ll.isSome b = true → ScopeRel s sc →
    ∃ sc', VS s (ifBodies g b lEnd ll s).1 sc' (visBodies rg b sc) ∧ sc'.tail = sc.tail
  | .ifb l, lEnd, ll, s, sc, hok, hs => by
    unfold IfBodies.anaOK at hok
    unfold ifBodies visBodies
    exact v_ifBody hg l lEnd ll false s sc hok hs
  | .loopb l, lEnd, some (lb, le), s, sc, hok, hs => by
    unfold IfBodies.anaOK at hok
    simp at hok
    unfold ifBodies visBodies
    exact v_ifLoopBody hg l lEnd lb le false false false s sc hok hs
  | .loopb _, _, none, s, sc, hok, _ => by
    unfold IfBodies.anaOK at hok
    simp at hok
theorem v_ifBody (hg : GlobRel g rg) : ∀ (l : List IfBodyStmt) (lEnd : Name) (ll : Option (Name × Name)) (rc : Bool) (s : St) (sc : Scope),
    IfBodyStmt.anaOKL ll.isSome l = true → ScopeRel s sc →
    ∃ sc', VS s (ifBody g l lEnd ll rc s).1 sc' (visIfBody rg l sc) ∧ sc'.tail = sc.tail
  | [], lEnd, ll, rc, s, sc, _, hs => by
    unfold ifBody visIfBody
    exact ⟨sc, VS.refl hs, rfl⟩
  | st :: tl, lEnd, ll, rc, s, sc, hok, hs => by
    unfold ifBody
    dsimp only
    have h0 := v_forbidden rc false false s sc hs
    cases st with
    | letB b =>
      unfold visIfBody
      unfold IfBodyStmt.anaOKL at hok
      dsimp only
      have h1 := h0.trans (v_let hg b _ sc h0.scope)
      obtain ⟨sc', h2, htl⟩ := v_ifBody hg tl lEnd ll rc _ _ hok h1.scope
      exact ⟨sc', by simpa using h1.trans h2, by rw [htl, visLetSc_tail]⟩
    | bind b =>
      unfold visIfBody
      unfold IfBodyStmt.anaOKL at hok
      dsimp only
      have h1 := h0.trans (v_bind hg b _ sc h0.scope)
      obtain ⟨sc', h2, htl⟩ := v_ifBody hg tl lEnd ll rc _ _ hok h1.scope
      exact ⟨sc', by simpa using h1.trans h2, htl⟩
    | call c =>
      unfold visIfBody
      unfold IfBodyStmt.anaOKL at hok
      dsimp only
      have h1 := h0.trans (v_callS hg c _ sc h0.scope)
      obtain ⟨sc', h2, htl⟩ := v_ifBody hg tl lEnd ll rc _ _ hok h1.scope
      exact ⟨sc', by simpa using h1.trans h2, htl⟩
    | ifS i =>
      unfold visIfBody
      unfold IfBodyStmt.anaOKL at hok
      simp only [Bool.and_eq_true] at hok
      dsimp only
      have h1 := h0.trans (v_ifCondition hg i (some lEnd) ll _ sc (by simpa using hok.1) h0.scope)
      obtain ⟨sc', h2, htl⟩ := v_ifBody hg tl lEnd ll rc _ _ hok.2 h1.scope
      exact ⟨sc', by simpa using h1.trans h2, htl⟩
    | loop b =>
      unfold visIfBody
      unfold IfBodyStmt.anaOKL at hok
      simp only [Bool.and_eq_true] at hok
      dsimp only
      have h1 := h0.trans (v_loopWrap (loopBody g b) (visLoopBody rg b)
        (fun lb le rc bc cc s sc hs => v_loopBody hg b lb le rc bc cc s sc hok.1 hs) _ sc h0.scope)
      obtain ⟨sc', h2, htl⟩ := v_ifBody hg tl lEnd ll rc _ _ hok.2 h1.scope
      exact ⟨sc', by simpa using h1.trans h2, htl⟩
    | ret e =>
      unfold visIfBody
      unfold IfBodyStmt.anaOKL at hok
      dsimp only
      have h1 := h0.trans (v_nestedRet hg e _ sc h0.scope)
      generalize nestedReturn g e (forbidden rc false false s) = q at h1 ⊢
      obtain ⟨s1, r⟩ := q
      dsimp only at h1 ⊢
      obtain ⟨sc', h2, htl⟩ := v_ifBody hg tl lEnd ll (rc || r) s1 _ hok h1.scope
      exact ⟨sc', by simpa using h1.trans h2, htl⟩
theorem v_ifLoopBody (hg : GlobRel g rg) : ∀ (l : List IfLoopStmt) (lEnd lb le : Name) (rc bc cc : Bool) (s : St) (sc : Scope),
    IfLoopStmt.anaOKL l = true → ScopeRel s sc →
    ∃ sc', VS s (ifLoopBody g l lEnd lb le rc bc cc s).1 sc' (visIfLoopBody rg l sc) ∧ sc'.tail = sc.tail
  | [], lEnd, lb, le, rc, bc, cc, s, sc, _, hs => by
    unfold ifLoopBody visIfLoopBody
    exact ⟨sc, VS.refl hs, rfl⟩
  | st :: tl, lEnd, lb, le, rc, bc, cc, s, sc, hok, hs => by
    unfold ifLoopBody
    dsimp only
    have h0 := v_forbidden rc bc cc s sc hs
    cases st with
    | letB b =>
      unfold visIfLoopBody
      unfold IfLoopStmt.anaOKL at hok
      dsimp only
      have h1 := h0.trans (v_let hg b _ sc h0.scope)
      obtain ⟨sc', h2, htl⟩ := v_ifLoopBody hg tl lEnd lb le rc bc cc _ _ hok h1.scope
      exact ⟨sc', by simpa using h1.trans h2, by rw [htl, visLetSc_tail]⟩
    | bind b =>
      unfold visIfLoopBody
      unfold IfLoopStmt.anaOKL at hok
      dsimp only
      have h1 := h0.trans (v_bind hg b _ sc h0.scope)
      obtain ⟨sc', h2, htl⟩ := v_ifLoopBody hg tl lEnd lb le rc bc cc _ _ hok h1.scope
      exact ⟨sc', by simpa using h1.trans h2, htl⟩
    | call c =>
      unfold visIfLoopBody
      unfold IfLoopStmt.anaOKL at hok
      dsimp only
      have h1 := h0.trans (v_callS hg c _ sc h0.scope)
      obtain ⟨sc', h2, htl⟩ := v_ifLoopBody hg tl lEnd lb le rc bc cc _ _ hok h1.scope
      exact ⟨sc', by simpa using h1.trans h2, htl⟩
    | ifS i =>
      unfold visIfLoopBody
      unfold IfLoopStmt.anaOKL at hok
      simp only [Bool.and_eq_true] at hok
      dsimp only
      have h1 := h0.trans (v_ifCondition hg i (some lEnd) (some (lb, le)) _ sc (by simpa using hok.1) h0.scope)
      obtain ⟨sc', h2, htl⟩ := v_ifLoopBody hg tl lEnd lb le rc bc cc _ _ hok.2 h1.scope
      exact ⟨sc', by simpa using h1.trans h2, htl⟩
    | loop b =>
      unfold visIfLoopBody
      unfold IfLoopStmt.anaOKL at hok
      simp only [Bool.and_eq_true] at hok
      dsimp only
      have h1 := h0.trans (v_loopWrap (loopBody g b) (visLoopBody rg b)
        (fun lb le rc bc cc s sc hs => v_loopBody hg b lb le rc bc cc s sc hok.1 hs) _ sc h0.scope)
      obtain ⟨sc', h2, htl⟩ := v_ifLoopBody hg tl lEnd lb le rc bc cc _ _ hok.2 h1.scope
      exact ⟨sc', by simpa using h1.trans h2, htl⟩
    | ret e =>
      unfold visIfLoopBody
      unfold IfLoopStmt.anaOKL at hok
      dsimp only
      have h1 := h0.trans (v_nestedRet hg e _ sc h0.scope)
      generalize nestedReturn g e (forbidden rc bc cc s) = q at h1 ⊢
      obtain ⟨s1, r⟩ := q
      dsimp only at h1 ⊢
      obtain ⟨sc', h2, htl⟩ := v_ifLoopBody hg tl lEnd lb le (rc || r) bc cc s1 _ hok h1.scope
      exact ⟨sc', by simpa using h1.trans h2, htl⟩
    | brk =>
      unfold visIfLoopBody
      unfold IfLoopStmt.anaOKL at hok
      dsimp only
      have h1 : VS s ((forbidden rc bc cc s).push (.jumpTo le)) sc [] :=
        h0.silent (vals_push _ _) (push_fields _ _).2 (ext_push_none _ _ rfl)
      obtain ⟨sc', h2, htl⟩ := v_ifLoopBody hg tl lEnd lb le rc true cc _ _ hok h1.scope
      exact ⟨sc', by simpa using h1.trans h2, htl⟩
    | cont =>
      unfold visIfLoopBody
      unfold IfLoopStmt.anaOKL at hok
      dsimp only
      have h1 : VS s ((forbidden rc bc cc s).push (.jumpTo lb)) sc [] :=
        h0.silent (vals_push _ _) (push_fields _ _).2 (ext_push_none _ _ rfl)
      obtain ⟨sc', h2, htl⟩ := v_ifLoopBody hg tl lEnd lb le rc bc true _ _ hok h1.scope
      exact ⟨sc', by simpa using h1.trans h2, htl⟩
theorem v_loopBody (hg : GlobRel g rg) : ∀ (l : List LoopStmt) (lb le : Name) (rc bc cc : Bool) (s : St) (sc : Scope),
    LoopStmt.anaOKL l = true → ScopeRel s sc →
    ∃ sc', VS s (loopBody g l lb le rc bc cc s).1 sc' (visLoopBody rg l sc) ∧ sc'.tail = sc.tail
  | [], lb, le, rc, bc, cc, s, sc, _, hs => by
    unfold loopBody visLoopBody
    exact ⟨sc, VS.refl hs, rfl⟩
  | st :: tl, lb, le, rc, bc, cc, s, sc, hok, hs => by
    unfold loopBody
    dsimp only
    have h0 := v_forbidden rc bc cc s sc hs
    cases st with
    | letB b =>
      unfold visLoopBody
      unfold LoopStmt.anaOKL at hok
      dsimp only
      have h1 := h0.trans (v_let hg b _ sc h0.scope)
      obtain ⟨sc', h2, htl⟩ := v_loopBody hg tl lb le rc bc cc _ _ hok h1.scope
      exact ⟨sc', by simpa using h1.trans h2, by rw [htl, visLetSc_tail]⟩
    | bind b =>
      unfold visLoopBody
      unfold LoopStmt.anaOKL at hok
      dsimp only
      have h1 := h0.trans (v_bind hg b _ sc h0.scope)
      obtain ⟨sc', h2, htl⟩ := v_loopBody hg tl lb le rc bc cc _ _ hok h1.scope
      exact ⟨sc', by simpa using h1.trans h2, htl⟩
    | call c =>
      unfold visLoopBody
      unfold LoopStmt.anaOKL at hok
      dsimp only
      have h1 := h0.trans (v_callS hg c _ sc h0.scope)
      obtain ⟨sc', h2, htl⟩ := v_loopBody hg tl lb le rc bc cc _ _ hok h1.scope
      exact ⟨sc', by simpa using h1.trans h2, htl⟩
    | ifS i =>
      unfold visLoopBody
      unfold LoopStmt.anaOKL at hok
      simp only [Bool.and_eq_true] at hok
      dsimp only
      have h1 := h0.trans (v_ifCondition hg i none (some (lb, le)) _ sc (by simpa using hok.1) h0.scope)
      obtain ⟨sc', h2, htl⟩ := v_loopBody hg tl lb le rc bc cc _ _ hok.2 h1.scope
      exact ⟨sc', by simpa using h1.trans h2, htl⟩
    | loop b =>
      unfold visLoopBody
      unfold LoopStmt.anaOKL at hok
      simp only [Bool.and_eq_true] at hok
      dsimp only
      have h1 := h0.trans (v_loopWrap (loopBody g b) (visLoopBody rg b)
        (fun lb le rc bc cc s sc hs => v_loopBody hg b lb le rc bc cc s sc hok.1 hs) _ sc h0.scope)
      obtain ⟨sc', h2, htl⟩ := v_loopBody hg tl lb le rc bc cc _ _ hok.2 h1.scope
      exact ⟨sc', by simpa using h1.trans h2, htl⟩
    | ret e =>
      unfold visLoopBody
      unfold LoopStmt.anaOKL at hok
      dsimp only
      have h1 := h0.trans (v_nestedRet hg e _ sc h0.scope)
      generalize nestedReturn g e (forbidden rc bc cc s) = q at h1 ⊢
      obtain ⟨s1, r⟩ := q
      dsimp only at h1 ⊢
      obtain ⟨sc', h2, htl⟩ := v_loopBody hg tl lb le (rc || r) bc cc s1 _ hok h1.scope
      exact ⟨sc', by simpa using h1.trans h2, htl⟩
    | brk =>
      unfold visLoopBody
      unfold LoopStmt.anaOKL at hok
      dsimp only
      have h1 : VS s ((forbidden rc bc cc s).push (.jumpTo le)) sc [] :=
        h0.silent (vals_push _ _) (push_fields _ _).2 (ext_push_none _ _ rfl)
      obtain ⟨sc', h2, htl⟩ := v_loopBody hg tl lb le rc true cc _ _ hok h1.scope
      exact ⟨sc', by simpa using h1.trans h2, htl⟩
    | cont =>
      unfold visLoopBody
      unfold LoopStmt.anaOKL at hok
      dsimp only
      have h1 : VS s ((forbidden rc bc cc s).push (.jumpTo lb)) sc [] :=
        h0.silent (vals_push _ _) (push_fields _ _).2 (ext_push_none _ _ rfl)
      obtain ⟨sc', h2, htl⟩ := v_loopBody hg tl lb le rc bc true _ _ hok h1.scope
      exact ⟨sc', by simpa using h1.trans h2, htl⟩
end

/-! ### Function level -/

theorem v_fnReturn (hg : GlobRel g rg) (resTy : Ty) (e : Expr) (rc : Bool) (s : St) (sc : Scope) (hs : ScopeRel s sc) :
    ScopeRel (fnReturn g resTy e rc s).1 sc ∧ (fnReturn g resTy e rc s).1.ext = s.ext ++ (visE rg sc e).1 := by
  obtain ⟨h1, h2, _⟩ := vsim_exprM hg sc e s hs
  unfold fnReturn
  cases hm : exprM g e s with
  | mk res s1 =>
    rw [hm] at h1 h2
    dsimp only at h1 h2 ⊢
    have h0 : (if rc = true then s1.addErr .returnAlreadyCalled e.show 1 0 else s1).vals = s.vals ∧
        (if rc = true then s1.addErr .returnAlreadyCalled e.show 1 0 else s1).ext = s.ext ++ (visE rg sc e).1 := by
      cases rc
      · exact ⟨h1, h2⟩
      · exact ⟨h1, h2⟩
    generalize (if rc = true then s1.addErr .returnAlreadyCalled e.show 1 0 else s1) = s2 at h0 ⊢
    cases res with
    | none => exact ⟨by unfold ScopeRel; rw [h0.1]; exact hs, h0.2⟩
    | some r =>
      dsimp only
      unfold fnReturnTail
      dsimp only
      have h3 : (checkTypeExists g r.ty e.show s2).2.vals = s.vals ∧
          (checkTypeExists g r.ty e.show s2).2.ext = s.ext ++ (visE rg sc e).1 := by
        unfold checkTypeExists
        split
        · exact h0
        · split
          · exact h0
          · exact h0
      generalize (checkTypeExists g r.ty e.show s2).2 = s3 at h3 ⊢
      have h4 : (if resTy ≠ r.ty then s3.addErr .wrongReturnType e.show 1 0 else s3).vals = s.vals ∧
          (if resTy ≠ r.ty then s3.addErr .wrongReturnType e.show 1 0 else s3).ext = s.ext ++ (visE rg sc e).1 := by
        split
        · exact h3
        · exact h3
      generalize (if resTy ≠ r.ty then s3.addErr .wrongReturnType e.show 1 0 else s3) = s4 at h4 ⊢
      split
      · exact ⟨by unfold ScopeRel; rw [vals_push, h4.1]; exact hs, by rw [ext_push_none _ _ rfl]; exact h4.2⟩
      · exact ⟨by unfold ScopeRel; rw [vals_push, h4.1]; exact hs, by rw [ext_push_none _ _ rfl]; exact h4.2⟩

theorem v_body (hg : GlobRel g rg) (resTy : Ty) : ∀ (l : List BodyStmt) (rc : Bool) (s : St) (sc : Scope),
    BodyStmt.anaOKL l = true → ScopeRel s sc → (bodyStmts g resTy l rc s).1.ext = s.ext ++ visBody rg l sc
  | [], _, s, sc, _, _ => by unfold bodyStmts visBody; simp
  | st :: tl, rc, s, sc, hok, hs => by
    unfold bodyStmts
    dsimp only
    have h0 := v_forbidden rc false false s sc hs
    cases st with
    | letB b =>
      unfold visBody
      unfold BodyStmt.anaOKL at hok
      dsimp only
      have h1 := h0.trans (v_let hg b _ sc h0.scope)
      rw [v_body hg resTy tl rc _ _ hok h1.scope, h1.ext]; simp
    | bind b =>
      unfold visBody
      unfold BodyStmt.anaOKL at hok
      dsimp only
      have h1 := h0.trans (v_bind hg b _ sc h0.scope)
      rw [v_body hg resTy tl rc _ _ hok h1.scope, h1.ext]; simp
    | call c =>
      unfold visBody
      unfold BodyStmt.anaOKL at hok
      dsimp only
      have h1 := h0.trans (v_callS hg c _ sc h0.scope)
      rw [v_body hg resTy tl rc _ _ hok h1.scope, h1.ext]; simp
    | ifS i =>
      unfold visBody
      unfold BodyStmt.anaOKL at hok
      simp only [Bool.and_eq_true] at hok
      dsimp only
      have h1 := h0.trans (v_ifCondition hg i none none _ sc (by simpa using hok.1) h0.scope)
      rw [v_body hg resTy tl rc _ _ hok.2 h1.scope, h1.ext]; simp
    | loop b =>
      unfold visBody
      unfold BodyStmt.anaOKL at hok
      simp only [Bool.and_eq_true] at hok
      dsimp only
      have h1 := h0.trans (v_loopWrap (loopBody g b) (visLoopBody rg b)
        (fun lb le rc bc cc s sc hs => v_loopBody hg b lb le rc bc cc s sc hok.1 hs) _ sc h0.scope)
      rw [v_body hg resTy tl rc _ _ hok.2 h1.scope, h1.ext]; simp
    | expr e =>
      unfold visBody
      unfold BodyStmt.anaOKL at hok
      dsimp only
      obtain ⟨a1, a2⟩ := v_fnReturn hg resTy e rc _ sc h0.scope
      generalize fnReturn g resTy e rc (forbidden rc false false s) = q at a1 a2 ⊢
      obtain ⟨s1, r⟩ := q
      dsimp only at a1 a2 ⊢
      rw [v_body hg resTy tl r s1 _ hok a1, a2, h0.ext]; simp
    | ret e =>
      unfold visBody
      unfold BodyStmt.anaOKL at hok
      dsimp only
      obtain ⟨a1, a2⟩ := v_fnReturn hg resTy e rc _ sc h0.scope
      generalize fnReturn g resTy e rc (forbidden rc false false s) = q at a1 a2 ⊢
      obtain ⟨s1, r⟩ := q
      dsimp only at a1 a2 ⊢
      rw [v_body hg resTy tl r s1 _ hok a1, a2, h0.ext]; simp

theorem v_initParams : ∀ (ps : List (Name × ATy)) (s : St) (rs : RS), ScopeRel s rs.scope →
    ScopeRel (initParams ps s) (checkParams ps rs).scope ∧ (initParams ps s).ext = s.ext
  | [], s, rs, hs => by unfold initParams checkParams; exact ⟨hs, rfl⟩
  | (n, t) :: rest, s, rs, hs => by
    unfold initParams checkParams
    have hl := scopeRel_lookup hs n
    cases hv : s.lookupValue n with
    | some v =>
      rw [hv] at hl
      simp only [Option.map_some] at hl
      rw [← hl]
      exact ⟨hs, rfl⟩
    | none =>
      rw [hv] at hl
      simp only [Option.map_none] at hl
      rw [← hl]
      dsimp only
      have hs1 : ScopeRel (((s.insertValue n ⟨n, t.toTy, false, false, false⟩).registerInner n).push
            (.fnArg ⟨n, t.toTy, false, false, false⟩ ⟨n, t.toTy⟩)) (rs.scope.declare n t.toTy false) := by
        unfold ScopeRel
        rw [vals_push, vals_registerInner]
        obtain ⟨x, xs, hx, hins⟩ := vals_insertValue n ⟨n, t.toTy, false, false, false⟩ s
        rw [hins]
        have hrel : ValsRel (x :: xs) rs.scope := by rw [← hx]; exact hs
        exact valsRel_declare hrel n ⟨n, t.toTy, false, false, false⟩
      obtain ⟨i1, i2⟩ := v_initParams rest _ { rs with scope := rs.scope.declare n t.toTy false } hs1
      exact ⟨i1, by rw [i2, ext_push_none _ _ rfl, ext_registerInner, ext_insertValue]⟩

theorem scopeRel_init' : ScopeRel St.init [[]] := by
  unfold ScopeRel St.vals St.frames
  exact ValsRel.cons (fun n => by simp [St.init, Block.fresh, assocGet, rlookup]) ValsRel.nil

/-- **the visit theorem** — for every function whose analysis does not hit the documented panic, the
`ExtendedExpression` instructions of the root stack are the leaves `visFn` lists, in order -/
theorem visit_function (hg : GlobRel g rg) (f : FnDecl) (hok : BodyStmt.anaOKL f.body = true) :
    (functionBody g f).root.context.filterMap Instr.extTag = visFn rg f := by
  show (functionBody g f).ext = _
  unfold functionBody visFn
  dsimp only
  obtain ⟨p1, p2⟩ := v_initParams f.params St.init { scope := [[]], viols := [] } scopeRel_init'
  have hb := v_body (rg := rg) hg f.result.toTy f.body false (initParams f.params St.init) _ hok p1
  generalize bodyStmts g f.result.toTy f.body false (initParams f.params St.init) = q at hb ⊢
  obtain ⟨s2, rc⟩ := q
  dsimp only at hb ⊢
  have : (if rc = true then s2 else s2.addErr .returnNotFound [] 1 0).ext = s2.ext := by
    cases rc <;> rfl
  rw [this, hb, p2]
  simp [St.ext, St.init, Block.fresh]

end SemVerif
