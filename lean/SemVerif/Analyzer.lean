import SemVerif.BlockState
import SemVerif.Fold
import SemVerif.Generated
/-!
# Analyzer — `src/semantic.rs`, function for function

Function bodies see the global tables only through lookups (`Globals`).  Every function is
total and structurally recursive; a Rust panic is the `panic` field of the state.
-/
namespace SemVerif

/-- what a function body can see of `self.global` -/
structure Globals where
  types : Name → Option Ty
  consts : Name → Option ConstSem
  funcs : Name → Option Func

abbrev EvalM := St → Option ExprResult × St

/-- panic sites of the domain -/
def panicLoopLabel : Nat := 1     -- `label_loop.expect("loop label should be set")`
def panicArgIndex : Nat := 2      -- `func_data.parameters[i]` (unreachable after the F1 repair)

/-- `check_type_exists` as used inside bodies -/
def checkTypeExists (g : Globals) (t : Ty) (valName : Name) (s : St) : Bool × St :=
  match t with
  | .prim _ => (true, s)
  | _ =>
    match g.types t.show with
    | some _ => (true, s)
    | none => (false, s.addErr .typeNotFound valName 1 0)

/-- `ExpressionValue::ValueName` -/
def evalVar (g : Globals) (n : Name) : EvalM := fun s =>
  let v := s.lookupValue n
  let s := s.incReg
  let r := s.curReg
  match v with
  | some val => (some ⟨val.ty, .reg r⟩, s.push (.exprValue val r))
  | none =>
    match g.consts n with
    | some c => (some ⟨c.ty, .reg r⟩, s.push (.exprConst c r))
    | none => (none, s.addErr .valueNotFound n 1 0)

/-- `ExpressionValue::PrimitiveValue` -/
def evalLit (v : PrimVal) : EvalM := fun s => (some ⟨.prim v.ty, .prim v⟩, s)

/-- the argument loop of `function_call` -/
def evalArgs : List EvalM → List Ty → St → Option (List ExprResult) × St
  | [], _, s => (some [], s)
  | m :: ms, tys, s =>
    match m s with
    | (none, s) => (none, s)
    | (some r, s) =>
      match tys with
      | [] => (none, s.setPanic panicArgIndex)
      | t :: ts =>
        if r.ty ≠ t then
          evalArgs ms ts (s.addErr .functionParameterTypeWrong r.ty.show 1 0)
        else
          match evalArgs ms ts s with
          | (none, s) => (none, s)
          | (some rs, s) => (some (r :: rs), s)

/-- `function_call` -/
def functionCall (g : Globals) (name : Name) (args : List EvalM) (s : St) : Option Ty × St :=
  match g.funcs name with
  | none => (none, s.addErr .functionNotFound name 1 0)
  | some fd =>
    if fd.params.length < args.length then
      (none, s.addErr .functionParameterTypeWrong name 1 0)
    else
      match evalArgs args fd.params s with
      | (none, s) => (none, s)
      | (some params, s) =>
        let s := s.incReg
        (some fd.ty, s.push (.call fd params s.curReg))

/-- `ExpressionValue::FunctionCall` -/
def evalCall (g : Globals) (name : Name) (args : List EvalM) : EvalM := fun s =>
  match functionCall g name args s with
  | (none, s) => (none, s)
  | (some ty, s) =>
    let s := s.incReg
    (some ⟨ty, .reg s.curReg⟩, s)

/-- `ExpressionValue::StructValue` -/
def evalField (g : Globals) (vn attr : Name) : EvalM := fun s =>
  match s.lookupValue vn with
  | none => (none, s.addErr .valueNotFound vn 1 0)
  | some val =>
    match val.ty with
    | .struct sn attrs =>
      match g.types sn with
      | none => (none, s.addErr .typeNotFound vn 1 0)
      | some regTy =>
        if Ty.struct sn attrs ≠ regTy then (none, s.addErr .wrongExpressionType vn 1 0)
        else
          match attrs.lookup attr with
          | none => (none, s.addErr .valueNotStructField vn 1 0)
          | some (idx, aty) =>
            let s := s.incReg
            let s := s.push (.exprStructValue val idx s.curReg)
            let s := s.incReg
            (some ⟨aty, .reg s.curReg⟩, s)
    | _ => (none, s.addErr .valueNotStruct vn 1 0)

/-- the harness `ExtendedExpression`: allocate a register, push one custom instruction, return a
register result of the leaf's type -/
def evalExt (tag : Nat) (ty : PrimTy) : EvalM := fun s =>
  let s := s.incReg
  (some ⟨.prim ty, .reg s.curReg⟩, s.push (.ext tag ty s.curReg))

/-- `expression_operation` on a folded pair: left operand, right operand, type check, operation -/
def evalPair (l : EvalM) (o : Op) (r : EvalM) : EvalM := fun s =>
  match l s with
  | (none, s) => (none, s)
  | (some lv, s) =>
    match r s with
    | (none, s) => (none, s)
    | (some rv, s) =>
      if lv.ty ≠ rv.ty then (none, s.addErr .wrongExpressionType lv.ty.show 1 0)
      else
        let s := s.incReg
        (some ⟨rv.ty, .reg s.curReg⟩, s.push (.exprOp o lv rv s.curReg))

/-- evaluation of a folded expression -/
def runW : W EvalM → EvalM
  | .atom m => m
  | .pair l o r => evalPair (runW l) o (runW r)

mutual
/-- `expression`: fold by priority, then evaluate -/
def exprM (g : Globals) : Expr → EvalM
  | .mk v rest => runW (foldChain Generated.prio (valM g v) (restM g rest))
def restM (g : Globals) : Option (Op × Expr) → List (Op × EvalM)
  | none => []
  | some (o, .mk v rest) => (o, valM g v) :: restM g rest
def valM (g : Globals) : ExprValue → EvalM
  | .var n => evalVar g n
  | .lit v => evalLit v
  | .call f args => evalCall g f (argsM g args)
  | .field v a => evalField g v a
  | .sub e => exprM g e
  | .ext tag ty => evalExt tag ty
def argsM (g : Globals) : List Expr → List EvalM
  | [] => []
  | e :: es => exprM g e :: argsM g es
end

/-- the internal name of a new `let`: probe from the source name when no value of that name is
visible, otherwise from the visible value's internal name -/
def letInnerName (s : St) (name : Name) : Name :=
  match s.lookupValue name with
  | none => s.probeInner name
  | some val => s.probeInner val.innerName

/-- `let_binding` -/
def letBinding (g : Globals) (b : LetB) (s : St) : St :=
  match exprM g b.value s with
  | (none, s) => s
  | (some r, s) =>
    if letTypeBad b.ty r.ty then s.addErr .wrongLetType b.name 1 0
    else
      let inner := letInnerName s b.name
      let value : Value := ⟨inner, r.ty, b.mutable, false, false⟩
      ((s.insertValue b.name value).registerInner inner).push (.letBinding value r)

/-- `binding` -/
def binding (g : Globals) (b : Bind) (s : St) : St :=
  match exprM g b.value s with
  | (none, s) => s
  | (some r, s) =>
    match s.lookupValue b.name with
    | none => s.addErr .valueNotFound b.name 1 0
    | some value =>
      if !value.mutable then s.addErr .valueIsNotMutable b.name 1 0
      else if value.ty ≠ r.ty then s.addErr .wrongExpressionType b.name 1 0
      else s.push (.binding value r)

/-- `function_call` as a statement -/
def callStmt (g : Globals) (c : CallS) (s : St) : St :=
  (functionCall g c.name (argsM g c.args) s).2

/-- `condition_expression` -/
def condExprM (g : Globals) : LogicCond → St → Nat × St
  | .mk c right, s =>
    let (l, s) := exprM g c.left s
    let (r, s) := exprM g c.right s
    match l, r with
    | some l, some r =>
      if l.ty ≠ r.ty then (s.curReg, s.addErr .conditionExpressionWrongType l.ty.show 1 0)
      else if !l.ty.isPrim then (s.curReg, s.addErr .conditionExpressionNotSupported l.ty.show 1 0)
      else
        let s := s.incReg
        let s := s.push (.condExpr l r c.cond s.curReg)
        match right with
        | none => (s.curReg, s)
        | some (lg, rc) =>
          let leftReg := s.curReg
          let (rightReg, s) := condExprM g rc s
          let s := s.incReg
          let s := s.push (.logicCond lg leftReg rightReg s.curReg)
          (s.curReg, s)
    | _, _ => (s.curReg, s.addErr .conditionIsEmpty wildcard 1 0)

/-- `if_condition_calculation` -/
def ifCondCalc (g : Globals) (c : IfCond) (lBegin lElse lEnd : Name) (isElse : Bool) (s : St) : St :=
  let target := if isElse then lElse else lEnd
  match c with
  | .single e =>
    match exprM g e s with
    | (none, s) => s
    | (some r, s) => s.push (.ifCondExpr r lBegin target)
  | .logic lc =>
    let (reg, s) := condExprM g lc s
    s.push (.ifCondLogic lBegin target reg)

/-- a `Return` inside an if/else/loop body -/
def nestedReturn (g : Globals) (e : Expr) (s : St) : St × Bool :=
  match exprM g e s with
  | (none, s) => (s, false)
  | (some r, s) => ((s.push (.jumpFnReturn r)).setReturn, true)

/-- the three independent "code after …" diagnostics -/
def forbidden (rc bc cc : Bool) (s : St) : St :=
  let s := if rc then s.addErr .forbiddenCodeAfterReturnDeprecated wildcard 1 1 else s
  let s := if bc then s.addErr .forbiddenCodeAfterBreakDeprecated wildcard 1 1 else s
  if cc then s.addErr .forbiddenCodeAfterContinueDeprecated wildcard 1 1 else s

/-- the child block and the three label probes of `if_condition` -/
def ifLabels (labelEnd : Option Name) (s : St) : Name × Name × Name × St :=
  let s := s.enter
  let (lBegin, s) := s.probeLabel "if_begin".toList
  let (lElse, s) := s.probeLabel "if_else".toList
  let (lEnd, s) := match labelEnd with
    | some l => (l, s)
    | none => s.probeLabel "if_end".toList
  (lBegin, lElse, lEnd, s)

/-- prologue of `if_condition` up to and including `set_label(if_begin)` -/
def ifPrologue (g : Globals) (cond : IfCond) (dup isElse : Bool) (labelEnd : Option Name) (s : St) :
    Name × Name × St :=
  let s := if dup then s.addErr .ifElseDuplicated "if-condition".toList 1 0 else s
  let (lBegin, lElse, lEnd, s) := ifLabels labelEnd s
  let s := ifCondCalc g cond lBegin lElse lEnd isElse s
  (lElse, lEnd, s.push (.setLabel lBegin))

/-- after the if-body: jump to the end unless the body returned, else label, suspend the block -/
def ifAfterBody (isElse r : Bool) (lElse lEnd : Name) (s : St) : Nat × St :=
  let s := if r then s else s.push (.jumpTo lEnd)
  let s := if isElse then s.push (.setLabel lElse) else s
  s.leave

/-- after the else-body (its block is still current) -/
def ifAfterElse (k : Nat) (r : Bool) (lEnd : Name) (s : St) : St :=
  let s := s.leave.2
  if r then s else s.pushVia k (.jumpTo lEnd)

/-- epilogue of `if_condition` -/
def ifEpilogue (k : Nat) (labelEnd : Option Name) (lEnd : Name) (s : St) : St :=
  if labelEnd.isSome then s else s.pushVia k (.setLabel lEnd)

/-- prologue of `loop_statement` -/
def loopPrologue (s : St) : Name × Name × St :=
  let s := s.enter
  let (lb, s) := s.probeLabel "loop_begin".toList
  let (le, s) := s.probeLabel "loop_end".toList
  (lb, le, (s.push (.jumpTo lb)).push (.setLabel lb))

/-- epilogue of `loop_statement` -/
def loopEpilogue (r : Bool) (lb le : Name) (s : St) : St :=
  let s := if r then s else (s.push (.jumpTo lb)).push (.setLabel le)
  s.leave.2

/-- `loop_statement` around its statement loop `k` (prologue, body, epilogue) -/
def loopWrap (k : Name → Name → Bool → Bool → Bool → St → St × Bool) (s : St) : St :=
  let (lb, le, s) := loopPrologue s
  let (s, r) := k lb le false false false s
  loopEpilogue r lb le s

mutual
/-- `if_condition` -/
def ifCondition (g : Globals) : IfStmt → Option Name → Option (Name × Name) → St → St
  | .mk cond body els elif, labelEnd, labelLoop, s =>
    let isElse := els.isSome || elif.isSome
    let (lElse, lEnd, s) := ifPrologue g cond (els.isSome && elif.isSome) isElse labelEnd s
    let (s, r) := ifBodies g body lEnd labelLoop s
    let (k, s) := ifAfterBody isElse r lElse lEnd s
    let s := match els, elif with
      | some eb, _ =>
        let (s, r) := ifBodies g eb lEnd labelLoop s.enter
        ifAfterElse k r lEnd s
      | none, some ei => ifCondition g ei (some lEnd) labelLoop s
      | none, none => s
    ifEpilogue k labelEnd lEnd s
termination_by structural x => x
/-- the `match &data.body` of `if_condition` (with the `expect`) -/
def ifBodies (g : Globals) : IfBodies → Name → Option (Name × Name) → St → St × Bool
  | .ifb l, lEnd, labelLoop, s => ifBody g l lEnd labelLoop false s
  | .loopb l, lEnd, some (lb, le), s => ifLoopBody g l lEnd lb le false false false s
  | .loopb _, _, none, s => (s.setPanic panicLoopLabel, false)
termination_by structural x => x
/-- `if_condition_body` -/
def ifBody (g : Globals) : List IfBodyStmt → Name → Option (Name × Name) → Bool → St → St × Bool
  | [], _, _, rc, s => (s, rc)
  | st :: tl, lEnd, ll, rc, s =>
    let s := forbidden rc false false s
    match st with
    | .letB b => ifBody g tl lEnd ll rc (letBinding g b s)
    | .bind b => ifBody g tl lEnd ll rc (binding g b s)
    | .call c => ifBody g tl lEnd ll rc (callStmt g c s)
    | .ifS i => ifBody g tl lEnd ll rc (ifCondition g i (some lEnd) ll s)
    | .loop b => ifBody g tl lEnd ll rc (loopWrap (loopBody g b) s)
    | .ret e =>
      let (s, r) := nestedReturn g e s
      ifBody g tl lEnd ll (rc || r) s
termination_by structural x => x
/-- `if_condition_loop_body` -/
def ifLoopBody (g : Globals) : List IfLoopStmt → Name → Name → Name → Bool → Bool → Bool → St → St × Bool
  | [], _, _, _, rc, _, _, s => (s, rc)
  | st :: tl, lEnd, lb, le, rc, bc, cc, s =>
    let s := forbidden rc bc cc s
    match st with
    | .letB b => ifLoopBody g tl lEnd lb le rc bc cc (letBinding g b s)
    | .bind b => ifLoopBody g tl lEnd lb le rc bc cc (binding g b s)
    | .call c => ifLoopBody g tl lEnd lb le rc bc cc (callStmt g c s)
    | .ifS i => ifLoopBody g tl lEnd lb le rc bc cc (ifCondition g i (some lEnd) (some (lb, le)) s)
    | .loop b => ifLoopBody g tl lEnd lb le rc bc cc (loopWrap (loopBody g b) s)
    | .ret e =>
      let (s, r) := nestedReturn g e s
      ifLoopBody g tl lEnd lb le (rc || r) bc cc s
    | .cont => ifLoopBody g tl lEnd lb le rc bc true (s.push (.jumpTo lb))
    | .brk => ifLoopBody g tl lEnd lb le rc true cc (s.push (.jumpTo le))
termination_by structural x => x
/-- the `for body in data` of `loop_statement` -/
def loopBody (g : Globals) : List LoopStmt → Name → Name → Bool → Bool → Bool → St → St × Bool
  | [], _, _, rc, _, _, s => (s, rc)
  | st :: tl, lb, le, rc, bc, cc, s =>
    let s := forbidden rc bc cc s
    match st with
    | .letB b => loopBody g tl lb le rc bc cc (letBinding g b s)
    | .bind b => loopBody g tl lb le rc bc cc (binding g b s)
    | .call c => loopBody g tl lb le rc bc cc (callStmt g c s)
    | .ifS i => loopBody g tl lb le rc bc cc (ifCondition g i none (some (lb, le)) s)
    | .loop b => loopBody g tl lb le rc bc cc (loopWrap (loopBody g b) s)
    | .ret e =>
      let (s, r) := nestedReturn g e s
      loopBody g tl lb le (rc || r) bc cc s
    | .brk => loopBody g tl lb le rc true cc (s.push (.jumpTo le))
    | .cont => loopBody g tl lb le rc bc true (s.push (.jumpTo lb))
termination_by structural x => x
end

/-- `loop_statement` -/
def loopStmt (g : Globals) (body : List LoopStmt) (s : St) : St := loopWrap (loopBody g body) s

/-- `init_func_params` (the first duplicate stops the registration) -/
def initParams : List (Name × ATy) → St → St
  | [], s => s
  | (n, t) :: rest, s =>
    match s.lookupValue n with
    | some _ => s.addErr .functionArgumentNameDuplicated n 1 1
    | none =>
      let value : Value := ⟨n, t.toTy, false, false, false⟩
      initParams rest (((s.insertValue n value).registerInner n).push (.fnArg value ⟨n, t.toTy⟩))

/-- the successful part of a function-level return: type existence, return type, instruction -/
def fnReturnTail (g : Globals) (resTy : Ty) (e : Expr) (r : ExprResult) (s : St) : St :=
  let s := (checkTypeExists g r.ty e.show s).2
  let s := if resTy ≠ r.ty then s.addErr .wrongReturnType e.show 1 0 else s
  if s.cur.manualReturn then s.push (.fnReturnWithLabel r) else s.push (.fnReturn r)

/-- function-level `Expression` / `Return` statement -/
def fnReturn (g : Globals) (resTy : Ty) (e : Expr) (rc : Bool) (s : St) : St × Bool :=
  let (res, s) := exprM g e s
  let s := if rc then s.addErr .returnAlreadyCalled e.show 1 0 else s
  match res with
  | none => (s, rc)
  | some r => (fnReturnTail g resTy e r s, true)

/-- the `for body in &data.body` of `function_body` -/
def bodyStmts (g : Globals) (resTy : Ty) : List BodyStmt → Bool → St → St × Bool
  | [], rc, s => (s, rc)
  | st :: tl, rc, s =>
    let s := forbidden rc false false s
    match st with
    | .letB b => bodyStmts g resTy tl rc (letBinding g b s)
    | .bind b => bodyStmts g resTy tl rc (binding g b s)
    | .call c => bodyStmts g resTy tl rc (callStmt g c s)
    | .ifS i => bodyStmts g resTy tl rc (ifCondition g i none none s)
    | .loop b => bodyStmts g resTy tl rc (loopWrap (loopBody g b) s)
    | .expr e | .ret e =>
      let (s, rc) := fnReturn g resTy e rc s
      bodyStmts g resTy tl rc s

/-- `function_body` for one function, from a fresh block state and an empty error list -/
def functionBody (g : Globals) (f : FnDecl) : St :=
  let s := initParams f.params St.init
  let (s, rc) := bodyStmts g f.result.toTy f.body false s
  if rc then s else s.addErr .returnNotFound [] 1 0

/-! ## Declaration passes -/

/-- `GlobalState` plus the error list -/
structure GState where
  types : List (Name × Ty)
  consts : List (Name × ConstSem)
  funcs : List (Name × Func)
  context : List Instr
  errors : List Err
  deriving Repr, Inhabited

def GState.init : GState := { types := [], consts := [], funcs := [], context := [], errors := [] }

def GState.addErr (k : ErrKind) (v : Name) (gs : GState) : GState :=
  { gs with errors := gs.errors ++ [⟨k, v, 1, 0⟩] }

/-- `check_type_exists` in the declaration passes -/
def GState.typeExists (gs : GState) (t : Ty) : Bool :=
  match t with
  | .prim _ => true
  | _ => (assocGet t.show gs.types).isSome

/-- `types` -/
def declType (d : StructDecl) (gs : GState) : GState :=
  if (assocGet d.name gs.types).isSome then gs.addErr .typeAlreadyExist d.name
  else
    let attrs := attrsToMap d.attrs 0 .nil
    { gs with types := assocInsert d.name (.struct d.name attrs) gs.types,
              context := gs.context ++ [.types d.name attrs] }

/-- `check_constant_value_expression` on `data.constant_value.operation`: every operand after the
first one, left to right; stops at the first unknown constant -/
def checkConstTail (gs : GState) : Option (Op × CExpr) → Option Name
  | none => none
  | some (_, e) => go e
where
  go : CExpr → Option Name
    | .last (.const n) => if (assocGet n gs.consts).isSome then none else some n
    | .last (.val _) => none
    | .cons (.const n) _ rest => if (assocGet n gs.consts).isSome then go rest else some n
    | .cons (.val _) _ rest => go rest

def CExpr.operation : CExpr → Option (Op × CExpr)
  | .last _ => none
  | .cons _ o r => some (o, r)

/-- `constant` -/
def declConst (d : ConstDecl) (gs : GState) : GState :=
  if (assocGet d.name gs.consts).isSome then gs.addErr .constantAlreadyExist d.name
  else
    match checkConstTail gs d.value.operation with
    | some n => gs.addErr .constantNotFound n
    | none =>
      let c : ConstSem := ⟨d.name, d.ty.toTy, d.value⟩
      if !gs.typeExists c.ty then gs.addErr .typeNotFound d.name
      else { gs with consts := assocInsert d.name c gs.consts, context := gs.context ++ [.const c] }

/-- the parameter loop of `function_declaration` with its short circuit: the first unknown type
is reported, nothing after it is checked -/
def checkParamTypes (gs : GState) : List (Name × ATy) → Option Name
  | [] => none
  | (n, t) :: rest => if gs.typeExists t.toTy then checkParamTypes gs rest else some n

/-- `function_declaration` -/
def declFn (f : FnDecl) (gs : GState) : GState :=
  if (assocGet f.name gs.funcs).isSome then gs.addErr .functionAlreadyExist f.name
  else if !gs.typeExists f.result.toTy then gs.addErr .typeNotFound f.name
  else
    match checkParamTypes gs f.params with
    | some n => gs.addErr .typeNotFound n
    | none =>
      let fd : Func := ⟨f.name, f.result.toTy, f.params.map fun p => p.2.toTy⟩
      { gs with funcs := assocInsert f.name fd gs.funcs,
                context := gs.context ++ [.fnDecl f.name (f.params.map fun p => ⟨p.1, p.2.toTy⟩) f.result.toTy] }

def pass1 : Program → GState → GState
  | [], gs => gs
  | .types d :: rest, gs => pass1 rest (declType d gs)
  | _ :: rest, gs => pass1 rest gs

def pass2 : Program → GState → GState
  | [], gs => gs
  | .const d :: rest, gs => pass2 rest (declConst d gs)
  | .fn f :: rest, gs => pass2 rest (declFn f gs)
  | _ :: rest, gs => pass2 rest gs

def GState.globals (gs : GState) : Globals :=
  { types := fun n => assocGet n gs.types, consts := fun n => assocGet n gs.consts,
    funcs := fun n => assocGet n gs.funcs }

def Program.fns : Program → List FnDecl
  | [] => []
  | .fn f :: rest => f :: Program.fns rest
  | _ :: rest => Program.fns rest

/-- what `State::run` leaves behind -/
structure Result where
  panic : Option Nat
  errors : List Err
  types : List (Name × Ty)
  consts : List (Name × ConstSem)
  funcs : List (Name × Func)
  gcontext : List Instr
  roots : List Block
  deriving Repr, Inhabited

def firstPanic : List St → Option Nat
  | [] => none
  | s :: rest => match s.panic with
    | some p => some p
    | none => firstPanic rest

/-- `State::run` -/
def run (p : Program) : Result :=
  let gs := pass2 p (pass1 p GState.init)
  let bodies := p.fns.map (functionBody gs.globals)
  { panic := firstPanic bodies,
    errors := gs.errors ++ (bodies.map (·.errors)).flatten,
    types := gs.types, consts := gs.consts, funcs := gs.funcs, gcontext := gs.context,
    roots := bodies.map (·.root) }

end SemVerif
