import SemVerif.Analyzer
/-!
# Wire — line protocol between the Rust harness and the Lean driver

S-expressions.  `decProgram` reads a program, `decDump` reads the canonical dump of the
implementation into the model's `Result` type, `printResult` prints a model result in exactly
the format of the Rust dump (maps sorted by key, sets sorted).  Not part of the proved model.
-/
namespace SemVerif

inductive Sexp where
  | atom (s : String)
  | list (l : List Sexp)
  deriving Inhabited, Repr

namespace Sexp

private def closeAtom (cur : List Char) (top : List Sexp) : List Sexp :=
  if cur.isEmpty then top else .atom (String.ofList cur.reverse) :: top

/-- tokenise and build in one pass; `stack` holds the reversed element lists of the open lists -/
def parseChars : List Char → List Char → List Sexp → List (List Sexp) → Option Sexp
  | [], cur, top, [] =>
    match (closeAtom cur top) with
    | [x] => some x
    | _ => none
  | [], _, _, _ :: _ => none
  | c :: cs, cur, top, stack =>
    if c = '(' then parseChars cs [] [] (closeAtom cur top :: stack)
    else if c = ')' then
      match stack with
      | [] => none
      | outer :: rest => parseChars cs [] (.list (closeAtom cur top).reverse :: outer) rest
    else if c = ' ' ∨ c = '\n' ∨ c = '\r' ∨ c = '\t' then parseChars cs [] (closeAtom cur top) stack
    else parseChars cs (c :: cur) top stack

def parse (s : String) : Option Sexp := parseChars s.toList [] [] []

def hexVal (c : Char) : Option Nat :=
  if '0' ≤ c ∧ c ≤ '9' then some (c.toNat - 48)
  else if 'a' ≤ c ∧ c ≤ 'f' then some (c.toNat - 87)
  else none

def hexNum (cs : List Char) : Option Nat :=
  if cs.isEmpty then none else cs.foldlM (fun acc c => do pure (acc * 16 + (← hexVal c))) 0

def decName (s : String) : Option Name :=
  match s.toList with
  | '\'' :: rest =>
    if rest.isEmpty then some []
    else (rest.splitOn '_').mapM fun part => do pure (Char.ofNat (← hexNum part))
  | _ => none

def name? : Sexp → Option Name
  | .atom s => decName s
  | _ => none

def nat? : Sexp → Option Nat
  | .atom s => s.toNat?
  | _ => none

def int? : Sexp → Option Int
  | .atom s => s.toInt?
  | _ => none

def bool? : Sexp → Option Bool
  | .atom "0" => some false
  | .atom "1" => some true
  | _ => none

end Sexp

open Sexp

def decPrimTy : String → Option PrimTy
  | "u8" => some .u8 | "u16" => some .u16 | "u32" => some .u32 | "u64" => some .u64
  | "i8" => some .i8 | "i16" => some .i16 | "i32" => some .i32 | "i64" => some .i64
  | "f32" => some .f32 | "f64" => some .f64 | "bool" => some .bool | "char" => some .char
  | "ptr" => some .ptr | "none" => some .none
  | _ => none

def PrimTy.wire : PrimTy → String
  | .u8 => "u8" | .u16 => "u16" | .u32 => "u32" | .u64 => "u64"
  | .i8 => "i8" | .i16 => "i16" | .i32 => "i32" | .i64 => "i64"
  | .f32 => "f32" | .f64 => "f64" | .bool => "bool" | .char => "char"
  | .ptr => "ptr" | .none => "none"

def decOp : String → Option Op
  | "plus" => some .plus | "minus" => some .minus | "multiply" => some .multiply
  | "divide" => some .divide | "shiftLeft" => some .shiftLeft | "shiftRight" => some .shiftRight
  | "and" => some .and | "or" => some .or | "xor" => some .xor | "eq" => some .eq
  | "notEq" => some .notEq | "great" => some .great | "less" => some .less
  | "greatEq" => some .greatEq | "lessEq" => some .lessEq
  | _ => none

def Op.wire : Op → String
  | .plus => "plus" | .minus => "minus" | .multiply => "multiply" | .divide => "divide"
  | .shiftLeft => "shiftLeft" | .shiftRight => "shiftRight" | .and => "and" | .or => "or"
  | .xor => "xor" | .eq => "eq" | .notEq => "notEq" | .great => "great" | .less => "less"
  | .greatEq => "greatEq" | .lessEq => "lessEq"

def decCond : String → Option Cond
  | "great" => some .great | "less" => some .less | "eq" => some .eq
  | "greatEq" => some .greatEq | "lessEq" => some .lessEq | "notEq" => some .notEq
  | _ => none

def Cond.wire : Cond → String
  | .great => "great" | .less => "less" | .eq => "eq"
  | .greatEq => "greatEq" | .lessEq => "lessEq" | .notEq => "notEq"

def decLogic : String → Option Logic
  | "and" => some .and | "or" => some .or | _ => none

def Logic.wire : Logic → String
  | .and => "and" | .or => "or"

partial def decATy : Sexp → Option ATy
  | .list [.atom "p", .atom p] => .prim <$> decPrimTy p
  | .list [.atom "s", n, .list attrs] => do
    let n ← n.name?
    let as ← attrs.mapM fun
      | .list [an, aty] => do pure ((← an.name?), (← decATy aty))
      | _ => none
    pure (.struct n as)
  | .list [.atom "a", t, n] => do pure (.array (← decATy t) (← n.nat?))
  | _ => none

def decPrimVal : Sexp → Option PrimVal
  | .list [.atom "u8", n] => .u8 <$> n.nat?
  | .list [.atom "u16", n] => .u16 <$> n.nat?
  | .list [.atom "u32", n] => .u32 <$> n.nat?
  | .list [.atom "u64", n] => .u64 <$> n.nat?
  | .list [.atom "i8", n] => .i8 <$> n.int?
  | .list [.atom "i16", n] => .i16 <$> n.int?
  | .list [.atom "i32", n] => .i32 <$> n.int?
  | .list [.atom "i64", n] => .i64 <$> n.int?
  | .list [.atom "f32", b, t] => do pure (.f32 (← b.nat?) (← t.name?))
  | .list [.atom "f64", b, t] => do pure (.f64 (← b.nat?) (← t.name?))
  | .list [.atom "bool", b] => .bool <$> b.bool?
  | .list [.atom "char", c] => (fun n => .char (Char.ofNat n)) <$> c.nat?
  | .list [.atom "ptr"] => some .ptr
  | .list [.atom "none"] => some .none
  | _ => none

mutual
partial def decExpr : Sexp → Option Expr
  | .list [.atom "e", v] => do pure (.mk (← decExprValue v) none)
  | .list [.atom "e", v, .atom o, r] => do pure (.mk (← decExprValue v) (some ((← decOp o), (← decExpr r))))
  | _ => none
partial def decExprValue : Sexp → Option ExprValue
  | .list [.atom "var", n] => .var <$> n.name?
  | .list [.atom "lit", v] => .lit <$> decPrimVal v
  | .list (.atom "call" :: n :: args) => do pure (.call (← n.name?) (← args.mapM decExpr))
  | .list [.atom "fld", n, a] => do pure (.field (← n.name?) (← a.name?))
  | .list [.atom "sub", e] => .sub <$> decExpr e
  | .list [.atom "ext", t, .atom p] => do pure (.ext (← t.nat?) (← decPrimTy p))
  | _ => none
end

def decOptTy : Sexp → Option (Option ATy)
  | .list [.atom "none"] => some none
  | .list [.atom "some", t] => some <$> decATy t
  | _ => none

def decLet : Sexp → Option LetB
  | .list [.atom "let", n, m, t, e] => do
    pure { name := (← n.name?), mutable := (← m.bool?), ty := (← decOptTy t), value := (← decExpr e) }
  | _ => none

def decBind : Sexp → Option Bind
  | .list [.atom "set", n, e] => do pure { name := (← n.name?), value := (← decExpr e) }
  | _ => none

def decCallS : Sexp → Option CallS
  | .list (.atom "call" :: n :: args) => do pure { name := (← n.name?), args := (← args.mapM decExpr) }
  | _ => none

def decCmp : Sexp → Option CmpCond
  | .list [.atom "cmp", l, .atom c, r] => do
    pure { left := (← decExpr l), cond := (← decCond c), right := (← decExpr r) }
  | _ => none

partial def decLogicCond : Sexp → Option LogicCond
  | .list [.atom "lc", c] => do pure (.mk (← decCmp c) none)
  | .list [.atom "lc", c, .atom lg, r] => do
    pure (.mk (← decCmp c) (some ((← decLogic lg), (← decLogicCond r))))
  | _ => none

def decIfCond : Sexp → Option IfCond
  | .list [.atom "single", e] => .single <$> decExpr e
  | .list [.atom "logic", l] => .logic <$> decLogicCond l
  | _ => none

mutual
partial def decIfStmt : Sexp → Option IfStmt
  | .list [.atom "ifs", c, b, e, ei] => do
    let c ← decIfCond c
    let b ← decIfBodies b
    let e ← match e with
      | .list [.atom "none"] => some none
      | .list [.atom "some", x] => some <$> decIfBodies x
      | _ => none
    let ei ← match ei with
      | .list [.atom "none"] => some none
      | .list [.atom "some", x] => some <$> decIfStmt x
      | _ => none
    pure (.mk c b e ei)
  | _ => none
partial def decIfBodies : Sexp → Option IfBodies
  | .list (.atom "ifb" :: l) => .ifb <$> l.mapM decIfBodyStmt
  | .list (.atom "loopb" :: l) => .loopb <$> l.mapM decIfLoopStmt
  | _ => none
partial def decIfBodyStmt : Sexp → Option IfBodyStmt
  | s@(.list (.atom "let" :: _)) => .letB <$> decLet s
  | s@(.list (.atom "set" :: _)) => .bind <$> decBind s
  | s@(.list (.atom "call" :: _)) => .call <$> decCallS s
  | .list [.atom "if", i] => .ifS <$> decIfStmt i
  | .list (.atom "loop" :: l) => .loop <$> l.mapM decLoopStmt
  | .list [.atom "ret", e] => .ret <$> decExpr e
  | _ => none
partial def decIfLoopStmt : Sexp → Option IfLoopStmt
  | s@(.list (.atom "let" :: _)) => .letB <$> decLet s
  | s@(.list (.atom "set" :: _)) => .bind <$> decBind s
  | s@(.list (.atom "call" :: _)) => .call <$> decCallS s
  | .list [.atom "if", i] => .ifS <$> decIfStmt i
  | .list (.atom "loop" :: l) => .loop <$> l.mapM decLoopStmt
  | .list [.atom "ret", e] => .ret <$> decExpr e
  | .list [.atom "brk"] => some .brk
  | .list [.atom "cont"] => some .cont
  | _ => none
partial def decLoopStmt : Sexp → Option LoopStmt
  | s@(.list (.atom "let" :: _)) => .letB <$> decLet s
  | s@(.list (.atom "set" :: _)) => .bind <$> decBind s
  | s@(.list (.atom "call" :: _)) => .call <$> decCallS s
  | .list [.atom "if", i] => .ifS <$> decIfStmt i
  | .list (.atom "loop" :: l) => .loop <$> l.mapM decLoopStmt
  | .list [.atom "ret", e] => .ret <$> decExpr e
  | .list [.atom "brk"] => some .brk
  | .list [.atom "cont"] => some .cont
  | _ => none
end

def decBodyStmt : Sexp → Option BodyStmt
  | s@(.list (.atom "let" :: _)) => .letB <$> decLet s
  | s@(.list (.atom "set" :: _)) => .bind <$> decBind s
  | s@(.list (.atom "call" :: _)) => .call <$> decCallS s
  | .list [.atom "if", i] => .ifS <$> decIfStmt i
  | .list (.atom "loop" :: l) => .loop <$> l.mapM decLoopStmt
  | .list [.atom "expr", e] => .expr <$> decExpr e
  | .list [.atom "ret", e] => .ret <$> decExpr e
  | _ => none

def decCVal : Sexp → Option CVal
  | .list [.atom "c", n] => .const <$> n.name?
  | .list [.atom "v", v] => .val <$> decPrimVal v
  | _ => none

partial def decCExpr : Sexp → Option CExpr
  | .list [.atom "cl", v] => .last <$> decCVal v
  | .list [.atom "cc", v, .atom o, r] => do pure (.cons (← decCVal v) (← decOp o) (← decCExpr r))
  | _ => none

def decAttrs (l : List Sexp) : Option (List (Name × ATy)) :=
  l.mapM fun
    | .list [an, aty] => do pure ((← an.name?), (← decATy aty))
    | _ => none

def decTop : Sexp → Option TopStmt
  | .list (.atom "imp" :: path) => .imp <$> path.mapM Sexp.name?
  | .list [.atom "types", n, .list attrs] => do pure (.types { name := (← n.name?), attrs := (← decAttrs attrs) })
  | .list [.atom "const", n, t, e] => do
    pure (.const { name := (← n.name?), ty := (← decATy t), value := (← decCExpr e) })
  | .list [.atom "fn", n, .list ps, t, .list body] => do
    pure (.fn { name := (← n.name?), params := (← decAttrs ps), result := (← decATy t),
                body := (← body.mapM decBodyStmt) })
  | _ => none

def decProgram : Sexp → Option Program
  | .list (.atom "prog" :: tops) => tops.mapM decTop
  | _ => none

/-! ## Dump decoding (implementation result → `Result`) -/

mutual
partial def decTy : Sexp → Option Ty
  | .list [.atom "p", .atom p] => .prim <$> decPrimTy p
  | .list [.atom "s", n, .list attrs] => do pure (.struct (← n.name?) (← decAttrsSem attrs))
  | .list [.atom "a", t, n] => do pure (.array (← decTy t) (← n.nat?))
  | _ => none
partial def decAttrsSem : List Sexp → Option Attrs
  | [] => some .nil
  | .list [an, i, t] :: rest => do pure (.cons (← an.name?) (← i.nat?) (← decTy t) (← decAttrsSem rest))
  | _ => none
end

def decConstSem : Sexp → Option ConstSem
  | .list [.atom "const", n, t, e] => do pure ⟨(← n.name?), (← decTy t), (← decCExpr e)⟩
  | _ => none

def decFunc : Sexp → Option Func
  | .list [.atom "func", n, t, .list ps] => do pure ⟨(← n.name?), (← decTy t), (← ps.mapM decTy)⟩
  | _ => none

def decValue : Sexp → Option Value
  | .list [.atom "val", n, t, m, a, ml] => do
    pure ⟨(← n.name?), (← decTy t), (← m.bool?), (← a.bool?), (← ml.bool?)⟩
  | _ => none

def decRes : Sexp → Option ExprResult
  | .list [.atom "res", t, .list [.atom "pv", v]] => do pure ⟨(← decTy t), .prim (← decPrimVal v)⟩
  | .list [.atom "res", t, .list [.atom "reg", r]] => do pure ⟨(← decTy t), .reg (← r.nat?)⟩
  | _ => none

def decFuncParam : Sexp → Option FuncParam
  | .list [n, t] => do pure ⟨(← n.name?), (← decTy t)⟩
  | _ => none

def decInstr : Sexp → Option Instr
  | .list [.atom "ExpressionValue", v, r] => do pure (.exprValue (← decValue v) (← r.nat?))
  | .list [.atom "ExpressionConst", c, r] => do pure (.exprConst (← decConstSem c) (← r.nat?))
  | .list [.atom "ExpressionStructValue", v, i, r] => do
    pure (.exprStructValue (← decValue v) (← i.nat?) (← r.nat?))
  | .list [.atom "ExpressionOperation", .atom o, l, r, reg] => do
    pure (.exprOp (← decOp o) (← decRes l) (← decRes r) (← reg.nat?))
  | .list [.atom "Call", f, .list ps, r] => do pure (.call (← decFunc f) (← ps.mapM decRes) (← r.nat?))
  | .list [.atom "LetBinding", v, r] => do pure (.letBinding (← decValue v) (← decRes r))
  | .list [.atom "Binding", v, r] => do pure (.binding (← decValue v) (← decRes r))
  | .list [.atom "FunctionDeclaration", n, .list ps, t, .atom "1"] => do
    pure (.fnDecl (← n.name?) (← ps.mapM decFuncParam) (← decTy t))
  | .list [.atom "Constant", c] => .const <$> decConstSem c
  | .list [.atom "Types", n, .list attrs] => do pure (.types (← n.name?) (← decAttrsSem attrs))
  | .list [.atom "ExpressionFunctionReturn", r] => .fnReturn <$> decRes r
  | .list [.atom "ExpressionFunctionReturnWithLabel", r] => .fnReturnWithLabel <$> decRes r
  | .list [.atom "SetLabel", l] => .setLabel <$> l.name?
  | .list [.atom "JumpTo", l] => .jumpTo <$> l.name?
  | .list [.atom "IfConditionExpression", r, b, e] => do
    pure (.ifCondExpr (← decRes r) (← b.name?) (← e.name?))
  | .list [.atom "ConditionExpression", l, r, .atom c, reg] => do
    pure (.condExpr (← decRes l) (← decRes r) (← decCond c) (← reg.nat?))
  | .list [.atom "JumpFunctionReturn", r] => .jumpFnReturn <$> decRes r
  | .list [.atom "LogicCondition", .atom c, l, r, reg] => do
    pure (.logicCond (← decLogic c) (← l.nat?) (← r.nat?) (← reg.nat?))
  | .list [.atom "IfConditionLogic", b, e, r] => do pure (.ifCondLogic (← b.name?) (← e.name?) (← r.nat?))
  | .list [.atom "FunctionArg", v, p] => do pure (.fnArg (← decValue v) (← decFuncParam p))
  | .list [.atom "Ext", t, .atom p, r] => do pure (.ext (← t.nat?) (← decPrimTy p) (← r.nat?))
  | _ => none

def decErrKind : String → Option ErrKind
  | "Common" => some .common
  | "ConstantAlreadyExist" => some .constantAlreadyExist
  | "ConstantNotFound" => some .constantNotFound
  | "WrongLetType" => some .wrongLetType
  | "WrongExpressionType" => some .wrongExpressionType
  | "TypeAlreadyExist" => some .typeAlreadyExist
  | "FunctionAlreadyExist" => some .functionAlreadyExist
  | "ValueNotFound" => some .valueNotFound
  | "ValueNotStruct" => some .valueNotStruct
  | "ValueNotStructField" => some .valueNotStructField
  | "ValueIsNotMutable" => some .valueIsNotMutable
  | "FunctionNotFound" => some .functionNotFound
  | "FunctionParameterTypeWrong" => some .functionParameterTypeWrong
  | "ReturnNotFound" => some .returnNotFound
  | "ReturnAlreadyCalled" => some .returnAlreadyCalled
  | "IfElseDuplicated" => some .ifElseDuplicated
  | "TypeNotFound" => some .typeNotFound
  | "WrongReturnType" => some .wrongReturnType
  | "ConditionExpressionWrongType" => some .conditionExpressionWrongType
  | "ConditionIsEmpty" => some .conditionIsEmpty
  | "ConditionExpressionNotSupported" => some .conditionExpressionNotSupported
  | "ForbiddenCodeAfterReturnDeprecated" => some .forbiddenCodeAfterReturnDeprecated
  | "ForbiddenCodeAfterContinueDeprecated" => some .forbiddenCodeAfterContinueDeprecated
  | "ForbiddenCodeAfterBreakDeprecated" => some .forbiddenCodeAfterBreakDeprecated
  | "FunctionArgumentNameDuplicated" => some .functionArgumentNameDuplicated
  | _ => none

def ErrKind.wire : ErrKind → String
  | .common => "Common"
  | .constantAlreadyExist => "ConstantAlreadyExist"
  | .constantNotFound => "ConstantNotFound"
  | .wrongLetType => "WrongLetType"
  | .wrongExpressionType => "WrongExpressionType"
  | .typeAlreadyExist => "TypeAlreadyExist"
  | .functionAlreadyExist => "FunctionAlreadyExist"
  | .valueNotFound => "ValueNotFound"
  | .valueNotStruct => "ValueNotStruct"
  | .valueNotStructField => "ValueNotStructField"
  | .valueIsNotMutable => "ValueIsNotMutable"
  | .functionNotFound => "FunctionNotFound"
  | .functionParameterTypeWrong => "FunctionParameterTypeWrong"
  | .returnNotFound => "ReturnNotFound"
  | .returnAlreadyCalled => "ReturnAlreadyCalled"
  | .ifElseDuplicated => "IfElseDuplicated"
  | .typeNotFound => "TypeNotFound"
  | .wrongReturnType => "WrongReturnType"
  | .conditionExpressionWrongType => "ConditionExpressionWrongType"
  | .conditionIsEmpty => "ConditionIsEmpty"
  | .conditionExpressionNotSupported => "ConditionExpressionNotSupported"
  | .forbiddenCodeAfterReturnDeprecated => "ForbiddenCodeAfterReturnDeprecated"
  | .forbiddenCodeAfterContinueDeprecated => "ForbiddenCodeAfterContinueDeprecated"
  | .forbiddenCodeAfterBreakDeprecated => "ForbiddenCodeAfterBreakDeprecated"
  | .functionArgumentNameDuplicated => "FunctionArgumentNameDuplicated"

def decErr : Sexp → Option Err
  | .list [.atom "err", .atom k, v, l, o] => do pure ⟨(← decErrKind k), (← v.name?), (← l.nat?), (← o.nat?)⟩
  | _ => none

/-- a decoded block together with the harness's parent-link verdict -/
partial def decBlock : Sexp → Option (Block × Bool)
  | .list [.atom "blk", .list (.atom "vals" :: vals), .list (.atom "inner" :: inner),
           .list (.atom "labels" :: labels), reg, mret, pok, .list (.atom "ctx" :: ctx),
           .list (.atom "children" :: children)] => do
    let vals ← vals.mapM fun
      | .list [k, v] => do pure ((← k.name?), (← decValue v))
      | _ => none
    let cs ← children.mapM decBlock
    let ok := (← pok.bool?) && cs.all (·.2)
    pure ({ values := vals, innerNames := (← inner.mapM Sexp.name?), labels := (← labels.mapM Sexp.name?),
            reg := (← reg.nat?), manualReturn := (← mret.bool?), children := cs.map (·.1),
            context := (← ctx.mapM decInstr) }, ok)
  | _ => none

/-- implementation dump: the result, and whether every parent link was right -/
def decDump : Sexp → Option (Result × Bool)
  | .list [.atom "dump", .atom "panic"] =>
    some ({ panic := some 0, errors := [], types := [], consts := [], funcs := [], gcontext := [], roots := [] }, true)
  | .list [.atom "dump", .atom "ok", .list (.atom "errs" :: errs), .list (.atom "types" :: tys),
           .list (.atom "consts" :: cs), .list (.atom "funcs" :: fs), .list (.atom "gctx" :: gctx),
           .list (.atom "roots" :: roots)] => do
    let tys ← tys.mapM fun
      | .list [k, t] => do pure ((← k.name?), (← decTy t))
      | _ => none
    let cs ← cs.mapM fun
      | .list [k, c] => do pure ((← k.name?), (← decConstSem c))
      | _ => none
    let fs ← fs.mapM fun
      | .list [k, f] => do pure ((← k.name?), (← decFunc f))
      | _ => none
    let roots ← roots.mapM decBlock
    pure ({ panic := none, errors := (← errs.mapM decErr), types := tys, consts := cs, funcs := fs,
            gcontext := (← gctx.mapM decInstr), roots := roots.map (·.1) }, roots.all (·.2))
  | _ => none

/-! ## Printing a result in the dump format -/

def wName (n : Name) : String :=
  "'" ++ "_".intercalate (n.map fun c => String.ofList (Nat.toDigits 16 c.toNat))

def nameLe (a b : Name) : Bool := !Name.lt b a

def sortByKey {β : Type} (l : List (Name × β)) : List (Name × β) :=
  l.mergeSort fun a b => nameLe a.1 b.1

def sortNames (l : List Name) : List Name := l.mergeSort nameLe

mutual
partial def wTy : Ty → String
  | .prim p => s!"(p {p.wire})"
  | .struct n attrs => s!"(s {wName n} ({wAttrs attrs}))"
  | .array t n => s!"(a {wTy t} {n})"
partial def wAttrs : Attrs → String
  | .nil => ""
  | .cons n i t .nil => s!"({wName n} {i} {wTy t})"
  | .cons n i t rest => s!"({wName n} {i} {wTy t}) {wAttrs rest}"
end

def wPrimVal : PrimVal → String
  | .u8 n => s!"(u8 {n})" | .u16 n => s!"(u16 {n})" | .u32 n => s!"(u32 {n})" | .u64 n => s!"(u64 {n})"
  | .i8 n => s!"(i8 {n})" | .i16 n => s!"(i16 {n})" | .i32 n => s!"(i32 {n})" | .i64 n => s!"(i64 {n})"
  | .f32 b t => s!"(f32 {b} {wName t})" | .f64 b t => s!"(f64 {b} {wName t})"
  | .bool b => s!"(bool {if b then 1 else 0})" | .char c => s!"(char {c.toNat})"
  | .ptr => "(ptr)" | .none => "(none)"

def wCVal : CVal → String
  | .const n => s!"(c {wName n})"
  | .val v => s!"(v {wPrimVal v})"

def wCExpr : CExpr → String
  | .last v => s!"(cl {wCVal v})"
  | .cons v o r => s!"(cc {wCVal v} {o.wire} {wCExpr r})"

def wConst (c : ConstSem) : String := s!"(const {wName c.name} {wTy c.ty} {wCExpr c.value})"
def wFunc (f : Func) : String := s!"(func {wName f.name} {wTy f.ty} ({" ".intercalate (f.params.map wTy)}))"
def b01 (b : Bool) : String := if b then "1" else "0"
def wValue (v : Value) : String := s!"(val {wName v.innerName} {wTy v.ty} {b01 v.mutable} {b01 v.alloca} {b01 v.malloc})"
def wRes (r : ExprResult) : String :=
  match r.val with
  | .prim v => s!"(res {wTy r.ty} (pv {wPrimVal v}))"
  | .reg n => s!"(res {wTy r.ty} (reg {n}))"

def wInstr : Instr → String
  | .exprValue v r => s!"(ExpressionValue {wValue v} {r})"
  | .exprConst c r => s!"(ExpressionConst {wConst c} {r})"
  | .exprStructValue v i r => s!"(ExpressionStructValue {wValue v} {i} {r})"
  | .exprOp o l r reg => s!"(ExpressionOperation {o.wire} {wRes l} {wRes r} {reg})"
  | .call f ps r => s!"(Call {wFunc f} ({" ".intercalate (ps.map wRes)}) {r})"
  | .letBinding v r => s!"(LetBinding {wValue v} {wRes r})"
  | .binding v r => s!"(Binding {wValue v} {wRes r})"
  | .fnDecl n ps t =>
    let ps := " ".intercalate (ps.map fun p => s!"({wName p.name} {wTy p.ty})")
    s!"(FunctionDeclaration {wName n} ({ps}) {wTy t} 1)"
  | .const c => s!"(Constant {wConst c})"
  | .types n attrs => s!"(Types {wName n} ({wAttrs attrs}))"
  | .fnReturn r => s!"(ExpressionFunctionReturn {wRes r})"
  | .fnReturnWithLabel r => s!"(ExpressionFunctionReturnWithLabel {wRes r})"
  | .setLabel l => s!"(SetLabel {wName l})"
  | .jumpTo l => s!"(JumpTo {wName l})"
  | .ifCondExpr r b e => s!"(IfConditionExpression {wRes r} {wName b} {wName e})"
  | .condExpr l r c reg => s!"(ConditionExpression {wRes l} {wRes r} {c.wire} {reg})"
  | .jumpFnReturn r => s!"(JumpFunctionReturn {wRes r})"
  | .logicCond c l r reg => s!"(LogicCondition {c.wire} {l} {r} {reg})"
  | .ifCondLogic b e r => s!"(IfConditionLogic {wName b} {wName e} {r})"
  | .fnArg v p => s!"(FunctionArg {wValue v} ({wName p.name} {wTy p.ty}))"
  | .ext t p r => s!"(Ext {t} {p.wire} {r})"

def wList (head : String) (items : List String) : String :=
  if items.isEmpty then s!"({head})" else s!"({head} {" ".intercalate items})"

partial def wBlock (b : Block) : String :=
  let vals := (sortByKey b.values).map fun (k, v) => s!"({wName k} {wValue v})"
  s!"(blk {wList "vals" vals} {wList "inner" ((sortNames b.innerNames).map wName)} {wList "labels" ((sortNames b.labels).map wName)} {b.reg} {b01 b.manualReturn} 1 {wList "ctx" (b.context.map wInstr)} {wList "children" (b.children.map wBlock)})"

def wErr (e : Err) : String := s!"(err {e.kind.wire} {wName e.value} {e.line} {e.off})"

def printResult (r : Result) : String :=
  match r.panic with
  | some _ => "(dump panic)"
  | none =>
    let tys := (sortByKey r.types).map fun (k, t) => s!"({wName k} {wTy t})"
    let cs := (sortByKey r.consts).map fun (k, c) => s!"({wName k} {wConst c})"
    let fs := (sortByKey r.funcs).map fun (k, f) => s!"({wName k} {wFunc f})"
    s!"(dump ok {wList "errs" (r.errors.map wErr)} {wList "types" tys} {wList "consts" cs} {wList "funcs" fs} {wList "gctx" (r.gcontext.map wInstr)} {wList "roots" (r.roots.map wBlock)})"

end SemVerif
