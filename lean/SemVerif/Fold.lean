import SemVerif.Syntax
/-!
# Fold — `State::expression_operations_priority` (operator-stack precedence fold)

Generic in the operand type: the Rust routine only moves `ExpressionValue`s.
`W α` is the folded expression: `pair l o r` is the bracketed sub-expression `(l o r)`.
Value stack and operator stack are top-first lists.
-/
namespace SemVerif

inductive W (α : Type) where
  | atom (a : α)
  | pair (l : W α) (o : Op) (r : W α)

variable {α : Type} (prio : Op → Nat)

/-- the inner `while operations.last().is_some_and(|prev| prev.priority() >= p) { fold_to_leaf }` -/
def popWhile (p : Nat) : List (W α) → List Op → List (W α) × List Op
  | r :: l :: vs, o :: os =>
    if p ≤ prio o then popWhile p (W.pair l o r :: vs) os else (r :: l :: vs, o :: os)
  | vs, os => (vs, os)

/-- one iteration of `while let Some((op, expr)) = next` -/
def foldStep (st : List (W α) × List Op) (x : Op × α) : List (W α) × List Op :=
  let r := popWhile prio (prio x.1) st.1 st.2
  (W.atom x.2 :: r.1, x.1 :: r.2)

/-- the whole routine: the remaining operators are folded at the end (the Rust code keeps the
root operation unfolded as `left op right`, which denotes the same tree) -/
def foldChain (v0 : α) (rest : List (Op × α)) : W α :=
  let st := rest.foldl (foldStep prio) ([W.atom v0], [])
  let r := popWhile prio 0 st.1 st.2
  r.1.headD (W.atom v0)

def W.map {β : Type} (f : α → β) : W α → W β
  | .atom a => .atom (f a)
  | .pair l o r => .pair (l.map f) o (r.map f)

def W.atoms : W α → List α
  | .atom a => [a]
  | .pair l _ r => l.atoms ++ r.atoms

def W.ops : W α → List Op
  | .atom _ => []
  | .pair l o r => l.ops ++ o :: r.ops

end SemVerif
