def hello := "world"
