import SemVerif.Spec.Stack
import SemVerif.Spec.RuleSet
import SemVerif.Spec.Findings
import SemVerif.Wire
/-!
# Spec/Preds — per property: the decidable output predicate `P_Cxx` (list of failing instances,
`[]` = holds) and the projection `π_Cxx` (what the correspondence compares), both as functions of
the source program and a result (of the model or of the implementation).
-/
namespace SemVerif

def Result.accepted (r : Result) : Bool := r.panic.isNone && r.errors.isEmpty

def violTag (v : Viol) : String :=
  match v.rule with
  | "D4-head" => "F6a:constant-head-operand-unchecked"
  | "B5-fewer" => "F8:call-with-fewer-arguments-accepted"
  | "B11-nested" | "B11-nested-type" => "F9:nested-return-type-unchecked"
  | "D2" => "F10:struct-attribute-of-undeclared-type-accepted"
  | r => s!"c01:accepted-but-violates-{r}"

/-- C01: accepted ⇒ no rule violation -/
def P_C01 (p : Program) (r : Result) : List String :=
  if r.accepted then ((refCheck p).map violTag).eraseDups else []

def pi_verdict (r : Result) : String := if r.panic.isSome then "panic" else if r.errors.isEmpty then "accepted" else "rejected"

/-- C02: well-formed (and LoopOK) ⇒ accepted -/
def P_C02 (p : Program) (r : Result) : List String :=
  if WellFormedB p && LoopOKB p && !r.accepted then
    [s!"c02:well-formed-program-rejected:{match r.errors.head? with | some e => e.kind.wire | none => "panic"}"]
  else []

def kindNamesIdent : ErrKind → Bool
  | .functionParameterTypeWrong | .wrongReturnType | .returnAlreadyCalled | .ifElseDuplicated
  | .returnNotFound | .forbiddenCodeAfterReturnDeprecated | .forbiddenCodeAfterBreakDeprecated
  | .forbiddenCodeAfterContinueDeprecated | .conditionIsEmpty => false
  | _ => true

def errKey (k : ErrKind) (n : Name) : String :=
  if kindNamesIdent k then s!"{k.wire}:{wName n}" else k.wire

/-- C14: the first error is the first enforced violation (kind, and identifier where one is named) -/
def P_C14 (p : Program) (r : Result) : List String :=
  if r.panic.isSome || !LoopOKB p then [] else
  let got := r.errors.head?.map fun e => errKey e.kind e.value
  let want := (refCheckEnf p).head?.map fun v => errKey v.kind v.name
  if got == want then [] else
    [s!"c14:first-error:{got.getD "none"}:expected:{want.getD "none"}:rule:{((refCheckEnf p).head?.map (·.rule)).getD "-"}"]

def pi_firstError (r : Result) : String :=
  match r.errors.head? with
  | some e => wErr e
  | none => "none"

/-- gate of the properties stated over accepted well-formed programs -/
def acceptedWF (p : Program) (r : Result) : Bool := r.accepted && WellFormedB p

def P_C08g (p : Program) (r : Result) : List String := if acceptedWF p r then P_C08 r else []

def P_C10 (p : Program) (r : Result) : List String :=
  if r.panic.isSome then [] else
  P_C10_unique r ++
  (if acceptedWF p r then
    ((p.fnDecls.zip r.roots).zipIdx.flatMap fun ((f, b), i) =>
      (unresolvedTargets b.context).map fun l =>
        if isLoopEndLabel l && f.hasF3 then "F3:loop-end-label-never-set-after-loop-level-return"
        else s!"c10:fn{i}:target-label-not-set:{wName l}").eraseDups
   else [])

def P_C11g (p : Program) (r : Result) : List String := if acceptedWF p r then P_C11 r else []

/-- C13: normal return unless a loop-flavoured if-body is used outside a loop -/
def P_C13 (p : Program) (r : Result) : List String :=
  if LoopOKB p && r.panic.isSome then ["c13:panic-on-program-inside-the-domain"] else []

def pi_stacks (f : Instr → Bool) (r : Result) : String :=
  " | ".intercalate (r.roots.map fun b => " ".intercalate ((b.context.filter f).map wInstr))

def pi_C09 (r : Result) : String :=
  " | ".intercalate (r.roots.map fun b => toString (resultRegs b.context))

def isLabelInstr : Instr → Bool
  | .setLabel _ | .jumpTo _ | .ifCondExpr _ _ _ | .ifCondLogic _ _ _ => true
  | _ => false

def isReturnInstr (i : Instr) : Bool := i.isFnReturn || i.isJumpReturn

def isValueInstr (i : Instr) : Bool := i.declares.isSome || i.usesValue.isSome

partial def Block.allStacks (b : Block) : String :=
  "[" ++ " ".intercalate (b.context.map wInstr) ++ " {" ++ " ".intercalate (b.children.map Block.allStacks) ++ "}]"

def pi_C18 (r : Result) : String := " | ".intercalate (r.roots.map Block.allStacks)

end SemVerif
