import SemVerif.Spec.ExtVisit
import SemVerif.Spec.Stack
import SemVerif.Spec.RuleSet
import SemVerif.Spec.Findings
import SemVerif.Spec.Denote
import SemVerif.Spec.Typed
import SemVerif.Spec.Flow
import SemVerif.Wire
/-!
# Spec/Preds — per property: the decidable output predicate `P_Cxx` (list of failing instances,
`[]` = holds) and the projection `π_Cxx` (what the correspondence compares), both as functions of
the source program and a result (of the model or of the implementation).
-/
namespace SemVerif

def Result.accepted (r : Result) : Bool := r.panic.isNone && r.errors.isEmpty

/-- the four recorded findings a C01 violation can be an instance of -/
def c01Known : List String :=
  ["F6a:constant-head-operand-unchecked", "F8:call-with-fewer-arguments-accepted",
   "F9:nested-return-type-unchecked", "F10:struct-attribute-of-undeclared-type-accepted"]

/-- failing instance of C01 for one violation: an enforced rule that the analyzer let through is a
violation of the property; the unenforced instances are the recorded findings (the rule checker
marks exactly D4-head, B5-fewer, D2 and the two B11-nested instances as unenforced) -/
def violTag (v : Viol) : String :=
  if v.enforced then s!"c01:accepted-but-violates-{v.rule}"
  else match v.rule with
    | "D4-head" => "F6a:constant-head-operand-unchecked"
    | "B5-fewer" => "F8:call-with-fewer-arguments-accepted"
    | "D2" => "F10:struct-attribute-of-undeclared-type-accepted"
    | _ => "F9:nested-return-type-unchecked"

/-- C01: accepted ⇒ no rule violation -/
def P_C01 (p : Program) (r : Result) : List String :=
  if r.accepted then ((refCheck p).map violTag).eraseDups else []

def pi_verdict (r : Result) : String := if r.panic.isSome then "panic" else if r.errors.isEmpty then "accepted" else "rejected"

/-- C02: well-formed (and LoopOK) ⇒ accepted -/
def P_C02 (p : Program) (r : Result) : List String :=
  if WellFormedB p && LoopOKB p && !r.accepted then
    [s!"c02:well-formed-program-rejected:{match r.errors.head? with | some e => e.kind.wire | none => "panic"}"]
  else []

def kindNamesIdent : ErrKind → Bool
  | .functionParameterTypeWrong | .wrongReturnType | .returnAlreadyCalled | .ifElseDuplicated
  | .returnNotFound | .forbiddenCodeAfterReturnDeprecated | .forbiddenCodeAfterBreakDeprecated
  | .forbiddenCodeAfterContinueDeprecated | .conditionIsEmpty => false
  | _ => true

def errKey (k : ErrKind) (n : Name) : String :=
  if kindNamesIdent k then s!"{k.wire}:{wName n}" else k.wire

/-- C14: the first error is the first enforced violation (kind, and identifier where one is named) -/
def P_C14 (p : Program) (r : Result) : List String :=
  if r.panic.isSome || !LoopOKB p then [] else
  let got := r.errors.head?.map fun e => errKey e.kind e.value
  let want := (refCheckEnf p).head?.map fun v => errKey v.kind v.name
  if got == want then [] else
    [s!"c14:first-error:{got.getD "none"}:expected:{want.getD "none"}:rule:{((refCheckEnf p).head?.map (·.rule)).getD "-"}"]

def pi_firstError (r : Result) : String :=
  match r.errors.head? with
  | some e => wErr e
  | none => "none"

/-- gate of the properties stated over accepted well-formed programs -/
def acceptedWF (p : Program) (r : Result) : Bool := r.accepted && WellFormedB p

def P_C08g (p : Program) (r : Result) : List String := if acceptedWF p r then P_C08 r else []

def P_C10 (p : Program) (r : Result) : List String :=
  if r.panic.isSome then [] else
  P_C10_unique r ++
  (if acceptedWF p r then
    ((p.fnDecls.zip r.roots).zipIdx.flatMap fun ((f, b), i) =>
      (unresolvedTargets b.context).map fun l =>
        if isLoopEndLabel l && f.hasF3 then "F3:loop-end-label-never-set-after-loop-level-return"
        else s!"c10:fn{i}:target-label-not-set:{wName l}").eraseDups
   else [])

def P_C11g (p : Program) (r : Result) : List String := if acceptedWF p r then P_C11 r else []

/-- C13: normal return unless a loop-flavoured if-body is used outside a loop -/
def P_C13 (p : Program) (r : Result) : List String :=
  if LoopOKB p && r.panic.isSome then ["c13:panic-on-program-inside-the-domain"] else []

def pi_stacks (f : Instr → Bool) (r : Result) : String :=
  " | ".intercalate (r.roots.map fun b => " ".intercalate ((b.context.filter f).map wInstr))

def pi_C09 (r : Result) : String :=
  " | ".intercalate (r.roots.map fun b => toString (resultRegs b.context))

def isLabelInstr : Instr → Bool
  | .setLabel _ | .jumpTo _ | .ifCondExpr _ _ _ | .ifCondLogic _ _ _ => true
  | _ => false

def isReturnInstr (i : Instr) : Bool := i.isFnReturn || i.isJumpReturn

def isValueInstr (i : Instr) : Bool := i.declares.isSome || i.usesValue.isSome

partial def Block.allStacks (b : Block) : String :=
  "[" ++ " ".intercalate (b.context.map wInstr) ++ " {" ++ " ".intercalate (b.children.map Block.allStacks) ++ "}]"

def pi_C18 (r : Result) : String := " | ".intercalate (r.roots.map Block.allStacks)

/-! ### C03, C06, C07, C19: denotation of the stack against the source -/

/-- per function: (source statements, stack statements) -/
def denotePairs (p : Program) (r : Result) : List (List DStmt × List DStmt) :=
  let g := p.rglobals
  (p.fnDecls.zip r.roots).map fun (f, b) => (specStmts true g f, abstractStack b.context)

def cmpRendered (tag : String) (f : DStmt → String) (pairs : List (List DStmt × List DStmt)) : List String :=
  pairs.zipIdx.flatMap fun ((spec, abs), i) =>
    let a := spec.map f
    let b := abs.map f
    if a == b then [] else
      let k := ((a.zip b).findIdx? fun (x, y) => x != y).getD (min a.length b.length)
      [s!"{tag}:fn{i}:stmt{k}:source=<{a.getD k "-"}>:stack=<{b.getD k "-"}>"]

def P_C03 (p : Program) (r : Result) : List String :=
  if !acceptedWF p r then [] else
  cmpRendered "c03" (fun d => " ".intercalate d.refs) (denotePairs p r)

def P_C06 (p : Program) (r : Result) : List String :=
  if !acceptedWF p r then [] else
  cmpRendered "c06" (DStmt.render DTree.flat) (denotePairs p r)

/-- C12, with "its declaration" read lexically: uniqueness and declaration records for every program
(`P_C12`), and on accepted well-formed programs every read or assignment refers to the declaration
lexical scoping selects (the resolver comparison of C03, up to the bijection between source
declarations and internal names) -/
def P_C12g (p : Program) (r : Result) : List String :=
  P_C12 r ++
  (if acceptedWF p r then cmpRendered "c12:its-declaration" (fun d => " ".intercalate d.refs) (denotePairs p r) else [])

/-- C07 is stated for every accepted program whose chains are well typed; the bracketing of the
emitted operations is compared with the reference precedence tree -/
def P_C07 (p : Program) (r : Result) : List String :=
  if !acceptedWF p r then [] else
  cmpRendered "c07" (DStmt.render DTree.shape) (denotePairs p r) ++
  -- the fold-built trees (the ones theorem T2 speaks about) are the reference trees on this program
  (p.fnDecls.zipIdx.flatMap fun (f, i) =>
    if (specStmts false p.rglobals f).map (DStmt.render DTree.str) == (specStmts true p.rglobals f).map (DStmt.render DTree.str)
    then [] else [s!"c07:fn{i}:fold-tree-differs-from-reference-tree"])

def DStmt.hasExt (d : DStmt) : Bool := match d with
  | .extS _ => true
  | _ => match d.tree? with
    | some t => !t.exts.isEmpty
    | none => false

/-- "with the block being analysed … at that position in the block's stack": the instructions of
one block's own stack that read a register written by an extension instruction `e` of the function
stack, where `e` stands in the function stack before the first occurrence of the reader (so the
reader is not one of the F7 look-ahead reads of a register written later), must find `e` earlier in
that same block's stack.  Returns the first offending (tag, register) of a stack. -/
def extLocalStack (root stack : List Instr) : Option (Nat × Nat) :=
  let rec go (seen : List Instr) : List Instr → Option (Nat × Nat)
    | [] => none
    | i :: rest =>
      let bad := i.reads.findSome? fun k =>
        match root.find? (fun e => isExtInstr' e && e.writes == some k) with
        | some e =>
          let pe := root.idxOf e
          let pi := root.idxOf i
          if pe < pi && !seen.contains e then some (e.extTag.getD 0, k) else none
        | none => none
      match bad with
      | some b => some b
      | none => go (i :: seen) rest
  go [] stack
where isExtInstr' : Instr → Bool
  | .ext _ _ _ => true
  | _ => false

mutual
def Block.extLocal (root : List Instr) : Block → List (Nat × Nat)
  | ⟨_, _, _, _, _, children, context⟩ =>
    (match extLocalStack root context with | some b => [b] | none => []) ++ Block.extLocalL root children
def Block.extLocalL (root : List Instr) : List Block → List (Nat × Nat)
  | [] => []
  | c :: cs => Block.extLocal root c ++ Block.extLocalL root cs
end

/-- C19: extension leaves once, in evaluation order, the operand is the returned result verbatim,
and every extension instruction of a block is in every ancestor's stack (by C18's subsequence) -/
def P_C19 (p : Program) (r : Result) : List String :=
  if r.panic.isSome then [] else
  -- evaluated once, in place: for every program the tags pushed are a prefix-closed subsequence;
  -- for accepted well-formed programs the statement trees with extension leaves are exact
  (if acceptedWF p r then
    cmpRendered "c19" (fun d => if d.hasExt then DStmt.render DTree.str d else "") (denotePairs p r) ++
    ((p.fnDecls.zip r.roots).zipIdx.flatMap fun ((f, b), i) =>
      let want := f.extLeaves.map (·.1)
      let got := b.context.filterMap Instr.extTag
      if want == got then [] else [s!"c19:fn{i}:extension-instructions:{got}:expected:{want}"])
   else []) ++
  (r.roots.zipIdx.flatMap fun (b, i) => if b.subseqOk then [] else [s!"c19:fn{i}:extension-instruction-missing-in-ancestor"])

/-- pushed with the block being analysed: the block whose stack reads the result of an extension
leaf holds the leaf's instruction (accepted programs).  Validated only: evaluated
on the implementation's dump and on the model's result for every generated program; not part of
theorem `C19` (seeded change C19-e). -/
def P_C19_local (r : Result) : List String :=
  -- accepted programs only: a rejected analysis abandons expressions half-way, and a register read
  -- by a later instruction of another block need not be the result the reader was built for
  if r.panic.isSome || !r.accepted then [] else
  r.roots.zipIdx.flatMap fun (b, i) =>
    (b.extLocal b.context).map fun (t, k) => s!"c19:fn{i}:extension-instruction-{t}-missing-in-the-block-that-reads-its-result-%{k}"

/-- every program that does not panic, accepted or not: the extension instructions of each function
stack are the leaves the analysis evaluates (`visFn`: operands to the right of a failing operand
are skipped, everything else is evaluated once, in order).  Validated only — theorem `C19` covers
the accepted programs. -/
def P_C19_visited (p : Program) (r : Result) : List String :=
  if r.panic.isSome then [] else
  (p.fnDecls.zip r.roots).zipIdx.flatMap fun ((f, b), i) =>
    let want := visFn p.rglobals f
    let got := b.context.filterMap Instr.extTag
    if want == got then [] else [s!"c19:fn{i}:extension-leaves-evaluated:{got}:expected:{want}"]

def isExtInstr : Instr → Bool
  | .ext _ _ _ => true
  | _ => false

/-! ### C04 -/

def P_C04 (p : Program) (r : Result) : List String :=
  if !acceptedWF p r then [] else
  (p.fnDecls.zip r.roots).zipIdx.flatMap fun ((f, b), i) =>
    (typedStack r.funcs r.consts f b.context).map fun m => s!"c04:fn{i}:{m}"

/-! ### C05 -/

def c05Outcomes : Nat := 5
def c05Fuel : Nat := 400

def P_C05 (p : Program) (r : Result) : List String :=
  if !acceptedWF p r then [] else
  ((p.fnDecls.zip r.roots).zipIdx.flatMap fun ((f, b), i) =>
    match flowCheck f b.context c05Outcomes c05Fuel with
    | none => []
    | some why =>
      -- instance-level matchers: the disagreement disappears under the F2 reading of the source /
      -- is a jump to the never-set end label of a loop with a loop-level return
      if f.hasF2 && (flowCheckF2 f b.context c05Outcomes c05Fuel).isNone then
        ["F2:nested-if-in-if-body-reuses-the-enclosing-end-label"]
      else if f.hasF3 && ("jump-to-unset-label".isPrefixOf why ||
          (f.hasF2 && ((flowCheckF2 f b.context c05Outcomes c05Fuel).map fun w => "jump-to-unset-label".isPrefixOf w) == some true)) &&
          (unresolvedTargets b.context).all isLoopEndLabel then
        ["F3:loop-end-label-never-set-after-loop-level-return"]
      else [s!"c05:fn{i}:{why}"]).eraseDups

def isFlowInstr (i : Instr) : Bool := isLabelInstr i || i.isEffect

/-! ### C15 -/

def tyEntry (d : StructDecl) : Name × Ty := (d.name, .struct d.name (attrsToMap d.attrs 0 .nil))
def tyInstr (d : StructDecl) : Instr := .types d.name (attrsToMap d.attrs 0 .nil)
def constEntry : TopStmt → Option (Name × ConstSem)
  | .const d => some (d.name, ⟨d.name, d.ty.toTy, d.value⟩)
  | _ => none
def funcEntry : TopStmt → Option (Name × Func)
  | .fn f => some (f.name, ⟨f.name, f.result.toTy, f.params.map (·.2.toTy)⟩)
  | _ => none
def declInstr : TopStmt → Option Instr
  | .const d => some (.const ⟨d.name, d.ty.toTy, d.value⟩)
  | .fn f => some (.fnDecl f.name (f.params.map fun q => ⟨q.1, q.2.toTy⟩) f.result.toTy)
  | _ => none

def P_C15 (p : Program) (r : Result) : List String :=
  if r.panic.isSome then [] else
  let ds := declPhase p
  let wantTypes := ds.rtypes.map tyEntry
  let wantConsts := ds.rdecls.filterMap constEntry
  let wantFuncs := ds.rdecls.filterMap funcEntry
  let wantCtx := ds.rtypes.map tyInstr ++ ds.rdecls.filterMap declInstr
  (if sortByKey wantTypes == sortByKey r.types then [] else ["c15:type-table-differs-from-first-passing-declarations"]) ++
  (if sortByKey wantConsts == sortByKey r.consts then [] else ["c15:constant-table-differs-from-first-passing-declarations"]) ++
  (if sortByKey wantFuncs == sortByKey r.funcs then [] else ["c15:function-table-differs-from-first-passing-declarations"]) ++
  (if wantCtx == r.gcontext then [] else ["c15:global-stack-differs"]) ++
  (if r.roots.length == p.fnDecls.length then [] else ["c15:number-of-root-blocks"]) ++
  (if nodupB (r.types.map (·.1)) && nodupB (r.consts.map (·.1)) && nodupB (r.funcs.map (·.1)) then [] else ["c15:table-key-twice"])

def pi_C15 (r : Result) : String :=
  printResult { r with errors := [], roots := r.roots.map fun _ => Block.fresh }

/-! ### C16, C17: groups of runs -/

def errStrs (r : Result) : List String := (r.errors.map wErr).mergeSort (· ≤ ·)

def tablesStr (r : Result) : String :=
  printResult { r with errors := [], roots := [], gcontext := [] }

/-- per function name the whole block tree -/
def fnBlocks (p : Program) (r : Result) : List (Name × String) :=
  sortByKey ((p.fnDecls.zip r.roots).map fun (f, b) => (f.name, wBlock b))

def P_C16 (group : List (Program × Result)) : List String :=
  match group with
  | [] => []
  | (p0, r0) :: rest =>
    if r0.panic.isSome then [] else
    (rest.zipIdx.flatMap fun ((q, r), i) =>
      (if pi_verdict r == pi_verdict r0 then [] else [s!"c16:perm{i}:verdict-differs"]) ++
      (if errStrs r == errStrs r0 then [] else [s!"c16:perm{i}:error-multiset-differs"]) ++
      (if tablesStr r == tablesStr r0 then [] else [s!"c16:perm{i}:global-tables-differ"]) ++
      (if fnBlocks q r == fnBlocks p0 r0 then [] else [s!"c16:perm{i}:function-stack-or-block-tree-differs"]))

def isRNF (e : Err) : Bool := e.kind == .returnNotFound

/-- number of errors an empty body produces: a duplicated parameter name is a body error -/
def stubErrCount (f : FnDecl) : Nat := if nodupB (f.params.map (·.1)) then 1 else 2

/-- group layout: base, all bodies stubbed (empty), then for every function `i` the program with
all *other* bodies stubbed, then for every function `i` the program with all other bodies replaced
by bodies of another program -/
def P_C17 (group : List (Program × Result)) : List String :=
  match group with
  | (p0, r0) :: (_, rs) :: rest =>
    if r0.panic.isSome || rs.panic.isSome || rest.any (·.2.panic.isSome) then [] else
    let fns := p0.fnDecls
    let n := fns.length
    if rest.length != 2 * n then ["c17:harness-group-layout"] else
    let stubV := rest.take n
    let randV := rest.drop n
    let lens := fns.map stubErrCount
    let total := lens.sum
    let d := rs.errors.take (rs.errors.length - total)
    let stubsOk := rs.errors.length ≥ total
    let segs := stubV.zipIdx.map fun ((_, r), i) =>
      let before := (lens.take i).sum
      let after := (lens.drop (i + 1)).sum
      let body := r.errors.drop (d.length + before)
      body.take (body.length - after)
    let shapeOk := stubV.zipIdx.all fun ((_, r), i) =>
      r.errors.take d.length == d && r.errors.length ≥ d.length + (lens.take i).sum + (lens.drop (i + 1)).sum
    (if stubsOk && shapeOk then [] else ["c17:stubbed-programs-do-not-start-with-the-declaration-errors"]) ++
    (if r0.errors == d ++ segs.flatten then [] else ["c17:error-list-is-not-declaration-errors-followed-by-body-errors-in-order"]) ++
    ((stubV ++ randV).zipIdx.flatMap fun ((_, r), k) =>
      let i := k % n
      (if (r.roots.map wBlock)[i]? == (r0.roots.map wBlock)[i]? then [] else [s!"c17:fn{i}:stack-or-block-tree-changes-when-other-bodies-are-replaced"]) ++
      (if pi_C15 r == pi_C15 r0 then [] else [s!"c17:variant{k}:global-declarations-change-with-bodies"])).eraseDups
  | _ => []

end SemVerif
