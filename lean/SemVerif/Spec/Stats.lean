import SemVerif.Spec.Traverse
/-!
# Spec/Stats — what a generated program contains (for the input distribution in the evidence)

Nesting depth and statement-kind counts of a function; not used by any predicate or theorem.
-/
namespace SemVerif

/-- statement counts: lets, assignments, call statements, ifs, loops, returns, breaks, continues -/
structure StmtStats where
  lets : Nat := 0
  sets : Nat := 0
  calls : Nat := 0
  ifs : Nat := 0
  elses : Nat := 0
  elifs : Nat := 0
  loops : Nat := 0
  rets : Nat := 0
  brks : Nat := 0
  conts : Nat := 0
  depth : Nat := 0

def StmtStats.add (a b : StmtStats) : StmtStats :=
  { lets := a.lets + b.lets, sets := a.sets + b.sets, calls := a.calls + b.calls, ifs := a.ifs + b.ifs,
    elses := a.elses + b.elses, elifs := a.elifs + b.elifs, loops := a.loops + b.loops, rets := a.rets + b.rets,
    brks := a.brks + b.brks, conts := a.conts + b.conts, depth := max a.depth b.depth }

def StmtStats.deeper (a : StmtStats) : StmtStats := { a with depth := a.depth + 1 }

mutual
def IfStmt.stats : IfStmt → StmtStats
  | .mk _ body els elif =>
    (({ ifs := 1 } : StmtStats).add (IfBodies.stats body).deeper).add
      (match els, elif with
       | some eb, some ei => (({ elses := 1, elifs := 1 } : StmtStats).add (IfBodies.stats eb).deeper).add (IfStmt.stats ei)
       | some eb, none => ({ elses := 1 } : StmtStats).add (IfBodies.stats eb).deeper
       | none, some ei => ({ elifs := 1 } : StmtStats).add (IfStmt.stats ei)
       | none, none => {})
def IfBodies.stats : IfBodies → StmtStats
  | .ifb l => IfBodyStmt.statsL l
  | .loopb l => IfLoopStmt.statsL l
def IfBodyStmt.statsL : List IfBodyStmt → StmtStats
  | [] => {}
  | .letB _ :: tl => ({ lets := 1 } : StmtStats).add (IfBodyStmt.statsL tl)
  | .bind _ :: tl => ({ sets := 1 } : StmtStats).add (IfBodyStmt.statsL tl)
  | .call _ :: tl => ({ calls := 1 } : StmtStats).add (IfBodyStmt.statsL tl)
  | .ifS i :: tl => (IfStmt.stats i).add (IfBodyStmt.statsL tl)
  | .loop b :: tl => ((({ loops := 1 } : StmtStats).add (LoopStmt.statsL b).deeper)).add (IfBodyStmt.statsL tl)
  | .ret _ :: tl => ({ rets := 1 } : StmtStats).add (IfBodyStmt.statsL tl)
def IfLoopStmt.statsL : List IfLoopStmt → StmtStats
  | [] => {}
  | .letB _ :: tl => ({ lets := 1 } : StmtStats).add (IfLoopStmt.statsL tl)
  | .bind _ :: tl => ({ sets := 1 } : StmtStats).add (IfLoopStmt.statsL tl)
  | .call _ :: tl => ({ calls := 1 } : StmtStats).add (IfLoopStmt.statsL tl)
  | .ifS i :: tl => (IfStmt.stats i).add (IfLoopStmt.statsL tl)
  | .loop b :: tl => ((({ loops := 1 } : StmtStats).add (LoopStmt.statsL b).deeper)).add (IfLoopStmt.statsL tl)
  | .ret _ :: tl => ({ rets := 1 } : StmtStats).add (IfLoopStmt.statsL tl)
  | .brk :: tl => ({ brks := 1 } : StmtStats).add (IfLoopStmt.statsL tl)
  | .cont :: tl => ({ conts := 1 } : StmtStats).add (IfLoopStmt.statsL tl)
def LoopStmt.statsL : List LoopStmt → StmtStats
  | [] => {}
  | .letB _ :: tl => ({ lets := 1 } : StmtStats).add (LoopStmt.statsL tl)
  | .bind _ :: tl => ({ sets := 1 } : StmtStats).add (LoopStmt.statsL tl)
  | .call _ :: tl => ({ calls := 1 } : StmtStats).add (LoopStmt.statsL tl)
  | .ifS i :: tl => (IfStmt.stats i).add (LoopStmt.statsL tl)
  | .loop b :: tl => ((({ loops := 1 } : StmtStats).add (LoopStmt.statsL b).deeper)).add (LoopStmt.statsL tl)
  | .ret _ :: tl => ({ rets := 1 } : StmtStats).add (LoopStmt.statsL tl)
  | .brk :: tl => ({ brks := 1 } : StmtStats).add (LoopStmt.statsL tl)
  | .cont :: tl => ({ conts := 1 } : StmtStats).add (LoopStmt.statsL tl)
end

def BodyStmt.statsL : List BodyStmt → StmtStats
  | [] => {}
  | .letB _ :: tl => ({ lets := 1 } : StmtStats).add (BodyStmt.statsL tl)
  | .bind _ :: tl => ({ sets := 1 } : StmtStats).add (BodyStmt.statsL tl)
  | .call _ :: tl => ({ calls := 1 } : StmtStats).add (BodyStmt.statsL tl)
  | .ifS i :: tl => (IfStmt.stats i).add (BodyStmt.statsL tl)
  | .loop b :: tl => ((({ loops := 1 } : StmtStats).add (LoopStmt.statsL b).deeper)).add (BodyStmt.statsL tl)
  | .expr _ :: tl | .ret _ :: tl => ({ rets := 1 } : StmtStats).add (BodyStmt.statsL tl)

/-- operands of an operator chain (length of the chain) -/
def Expr.chainLen : Expr → Nat
  | .mk _ none => 1
  | .mk _ (some (_, e)) => 1 + Expr.chainLen e

def statsStr (fns : List FnDecl) : String :=
  let st := fns.foldl (fun a f => a.add (BodyStmt.statsL f.body)) ({} : StmtStats)
  let es := fns.flatMap FnDecl.exprs
  let maxChain := es.foldl (fun m e => max m e.chainLen) 0
  let exts := (fns.flatMap FnDecl.extLeaves).length
  s!"depth={st.depth},let={st.lets},set={st.sets},call={st.calls},if={st.ifs},else={st.elses},elif={st.elifs},loop={st.loops},ret={st.rets},brk={st.brks},cont={st.conts},exprs={es.length},chain={maxChain},ext={exts}"

end SemVerif
