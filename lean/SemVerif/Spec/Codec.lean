import SemVerif.Syntax
import SemVerif.SemTypes
/-!
# Spec/Codec — the JSON data model of the serialised AST (C20)

`encProgram` follows the serde data model implied by the derive attributes of `src/ast.rs`:
adjacently tagged enums (`{"type": V, "content": …}`, unit variants without `content`), the
internally tagged `LetBinding` struct, transparent newtype structs, tuple variants and `Option`
pairs as arrays, the hand-written `Ident` object, `PhantomData` as `null`.  `Json.render` prints
with sorted object keys, which is how `serde_json::Value` prints.  The text layer (escaping,
borrowed-`&str` deserialisation, float text) is outside this model; the correspondence run
compares `render (encProgram p)` with serde_json's value of the real AST for programs without
float literals, and performs the native round trips on the real types for all programs.
-/
namespace SemVerif

inductive Json where
  | null
  | bool (b : Bool)
  | num (n : Int)
  | str (s : Name)
  /-- a float literal: the bit pattern it parses to and the text it is written as -/
  | fnum (bits : Nat) (text : Name)
  | arr (l : List Json)
  | obj (kv : List (String × Json))
  deriving Inhabited, Repr

def hexDigit (n : Nat) : Char := if n < 10 then Char.ofNat (48 + n) else Char.ofNat (87 + n)

/-- JSON string escaping as serde_json writes it -/
def jsonEscape (s : Name) : String :=
  String.ofList (s.flatMap fun c =>
    if c = '"' then ['\\', '"']
    else if c = '\\' then ['\\', '\\']
    else if c = '\n' then ['\\', 'n']
    else if c = '\r' then ['\\', 'r']
    else if c = '\t' then ['\\', 't']
    else if c.toNat = 8 then ['\\', 'b']
    else if c.toNat = 12 then ['\\', 'f']
    else if c.toNat < 32 then ['\\', 'u', '0', '0', hexDigit (c.toNat / 16), hexDigit (c.toNat % 16)]
    else [c])

partial def Json.render : Json → String
  | .null => "null"
  | .bool b => if b then "true" else "false"
  | .num n => toString n
  | .str s => "\"" ++ jsonEscape s ++ "\""
  | .fnum _ t => String.ofList t
  | .arr l => "[" ++ ",".intercalate (l.map Json.render) ++ "]"
  | .obj kv =>
    let sorted := kv.mergeSort fun a b => a.1 ≤ b.1
    "{" ++ ",".intercalate (sorted.map fun (k, v) => "\"" ++ k ++ "\":" ++ v.render) ++ "}"

def tag0 (t : String) : Json := .obj [("type", .str t.toList)]
def tag1 (t : String) (c : Json) : Json := .obj [("type", .str t.toList), ("content", c)]

def encIdent (n : Name) : Json :=
  .obj [("offset", .num 0), ("line", .num 1), ("fragment", .str n), ("extra", .null)]

def PrimTy.variant : PrimTy → String
  | .u8 => "U8" | .u16 => "U16" | .u32 => "U32" | .u64 => "U64"
  | .i8 => "I8" | .i16 => "I16" | .i32 => "I32" | .i64 => "I64"
  | .f32 => "F32" | .f64 => "F64" | .bool => "Bool" | .char => "Char"
  | .ptr => "Ptr" | .none => "None"

def Op.variant : Op → String
  | .plus => "Plus" | .minus => "Minus" | .multiply => "Multiply" | .divide => "Divide"
  | .shiftLeft => "ShiftLeft" | .shiftRight => "ShiftRight" | .and => "And" | .or => "Or"
  | .xor => "Xor" | .eq => "Eq" | .notEq => "NotEq" | .great => "Great" | .less => "Less"
  | .greatEq => "GreatEq" | .lessEq => "LessEq"

def Cond.variant : Cond → String
  | .great => "Great" | .less => "Less" | .eq => "Eq"
  | .greatEq => "GreatEq" | .lessEq => "LessEq" | .notEq => "NotEq"

def Logic.variant : Logic → String
  | .and => "And" | .or => "Or"

mutual
def encATy : ATy → Json
  | .prim p => tag1 "Primitive" (tag0 p.variant)
  | .struct n attrs => tag1 "Struct" (.obj [("name", encIdent n), ("attributes", .arr (encAttrs attrs))])
  | .array t n => tag1 "Array" (.arr [encATy t, .num n])
def encAttrs : List (Name × ATy) → List Json
  | [] => []
  | (n, t) :: rest => .obj [("attr_name", encIdent n), ("attr_type", encATy t)] :: encAttrs rest
end

/-- floats are outside the compared stream (the text layer of floats is serde_json's) -/
def encPrimVal : PrimVal → Json
  | .u8 n => tag1 "U8" (.num n) | .u16 n => tag1 "U16" (.num n) | .u32 n => tag1 "U32" (.num n)
  | .u64 n => tag1 "U64" (.num n)
  | .i8 n => tag1 "I8" (.num n) | .i16 n => tag1 "I16" (.num n) | .i32 n => tag1 "I32" (.num n)
  | .i64 n => tag1 "I64" (.num n)
  | .f32 b t => tag1 "F32" (.fnum b t) | .f64 b t => tag1 "F64" (.fnum b t)
  | .bool b => tag1 "Bool" (.bool b)
  | .char c => tag1 "Char" (.str [c])
  | .ptr => tag0 "Ptr"
  | .none => tag0 "None"

def encCVal : CVal → Json
  | .const n => tag1 "Constant" (encIdent n)
  | .val v => tag1 "Value" (encPrimVal v)

def encCExpr : CExpr → Json
  | .last v => .obj [("value", encCVal v), ("operation", .null)]
  | .cons v o r => .obj [("value", encCVal v), ("operation", .arr [tag0 o.variant, encCExpr r])]

mutual
def encExpr : Expr → Json
  | .mk v none => .obj [("expression_value", encExprValue v), ("operation", .null)]
  | .mk v (some (o, e)) => .obj [("expression_value", encExprValue v), ("operation", .arr [tag0 o.variant, encExpr e])]
def encExprValue : ExprValue → Json
  | .var n => tag1 "ValueName" (encIdent n)
  | .lit v => tag1 "PrimitiveValue" (encPrimVal v)
  | .call f args => tag1 "FunctionCall" (.obj [("name", encIdent f), ("parameters", .arr (encExprs args))])
  | .field v a => tag1 "StructValue" (.obj [("name", encIdent v), ("attribute", encIdent a)])
  | .sub e => tag1 "Expression" (encExpr e)
  | .ext tag ty => tag1 "ExtendedExpression" (.obj [("tag", .num tag), ("ty", .num (match ty with
      | .u8 => 0 | .u16 => 1 | .u32 => 2 | .u64 => 3 | .i8 => 4 | .i16 => 5 | .i32 => 6 | .i64 => 7
      | .f32 => 8 | .f64 => 9 | .bool => 10 | .char => 11 | .ptr => 12 | .none => 13))])
def encExprs : List Expr → List Json
  | [] => []
  | e :: es => encExpr e :: encExprs es
end

def encLet (b : LetB) : Json :=
  .obj [("type", .str "LetBinding".toList), ("name", encIdent b.name), ("mutable", .bool b.mutable),
        ("value_type", match b.ty with | some t => encATy t | none => .null), ("value", encExpr b.value)]

def encBind (b : Bind) : Json := .obj [("name", encIdent b.name), ("value", encExpr b.value)]
def encCallS (c : CallS) : Json := .obj [("name", encIdent c.name), ("parameters", .arr (encExprs c.args))]

def encCmp (c : CmpCond) : Json :=
  .obj [("left", encExpr c.left), ("condition", tag0 c.cond.variant), ("right", encExpr c.right)]

def encLogicCond : LogicCond → Json
  | .mk c none => .obj [("left", encCmp c), ("right", .null)]
  | .mk c (some (lg, rc)) => .obj [("left", encCmp c), ("right", .arr [tag0 lg.variant, encLogicCond rc])]

def encIfCond : IfCond → Json
  | .single e => tag1 "Single" (encExpr e)
  | .logic lc => tag1 "Logic" (encLogicCond lc)

mutual
def encIfStmt : IfStmt → Json
  | .mk cond body els elif =>
    .obj [("condition", encIfCond cond), ("body", encIfBodies body),
          ("else_statement", match els with | some eb => encIfBodies eb | none => .null),
          ("else_if_statement", match elif with | some ei => encIfStmt ei | none => .null)]
def encIfBodies : IfBodies → Json
  | .ifb l => tag1 "If" (.arr (encIfBodyL l))
  | .loopb l => tag1 "Loop" (.arr (encIfLoopL l))
def encIfBodyL : List IfBodyStmt → List Json
  | [] => []
  | .letB b :: tl => tag1 "LetBinding" (encLet b) :: encIfBodyL tl
  | .bind b :: tl => tag1 "Binding" (encBind b) :: encIfBodyL tl
  | .call c :: tl => tag1 "FunctionCall" (encCallS c) :: encIfBodyL tl
  | .ifS i :: tl => tag1 "If" (encIfStmt i) :: encIfBodyL tl
  | .loop b :: tl => tag1 "Loop" (.arr (encLoopL b)) :: encIfBodyL tl
  | .ret e :: tl => tag1 "Return" (encExpr e) :: encIfBodyL tl
def encIfLoopL : List IfLoopStmt → List Json
  | [] => []
  | .letB b :: tl => tag1 "LetBinding" (encLet b) :: encIfLoopL tl
  | .bind b :: tl => tag1 "Binding" (encBind b) :: encIfLoopL tl
  | .call c :: tl => tag1 "FunctionCall" (encCallS c) :: encIfLoopL tl
  | .ifS i :: tl => tag1 "If" (encIfStmt i) :: encIfLoopL tl
  | .loop b :: tl => tag1 "Loop" (.arr (encLoopL b)) :: encIfLoopL tl
  | .ret e :: tl => tag1 "Return" (encExpr e) :: encIfLoopL tl
  | .brk :: tl => tag0 "Break" :: encIfLoopL tl
  | .cont :: tl => tag0 "Continue" :: encIfLoopL tl
def encLoopL : List LoopStmt → List Json
  | [] => []
  | .letB b :: tl => tag1 "LetBinding" (encLet b) :: encLoopL tl
  | .bind b :: tl => tag1 "Binding" (encBind b) :: encLoopL tl
  | .call c :: tl => tag1 "FunctionCall" (encCallS c) :: encLoopL tl
  | .ifS i :: tl => tag1 "If" (encIfStmt i) :: encLoopL tl
  | .loop b :: tl => tag1 "Loop" (.arr (encLoopL b)) :: encLoopL tl
  | .ret e :: tl => tag1 "Return" (encExpr e) :: encLoopL tl
  | .brk :: tl => tag0 "Break" :: encLoopL tl
  | .cont :: tl => tag0 "Continue" :: encLoopL tl
end

def encBodyL : List BodyStmt → List Json
  | [] => []
  | .letB b :: tl => tag1 "LetBinding" (encLet b) :: encBodyL tl
  | .bind b :: tl => tag1 "Binding" (encBind b) :: encBodyL tl
  | .call c :: tl => tag1 "FunctionCall" (encCallS c) :: encBodyL tl
  | .ifS i :: tl => tag1 "If" (encIfStmt i) :: encBodyL tl
  | .loop b :: tl => tag1 "Loop" (.arr (encLoopL b)) :: encBodyL tl
  | .expr e :: tl => tag1 "Expression" (encExpr e) :: encBodyL tl
  | .ret e :: tl => tag1 "Return" (encExpr e) :: encBodyL tl

def encParams : List (Name × ATy) → List Json
  | [] => []
  | (n, t) :: rest => .obj [("name", encIdent n), ("parameter_type", encATy t)] :: encParams rest

def encTop : TopStmt → Json
  | .imp path => tag1 "Import" (.arr (path.map encIdent))
  | .types d => tag1 "Types" (.obj [("name", encIdent d.name), ("attributes", .arr (encAttrs d.attrs))])
  | .const d => tag1 "Constant" (.obj [("name", encIdent d.name), ("constant_type", encATy d.ty),
                                      ("constant_value", encCExpr d.value)])
  | .fn f => tag1 "Function" (.obj [("name", encIdent f.name), ("parameters", .arr (encParams f.params)),
                                    ("result_type", encATy f.result), ("body", .arr (encBodyL f.body)),
                                    ("_marker", .null)])

def encProgram (p : Program) : Json := .arr (p.map encTop)

end SemVerif
