import SemVerif.Spec.Codec
/-!
# Spec/CodecStack — the JSON data model of the serialised instruction stacks and error lists (C20)

Follows the serde attributes of `src/types/*.rs`: adjacently tagged enums, newtype name structs as
plain strings, `HashMap` fields as objects keyed by the name, `Vec` as arrays, tuple variants with
two fields as arrays.  `FunctionDeclaration` carries the whole converted AST function in the
implementation; the model's instruction keeps only name, parameters and result type, so function
stacks (which never contain that instruction) are what the correspondence run compares.
-/
namespace SemVerif

mutual
def encTy : Ty → Json
  | .prim p => tag1 "Primitive" (tag0 p.variant)
  | .struct n attrs => tag1 "Struct" (.obj [("name", .str n), ("attributes", .obj (encAttrMap attrs)), ("methods", .obj [])])
  | .array t n => tag1 "Array" (.arr [encTy t, .num n])
def encAttrMap : Attrs → List (String × Json)
  | .nil => []
  | .cons n i t rest =>
    (String.ofList n, .obj [("attr_name", .str n), ("attr_index", .num i), ("attr_type", encTy t)]) :: encAttrMap rest
end

def encValue (v : Value) : Json :=
  .obj [("inner_name", .str v.innerName), ("inner_type", encTy v.ty), ("mutable", .bool v.mutable),
        ("alloca", .bool v.alloca), ("malloc", .bool v.malloc)]

def encRVal : RVal → Json
  | .prim v => tag1 "PrimitiveValue" (encPrimVal v)
  | .reg r => tag1 "Register" (.num r)

def encRes (r : ExprResult) : Json := .obj [("expr_type", encTy r.ty), ("expr_value", encRVal r.val)]

def encResL : List ExprResult → List Json
  | [] => []
  | r :: rs => encRes r :: encResL rs

def encTyL : List Ty → List Json
  | [] => []
  | t :: ts => encTy t :: encTyL ts

def encFunc (f : Func) : Json :=
  .obj [("inner_name", .str f.name), ("inner_type", encTy f.ty), ("parameters", .arr (encTyL f.params))]

def encCValSem : CVal → Json
  | .const n => tag1 "Constant" (.str n)
  | .val v => tag1 "Value" (encPrimVal v)

def encCExprSem : CExpr → Json
  | .last v => .obj [("value", encCValSem v), ("operation", .null)]
  | .cons v o r => .obj [("value", encCValSem v), ("operation", .arr [tag0 o.variant, encCExprSem r])]

def encConstSem (c : ConstSem) : Json :=
  .obj [("name", .str c.name), ("constant_type", encTy c.ty), ("constant_value", encCExprSem c.value)]

def encFuncParam (p : FuncParam) : Json := .obj [("name", .str p.name), ("parameter_type", encTy p.ty)]

def encFuncParamL : List FuncParam → List Json
  | [] => []
  | p :: ps => encFuncParam p :: encFuncParamL ps

def encInstr : Instr → Json
  | .exprValue v r => tag1 "ExpressionValue" (.obj [("expression", encValue v), ("register_number", .num r)])
  | .exprConst c r => tag1 "ExpressionConst" (.obj [("expression", encConstSem c), ("register_number", .num r)])
  | .exprStructValue v i r =>
    tag1 "ExpressionStructValue" (.obj [("expression", encValue v), ("index", .num i), ("register_number", .num r)])
  | .exprOp op l r reg =>
    tag1 "ExpressionOperation" (.obj [("operation", tag0 op.variant), ("left_value", encRes l), ("right_value", encRes r),
      ("register_number", .num reg)])
  | .call f ps reg => tag1 "Call" (.obj [("call", encFunc f), ("params", .arr (encResL ps)), ("register_number", .num reg)])
  | .letBinding v r => tag1 "LetBinding" (.obj [("let_decl", encValue v), ("expr_result", encRes r)])
  | .binding v r => tag1 "Binding" (.obj [("val", encValue v), ("expr_result", encRes r)])
  | .fnDecl n ps res => tag1 "FunctionDeclaration" (.obj [("name", .str n), ("parameters", .arr (encFuncParamL ps)), ("result_type", encTy res)])
  | .const c => tag1 "Constant" (.obj [("const_decl", encConstSem c)])
  | .types n attrs => tag1 "Types" (.obj [("type_decl", .obj [("name", .str n), ("attributes", .obj (encAttrMap attrs)), ("methods", .obj [])])])
  | .fnReturn r => tag1 "ExpressionFunctionReturn" (.obj [("expr_result", encRes r)])
  | .fnReturnWithLabel r => tag1 "ExpressionFunctionReturnWithLabel" (.obj [("expr_result", encRes r)])
  | .setLabel l => tag1 "SetLabel" (.obj [("label", .str l)])
  | .jumpTo l => tag1 "JumpTo" (.obj [("label", .str l)])
  | .ifCondExpr r lb le =>
    tag1 "IfConditionExpression" (.obj [("expr_result", encRes r), ("label_if_begin", .str lb), ("label_if_end", .str le)])
  | .condExpr l r c reg =>
    tag1 "ConditionExpression" (.obj [("left_result", encRes l), ("right_result", encRes r), ("condition", tag0 c.variant),
      ("register_number", .num reg)])
  | .jumpFnReturn r => tag1 "JumpFunctionReturn" (.obj [("expr_result", encRes r)])
  | .logicCond c l r reg =>
    tag1 "LogicCondition" (.obj [("logic_condition", tag0 c.variant), ("left_register_result", .num l),
      ("right_register_result", .num r), ("register_number", .num reg)])
  | .ifCondLogic lb le reg =>
    tag1 "IfConditionLogic" (.obj [("label_if_begin", .str lb), ("label_if_end", .str le), ("result_register", .num reg)])
  | .fnArg v p => tag1 "FunctionArg" (.obj [("value", encValue v), ("func_arg", encFuncParam p)])
  | .ext tag ty reg => tag1 "ExtendedExpression" (.obj [("tag", .num tag), ("ty", .num (extTyCodeN ty)), ("reg", .num reg)])
where
  extTyCodeN : PrimTy → Nat
    | .u8 => 0 | .u16 => 1 | .u32 => 2 | .u64 => 3 | .i8 => 4 | .i16 => 5 | .i32 => 6 | .i64 => 7
    | .f32 => 8 | .f64 => 9 | .bool => 10 | .char => 11 | .ptr => 12 | .none => 13

def encInstrL : List Instr → List Json
  | [] => []
  | i :: is => encInstr i :: encInstrL is

/-- `SemanticStack` is a newtype around a `Vec` -/
def encStack (l : List Instr) : Json := .arr (encInstrL l)

end SemVerif
