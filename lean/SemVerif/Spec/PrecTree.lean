import SemVerif.Fold
/-!
# Spec/PrecTree — the precedence tree of a flat chain (DESIGN §3.5)

`Correct prio t`: every operator in the left subtree of a node has priority ≥, every operator in
the right subtree priority > that of the node — "higher priority binds tighter, equal priority
associates to the left".  `t.flat` is the in-order token sequence.  A tree with a given token
sequence that satisfies `Correct` is unique (`correct_unique`, in Props/C07).
-/
namespace SemVerif

variable {α : Type} (prio : Op → Nat)

inductive Tok (α : Type) where
  | val (a : α)
  | op (o : Op)

def W.flat : W α → List (Tok α)
  | .atom a => [.val a]
  | .pair l o r => l.flat ++ .op o :: r.flat

/-- higher priority binds tighter; equal priority associates to the left -/
def Correct : W α → Prop
  | .atom _ => True
  | .pair l o r => Correct l ∧ Correct r ∧ (∀ o' ∈ l.ops, prio o ≤ prio o') ∧ (∀ o' ∈ r.ops, prio o < prio o')

def chainFlat (v0 : α) (rest : List (Op × α)) : List (Tok α) :=
  .val v0 :: rest.flatMap (fun x => [Tok.op x.1, Tok.val x.2])

end SemVerif
