import SemVerif.SemTypes
import SemVerif.Fold
import SemVerif.Generated
/-!
# Spec/RuleSet — the rule set of DESIGN.md §3.1 as a reference checker

`refCheck p` lists rule violations in analysis order (§3.3).  It has its own scope and type
computation and shares with the analyzer model only the AST, `Ty` and the precedence tree
specification.  A violation carries the rule instance, the error kind the analyzer advertises
for it, the identifier it names, and whether the current analyzer enforces that instance
(the unenforced instances are the recorded findings F6a, F8, F9, F10).

Only two things are ever used: whether the list is empty and its first (enforced) entry;
a construct therefore contributes at most its first enforced violation.
-/
namespace SemVerif

structure Viol where
  rule : String
  kind : ErrKind
  name : Name
  enforced : Bool
  deriving Repr, Inhabited, DecidableEq

/-- reference precedence tree: the root is the rightmost operator of minimal priority
(`fuel` ≥ number of operators) -/
def specTreeF {α : Type} (prio : Op → Nat) : Nat → α → List (Op × α) → W α
  | 0, v, _ => .atom v
  | _ + 1, v, [] => .atom v
  | fuel + 1, v, rest =>
    -- position of the rightmost minimal operator
    let ps := rest.map fun x => prio x.1
    let m := ps.foldl Nat.min (ps.headD 0)
    let k := (ps.length - 1) - ((ps.reverse.findIdx? (· == m)).getD 0)
    let left := rest.take k
    match rest.drop k with
    | [] => .atom v
    | (o, w) :: right => .pair (specTreeF prio fuel v left) o (specTreeF prio fuel w right)

def specTree {α : Type} (prio : Op → Nat) (v : α) (rest : List (Op × α)) : W α :=
  specTreeF prio (rest.length + 1) v rest

/-- *The* precedence tree of a chain.  By `C07_fold_correct` / `C07_fold_unique` (Props/C07) the
operator-stack fold computes the unique tree with the chain's in-order tokens in which higher
priority binds tighter and equal priority associates to the left; the rule checker uses it as the
canonical function for that tree.  (`specTree`, the independent "rightmost operator of minimal
priority" definition, is what the executable predicates of C06/C07 compare the implementation
against.) -/
def precTree {α : Type} (prio : Op → Nat) (v : α) (rest : List (Op × α)) : W α := foldChain prio v rest

/-- registered global declarations as the rule checker sees them -/
structure RGlobals where
  types : List (Name × Ty)
  consts : List (Name × Ty)
  funcs : List (Name × List Ty × Ty)
  deriving Inhabited

def rlookup {β : Type} (n : Name) : List (Name × β) → Option β
  | [] => none
  | (k, v) :: rest => if n = k then some v else rlookup n rest

abbrev Scope := List (List (Name × Ty × Bool))

def Scope.lookup (n : Name) : Scope → Option (Ty × Bool)
  | [] => none
  | frame :: outer =>
    match rlookup n frame with
    | some x => some x
    | none => Scope.lookup n outer

def Scope.declare (n : Name) (t : Ty) (m : Bool) : Scope → Scope
  | [] => [[(n, t, m)]]
  | frame :: outer => ((n, t, m) :: frame) :: outer

/-- primitive, or a type registered under the type's display name (for a struct type its name;
array types are outside the rule set — nothing is ever registered under their display name unless
a struct is deliberately named like one) -/
def typeRegistered (g : RGlobals) : Ty → Bool
  | .prim _ => true
  | t => (rlookup t.show g.types).isSome

/-- result of checking an expression: violations met (unenforced ones may precede an enforced
one that aborted the expression) and the type when no enforced violation occurred -/
abbrev ERes := List Viol × Option Ty

def eOk (t : Ty) : ERes := ([], some t)
def eFail (rule : String) (k : ErrKind) (n : Name) : ERes := ([⟨rule, k, n, true⟩], none)

/-- combine the checks of a folded pair: left, right, then B6 -/
def checkPair (l r : ERes) : ERes :=
  match l with
  | (vl, none) => (vl, none)
  | (vl, some tl) =>
    match r with
    | (vr, none) => (vl ++ vr, none)
    | (vr, some tr) =>
      if tl ≠ tr then (vl ++ vr ++ [⟨"B6", .wrongExpressionType, tl.show, true⟩], none)
      else (vl ++ vr, some tr)

def checkTree : W ERes → ERes
  | .atom r => r
  | .pair l _ r => checkPair (checkTree l) (checkTree r)

/-- arguments against parameter types, left to right -/
def checkArgs : List ERes → List Ty → List Viol
  | [], [] => []
  | [], _ :: _ => [⟨"B5-fewer", .functionParameterTypeWrong, [], false⟩]
  | _ :: _, [] => []       -- more arguments: rejected before any argument is looked at
  | (va, none) :: _, _ :: _ => va
  | (va, some ta) :: as, tp :: ps =>
    if ta ≠ tp then va ++ [⟨"B5-type", .functionParameterTypeWrong, ta.show, true⟩]
    else va ++ checkArgs as ps

def checkCall (g : RGlobals) (f : Name) (args : List ERes) : ERes :=
  match rlookup f g.funcs with
  | none => eFail "B4" .functionNotFound f
  | some (ps, res) =>
    if ps.length < args.length then eFail "B5-more" .functionParameterTypeWrong f
    else
      let vs := checkArgs args ps
      if vs.any (·.enforced) then (vs, none) else (vs, some res)

def checkVar (g : RGlobals) (sc : Scope) (x : Name) : ERes :=
  match sc.lookup x with
  | some (t, _) => eOk t
  | none =>
    match rlookup x g.consts with
    | some t => eOk t
    | none => eFail "B2-read" .valueNotFound x

def checkField (g : RGlobals) (sc : Scope) (x a : Name) : ERes :=
  match sc.lookup x with
  | none => eFail "B2-field" .valueNotFound x
  | some (t, _) =>
    match t with
    | .struct sn attrs =>
      match rlookup sn g.types with
      | none => eFail "B3-type" .typeNotFound x
      | some reg =>
        if t ≠ reg then eFail "B3-consistent" .wrongExpressionType x
        else match attrs.lookup a with
          | none => eFail "B3-attr" .valueNotStructField x
          | some (_, aty) => eOk aty
    | _ => eFail "B3-struct" .valueNotStruct x

mutual
def checkExpr (g : RGlobals) (sc : Scope) : Expr → ERes
  | .mk v rest => checkTree (precTree Generated.prio (checkVal g sc v) (checkRest g sc rest))
def checkRest (g : RGlobals) (sc : Scope) : Option (Op × Expr) → List (Op × ERes)
  | none => []
  | some (o, .mk v rest) => (o, checkVal g sc v) :: checkRest g sc rest
def checkVal (g : RGlobals) (sc : Scope) : ExprValue → ERes
  | .var x => checkVar g sc x
  | .lit v => eOk (.prim v.ty)
  | .call f args => checkCall g f (checkExprs g sc args)
  | .field x a => checkField g sc x a
  | .sub e => checkExpr g sc e
  | .ext _ t => eOk (.prim t)
def checkExprs (g : RGlobals) (sc : Scope) : List Expr → List ERes
  | [] => []
  | e :: es => checkExpr g sc e :: checkExprs g sc es
end

/-- checker state inside a body -/
structure RS where
  scope : Scope
  viols : List Viol
  deriving Inhabited

def RS.add (vs : List Viol) (s : RS) : RS := { s with viols := s.viols ++ vs }
def RS.viol (rule : String) (k : ErrKind) (n : Name) (s : RS) : RS := s.add [⟨rule, k, n, true⟩]
def RS.push (s : RS) : RS := { s with scope := [] :: s.scope }
def RS.pop (s : RS) : RS := { s with scope := s.scope.tail }

def checkLet (g : RGlobals) (b : LetB) (s : RS) : RS :=
  match checkExpr g s.scope b.value with
  | (vs, none) => s.add vs
  | (vs, some t) =>
    let s := s.add vs
    if letTypeBad b.ty t then s.viol "B7" .wrongLetType b.name
    else { s with scope := s.scope.declare b.name t b.mutable }

def checkBind (g : RGlobals) (b : Bind) (s : RS) : RS :=
  match checkExpr g s.scope b.value with
  | (vs, none) => s.add vs
  | (vs, some t) =>
    let s := s.add vs
    match s.scope.lookup b.name with
    | none => s.viol "B2-assign" .valueNotFound b.name
    | some (tv, m) =>
      if !m then s.viol "B8-mutable" .valueIsNotMutable b.name
      else if tv ≠ t then s.viol "B8-type" .wrongExpressionType b.name
      else s

def checkCallS (g : RGlobals) (c : CallS) (s : RS) : RS :=
  s.add (checkCall g c.name (checkExprs g s.scope c.args)).1

/-- B9 over a right-nested chain of comparisons; stops at the first failing comparison -/
def checkLogic (g : RGlobals) (sc : Scope) : LogicCond → List Viol
  | .mk c right =>
    let (vl, tl) := checkExpr g sc c.left
    let (vr, tr) := checkExpr g sc c.right
    match tl, tr with
    | some tl, some tr =>
      if tl ≠ tr then vl ++ vr ++ [⟨"B9-type", .conditionExpressionWrongType, tl.show, true⟩]
      else if !tl.isPrim then vl ++ vr ++ [⟨"B9-prim", .conditionExpressionNotSupported, tl.show, true⟩]
      else
        match right with
        | none => vl ++ vr
        | some (_, rc) => vl ++ vr ++ checkLogic g sc rc
    | _, _ => vl ++ vr ++ [⟨"cond-empty", .conditionIsEmpty, wildcard, true⟩]

def checkIfCond (g : RGlobals) (c : IfCond) (s : RS) : RS :=
  match c with
  | .single e => s.add (checkExpr g s.scope e).1
  | .logic lc => s.add (checkLogic g s.scope lc)

/-- a `Return` inside a nested body: expression, then B11 (unenforced, finding F9) -/
def checkNestedRet (g : RGlobals) (resTy : Ty) (e : Expr) (s : RS) : RS × Bool :=
  match checkExpr g s.scope e with
  | (vs, none) => (s.add vs, false)
  | (vs, some t) =>
    let s := s.add vs
    let s := if !typeRegistered g t then s.add [⟨"B11-nested-type", .typeNotFound, e.show, false⟩] else s
    let s := if t ≠ resTy then s.add [⟨"B11-nested", .wrongReturnType, e.show, false⟩] else s
    (s, true)

def codeAfter (rc bc cc : Bool) (s : RS) : RS :=
  let s := if rc then s.viol "B13-return" .forbiddenCodeAfterReturnDeprecated wildcard else s
  let s := if bc then s.viol "B13-break" .forbiddenCodeAfterBreakDeprecated wildcard else s
  if cc then s.viol "B13-continue" .forbiddenCodeAfterContinueDeprecated wildcard else s

mutual
def checkIf (g : RGlobals) (resTy : Ty) : IfStmt → RS → RS
  | .mk cond body els elif, s =>
    let s := if els.isSome && elif.isSome then s.viol "B10" .ifElseDuplicated "if-condition".toList else s
    -- the condition is analysed in the (still empty) block of the if-body
    let s := (checkBodies g resTy body (checkIfCond g cond s.push)).pop
    match els, elif with
    | some eb, _ => (checkBodies g resTy eb s.push).pop
    | none, some ei => checkIf g resTy ei s
    | none, none => s
def checkBodies (g : RGlobals) (resTy : Ty) : IfBodies → RS → RS
  | .ifb l, s => checkIfBody g resTy l false s
  | .loopb l, s => checkIfLoopBody g resTy l false false false s
def checkIfBody (g : RGlobals) (resTy : Ty) : List IfBodyStmt → Bool → RS → RS
  | [], _, s => s
  | st :: tl, rc, s =>
    let s := codeAfter rc false false s
    match st with
    | .letB b => checkIfBody g resTy tl rc (checkLet g b s)
    | .bind b => checkIfBody g resTy tl rc (checkBind g b s)
    | .call c => checkIfBody g resTy tl rc (checkCallS g c s)
    | .ifS i => checkIfBody g resTy tl rc (checkIf g resTy i s)
    | .loop b => checkIfBody g resTy tl rc (checkLoopBody g resTy b false false false s.push).pop
    | .ret e =>
      let (s, r) := checkNestedRet g resTy e s
      checkIfBody g resTy tl (rc || r) s
def checkIfLoopBody (g : RGlobals) (resTy : Ty) : List IfLoopStmt → Bool → Bool → Bool → RS → RS
  | [], _, _, _, s => s
  | st :: tl, rc, bc, cc, s =>
    let s := codeAfter rc bc cc s
    match st with
    | .letB b => checkIfLoopBody g resTy tl rc bc cc (checkLet g b s)
    | .bind b => checkIfLoopBody g resTy tl rc bc cc (checkBind g b s)
    | .call c => checkIfLoopBody g resTy tl rc bc cc (checkCallS g c s)
    | .ifS i => checkIfLoopBody g resTy tl rc bc cc (checkIf g resTy i s)
    | .loop b => checkIfLoopBody g resTy tl rc bc cc (checkLoopBody g resTy b false false false s.push).pop
    | .ret e =>
      let (s, r) := checkNestedRet g resTy e s
      checkIfLoopBody g resTy tl (rc || r) bc cc s
    | .brk => checkIfLoopBody g resTy tl rc true cc s
    | .cont => checkIfLoopBody g resTy tl rc bc true s
def checkLoopBody (g : RGlobals) (resTy : Ty) : List LoopStmt → Bool → Bool → Bool → RS → RS
  | [], _, _, _, s => s
  | st :: tl, rc, bc, cc, s =>
    let s := codeAfter rc bc cc s
    match st with
    | .letB b => checkLoopBody g resTy tl rc bc cc (checkLet g b s)
    | .bind b => checkLoopBody g resTy tl rc bc cc (checkBind g b s)
    | .call c => checkLoopBody g resTy tl rc bc cc (checkCallS g c s)
    | .ifS i => checkLoopBody g resTy tl rc bc cc (checkIf g resTy i s)
    | .loop b => checkLoopBody g resTy tl rc bc cc (checkLoopBody g resTy b false false false s.push).pop
    | .ret e =>
      let (s, r) := checkNestedRet g resTy e s
      checkLoopBody g resTy tl (rc || r) bc cc s
    | .brk => checkLoopBody g resTy tl rc true cc s
    | .cont => checkLoopBody g resTy tl rc bc true s
end

/-- B11 on a function-level return whose expression has type `t` -/
def checkFnRetTail (g : RGlobals) (resTy : Ty) (e : Expr) (t : Ty) (s : RS) : RS :=
  let s := if !typeRegistered g t then s.viol "B11-type" .typeNotFound e.show else s
  if t ≠ resTy then s.viol "B11" .wrongReturnType e.show else s

/-- function-level `Return` / `Expression` statement: expression, B12, B11 -/
def checkFnRet (g : RGlobals) (resTy : Ty) (e : Expr) (rc : Bool) (s : RS) : RS × Bool :=
  let (vs, t) := checkExpr g s.scope e
  let s := s.add vs
  let s := if rc then s.viol "B12-twice" .returnAlreadyCalled e.show else s
  match t with
  | none => (s, rc)
  | some t => (checkFnRetTail g resTy e t s, true)

def checkBody (g : RGlobals) (resTy : Ty) : List BodyStmt → Bool → RS → RS × Bool
  | [], rc, s => (s, rc)
  | st :: tl, rc, s =>
    let s := if rc then s.viol "B12-after" .forbiddenCodeAfterReturnDeprecated wildcard else s
    match st with
    | .letB b => checkBody g resTy tl rc (checkLet g b s)
    | .bind b => checkBody g resTy tl rc (checkBind g b s)
    | .call c => checkBody g resTy tl rc (checkCallS g c s)
    | .ifS i => checkBody g resTy tl rc (checkIf g resTy i s)
    | .loop b => checkBody g resTy tl rc (checkLoopBody g resTy b false false false s.push).pop
    | .expr e | .ret e =>
      let (s, rc) := checkFnRet g resTy e rc s
      checkBody g resTy tl rc s

/-- B1: parameters are registered up to the first duplicate -/
def checkParams : List (Name × ATy) → RS → RS
  | [], s => s
  | (n, t) :: rest, s =>
    match s.scope.lookup n with
    | some _ => s.viol "B1" .functionArgumentNameDuplicated n
    | none => checkParams rest { s with scope := s.scope.declare n t.toTy false }

def checkFn (g : RGlobals) (f : FnDecl) : List Viol :=
  let s := checkParams f.params { scope := [[]], viols := [] }
  let (s, rc) := checkBody g f.result.toTy f.body false s
  let s := if rc then s else s.viol "B12-none" .returnNotFound []
  s.viols

/-! ### Declarations -/

structure DS where
  g : RGlobals
  viols : List Viol
  /-- registered struct declarations, in order -/
  rtypes : List StructDecl := []
  /-- registered constant and function declarations, in source order -/
  rdecls : List TopStmt := []

def DS.viol (rule : String) (k : ErrKind) (n : Name) (enf : Bool) (s : DS) : DS :=
  { s with viols := s.viols ++ [⟨rule, k, n, enf⟩] }

/-- D1 (and D2 against the set of all declared type names, unenforced: finding F10) -/
def declTypes (allNames : List Name) : Program → DS → DS
  | [], s => s
  | .types d :: rest, s =>
    if (rlookup d.name s.g.types).isSome then declTypes allNames rest (s.viol "D1" .typeAlreadyExist d.name true)
    else
      let badAttr := d.attrs.any fun (_, t) => match t with
        | .prim _ => false
        | .struct n _ => !allNames.contains n
        | .array _ _ => true
      let s := if badAttr then s.viol "D2" .typeNotFound d.name false else s
      declTypes allNames rest
        { s with g := { s.g with types := s.g.types ++ [(d.name, .struct d.name (attrsToMap d.attrs 0 .nil))] },
                 rtypes := s.rtypes ++ [d] }
  | _ :: rest, s => declTypes allNames rest s

/-- D4 over the operands after the first one -/
def constTailMissing (g : RGlobals) : CExpr → Option Name
  | .last (.const n) => if (rlookup n g.consts).isSome then none else some n
  | .last (.val _) => none
  | .cons (.const n) _ rest => if (rlookup n g.consts).isSome then constTailMissing g rest else some n
  | .cons (.val _) _ rest => constTailMissing g rest

def CExpr.headV : CExpr → CVal
  | .last v => v
  | .cons v _ _ => v

def CExpr.tail? : CExpr → Option CExpr
  | .last _ => none
  | .cons _ _ r => some r

def paramTypeMissing (g : RGlobals) : List (Name × ATy) → Option Name
  | [] => none
  | (n, t) :: rest => if typeRegistered g t.toTy then paramTypeMissing g rest else some n

/-- D4 on the first operand of a constant expression is not enforced (finding F6a): it is noted,
nothing else changes -/
def noteHead (d : ConstDecl) (s : DS) : DS :=
  match d.value.headV with
  | .const n => if (rlookup n s.g.consts).isSome then s else s.viol "D4-head" .constantNotFound n false
  | .val _ => s

/-- D3–D7 in source order -/
def declConstsFns : Program → DS → DS
  | [], s => s
  | .const d :: rest, s =>
    if (rlookup d.name s.g.consts).isSome then declConstsFns rest (s.viol "D3" .constantAlreadyExist d.name true)
    else
      let s := noteHead d s
      match d.value.tail?.bind (constTailMissing s.g) with
      | some n => declConstsFns rest (s.viol "D4" .constantNotFound n true)
      | none =>
        if !typeRegistered s.g d.ty.toTy then declConstsFns rest (s.viol "D5" .typeNotFound d.name true)
        else declConstsFns rest { s with g := { s.g with consts := s.g.consts ++ [(d.name, d.ty.toTy)] },
                                         rdecls := s.rdecls ++ [.const d] }
  | .fn f :: rest, s =>
    if (rlookup f.name s.g.funcs).isSome then declConstsFns rest (s.viol "D6" .functionAlreadyExist f.name true)
    else if !typeRegistered s.g f.result.toTy then declConstsFns rest (s.viol "D7-result" .typeNotFound f.name true)
    else
      match paramTypeMissing s.g f.params with
      | some n => declConstsFns rest (s.viol "D7-param" .typeNotFound n true)
      | none =>
        declConstsFns rest
          { s with g := { s.g with funcs := s.g.funcs ++ [(f.name, f.params.map (·.2.toTy), f.result.toTy)] },
                   rdecls := s.rdecls ++ [.fn f] }
  | _ :: rest, s => declConstsFns rest s

def Program.typeNames : Program → List Name
  | [] => []
  | .types d :: rest => d.name :: Program.typeNames rest
  | _ :: rest => Program.typeNames rest

def Program.fnDecls : Program → List FnDecl
  | [] => []
  | .fn f :: rest => f :: Program.fnDecls rest
  | _ :: rest => Program.fnDecls rest

/-- the declaration phase: registered declarations and declaration violations -/
def declPhase (p : Program) : DS :=
  declConstsFns p (declTypes p.typeNames p { g := { types := [], consts := [], funcs := [] }, viols := [] })

/-- all rule violations in analysis order -/
def refCheck (p : Program) : List Viol :=
  let s := declPhase p
  s.viols ++ (p.fnDecls.map (checkFn s.g)).flatten

/-- the violations the current analyzer enforces -/
def refCheckEnf (p : Program) : List Viol := (refCheck p).filter (·.enforced)

def WellFormedB (p : Program) : Bool := (refCheck p).isEmpty

/-! ### The documented precondition: loop-flavoured if-bodies only inside loops -/

mutual
def IfStmt.loopOK (inLoop : Bool) : IfStmt → Bool
  | .mk _ body els elif =>
    IfBodies.loopOK inLoop body &&
    (match els with | some eb => IfBodies.loopOK inLoop eb | none => true) &&
    (match elif with | some ei => IfStmt.loopOK inLoop ei | none => true)
def IfBodies.loopOK (inLoop : Bool) : IfBodies → Bool
  | .ifb l => IfBodyStmt.loopOKL inLoop l
  | .loopb l => inLoop && IfLoopStmt.loopOKL l
def IfBodyStmt.loopOKL (inLoop : Bool) : List IfBodyStmt → Bool
  | [] => true
  | .ifS i :: tl => IfStmt.loopOK inLoop i && IfBodyStmt.loopOKL inLoop tl
  | .loop b :: tl => LoopStmt.loopOKL b && IfBodyStmt.loopOKL inLoop tl
  | _ :: tl => IfBodyStmt.loopOKL inLoop tl
def IfLoopStmt.loopOKL : List IfLoopStmt → Bool
  | [] => true
  | .ifS i :: tl => IfStmt.loopOK true i && IfLoopStmt.loopOKL tl
  | .loop b :: tl => LoopStmt.loopOKL b && IfLoopStmt.loopOKL tl
  | _ :: tl => IfLoopStmt.loopOKL tl
def LoopStmt.loopOKL : List LoopStmt → Bool
  | [] => true
  | .ifS i :: tl => IfStmt.loopOK true i && LoopStmt.loopOKL tl
  | .loop b :: tl => LoopStmt.loopOKL b && LoopStmt.loopOKL tl
  | _ :: tl => LoopStmt.loopOKL tl
end

def BodyStmt.loopOKL : List BodyStmt → Bool
  | [] => true
  | .ifS i :: tl => IfStmt.loopOK false i && BodyStmt.loopOKL tl
  | .loop b :: tl => LoopStmt.loopOKL b && BodyStmt.loopOKL tl
  | _ :: tl => BodyStmt.loopOKL tl

def LoopOKB (p : Program) : Bool := p.fnDecls.all fun f => BodyStmt.loopOKL f.body

end SemVerif
