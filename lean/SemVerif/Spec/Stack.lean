import SemVerif.Analyzer
/-!
# Spec/Stack — observations on instruction stacks and block trees, and the decidable output
predicates of the properties that speak about one function's stack (C04, C08–C12, C18).

Every predicate returns the list of *failing instances* as tags; `[]` means the property holds.
A tag that starts with `F<n>:` is an instance matched by the matcher of a recorded finding.
-/
namespace SemVerif

def RVal.regs : RVal → List Nat
  | .reg r => [r]
  | .prim _ => []

def ExprResult.regs (r : ExprResult) : List Nat := r.val.regs

/-- result register written by an instruction -/
def Instr.writes : Instr → Option Nat
  | .exprValue _ r | .exprConst _ r | .exprStructValue _ _ r | .exprOp _ _ _ r | .call _ _ r
  | .condExpr _ _ _ r | .logicCond _ _ _ r | .ext _ _ r => some r
  | _ => none

/-- registers read by an instruction (operands, logic inputs, subject of a conditional) -/
def Instr.reads : Instr → List Nat
  | .exprOp _ l r _ => l.regs ++ r.regs
  | .call _ ps _ => ps.flatMap ExprResult.regs
  | .letBinding _ r | .binding _ r | .fnReturn r | .fnReturnWithLabel r | .jumpFnReturn r => r.regs
  | .ifCondExpr r _ _ => r.regs
  | .condExpr l r _ _ => l.regs ++ r.regs
  | .logicCond _ l r _ => [l, r]
  | .ifCondLogic _ _ r => [r]
  | _ => []

def Instr.setsLabel : Instr → Option Name
  | .setLabel l => some l
  | _ => none

def Instr.targets : Instr → List Name
  | .jumpTo l => [l]
  | .ifCondExpr _ b e => [b, e]
  | .ifCondLogic b e _ => [b, e]
  | _ => []

def Instr.isFnReturn : Instr → Bool
  | .fnReturn _ | .fnReturnWithLabel _ => true
  | _ => false

def Instr.isJumpReturn : Instr → Bool
  | .jumpFnReturn _ => true
  | _ => false

/-- function-return or jump-to-return instruction -/
def Instr.isRet (i : Instr) : Bool := i.isFnReturn || i.isJumpReturn

/-- value record introduced by a declaration instruction -/
def Instr.declares : Instr → Option Value
  | .fnArg v _ | .letBinding v _ => some v
  | _ => none

/-- value record carried by a read / field read / assignment -/
def Instr.usesValue : Instr → Option Value
  | .exprValue v _ | .exprStructValue v _ _ | .binding v _ => some v
  | _ => none

/-- tag of an extension instruction -/
def Instr.extTag : Instr → Option Nat
  | .ext t _ _ => some t
  | _ => none

def resultRegs (stack : List Instr) : List Nat := stack.filterMap Instr.writes
def setLabels (stack : List Instr) : List Name := stack.filterMap Instr.setsLabel
def jumpTargets (stack : List Instr) : List Name := stack.flatMap Instr.targets
def declValues (stack : List Instr) : List Value := stack.filterMap Instr.declares
def declNames (stack : List Instr) : List Name := (declValues stack).map (·.innerName)

def strictlyIncreasing : List Nat → Bool
  | [] => true
  | [_] => true
  | a :: b :: rest => a < b && strictlyIncreasing (b :: rest)

def nodupB {α : Type} [DecidableEq α] : List α → Bool
  | [] => true
  | a :: rest => !rest.contains a && nodupB rest

/-! ### C09 -/

/-- C09 on one function stack: result registers strictly increasing, first one ≥ 1 -/
def c09Stack (stack : List Instr) : Bool :=
  strictlyIncreasing (resultRegs stack) && (resultRegs stack).all (1 ≤ ·)

def P_C09 (r : Result) : List String :=
  (r.roots.zipIdx.filter fun (b, _) => !c09Stack b.context).map fun (_, i) => s!"c09:fn{i}:result-registers-not-strictly-increasing"

/-! ### C08 -/

/-- positions of reads without an earlier writer: (position, register) -/
def unwrittenReads : List Instr → List Nat → Nat → List (Nat × Nat)
  | [], _, _ => []
  | i :: rest, written, pos =>
    let bad := (i.reads.filter fun r => !written.contains r).map fun r => (pos, r)
    let written := match i.writes with
      | some r => r :: written
      | none => written
    bad ++ unwrittenReads rest written (pos + 1)

/-- finding F7: `r` is one past a register written by an earlier call / field read, and nothing
writes `r` -/
def isF7alias (stack : List Instr) (pos r : Nat) : Bool :=
  r ≥ 1 && !(resultRegs stack).contains r &&
  (stack.take pos).any fun i => match i with
    | .call _ _ r' | .exprStructValue _ _ r' => r' + 1 = r
    | _ => false

def P_C08_stack (stack : List Instr) (fnIdx : Nat) : List String :=
  (unwrittenReads stack [] 0).map fun (pos, r) =>
    if isF7alias stack pos r then "F7:operand-names-register-after-call-or-field-read"
    else s!"c08:fn{fnIdx}:pos{pos}:reg{r}:read-before-write"

def P_C08 (r : Result) : List String :=
  (r.roots.zipIdx.flatMap fun (b, i) => P_C08_stack b.context i).eraseDups

/-! ### C10 -/

def P_C10_unique (r : Result) : List String :=
  (r.roots.zipIdx.filter fun (b, _) => !nodupB (setLabels b.context)).map fun (_, i) => s!"c10:fn{i}:label-set-twice"

/-- targets that are not set in the same stack -/
def unresolvedTargets (stack : List Instr) : List Name :=
  ((jumpTargets stack).filter fun l => !(setLabels stack).contains l).eraseDups

def isLoopEndLabel (l : Name) : Bool := "loop_end".toList.isPrefixOf l

/-! ### C11 -/

def countP (p : Instr → Bool) (l : List Instr) : Nat := (l.filter p).length

def P_C11_block (root : Block) (i : Nat) : List String :=
  let stack := root.context
  let lastOk := match stack.getLast? with
    | some x => x.isFnReturn
    | none => false
  let one := countP Instr.isFnReturn stack == 1
  let hasJump := stack.any Instr.isJumpReturn
  let form := match stack.getLast? with
    | some (.fnReturnWithLabel _) => hasJump
    | some (.fnReturn _) => !hasJump
    | _ => false
  let nested := countP Instr.isJumpReturn stack == (root.children.map fun c => countP Instr.isJumpReturn c.context).sum
  (if lastOk then [] else [s!"c11:fn{i}:last-instruction-is-not-a-function-return"]) ++
  (if one then [] else [s!"c11:fn{i}:not-exactly-one-function-return"]) ++
  (if form then [] else [s!"c11:fn{i}:return-form-does-not-match-jump-to-return"]) ++
  (if nested then [] else [s!"c11:fn{i}:jump-to-return-at-function-level"])

def P_C11 (r : Result) : List String :=
  r.roots.zipIdx.flatMap fun (b, i) => P_C11_block b i

/-! ### C12 -/

/-- uses whose value record was not introduced by an earlier declaration of the stack -/
def badUses : List Instr → List Value → Nat → List Nat
  | [], _, _ => []
  | i :: rest, decls, pos =>
    let bad := match i.usesValue with
      | some v => if decls.contains v then [] else [pos]
      | none => []
    let decls := match i.declares with
      | some v => v :: decls
      | none => decls
    bad ++ badUses rest decls (pos + 1)

def P_C12 (r : Result) : List String :=
  r.roots.zipIdx.flatMap fun (b, i) =>
    (if nodupB (declNames b.context) then [] else [s!"c12:fn{i}:internal-name-declared-twice"]) ++
    ((badUses b.context [] 0).map fun pos => s!"c12:fn{i}:pos{pos}:value-record-differs-from-declaration")

/-! ### C18 (shape, links, subsequence) -/

def isSubseq {α : Type} [DecidableEq α] : List α → List α → Bool
  | [], _ => true
  | _ :: _, [] => false
  | a :: as, b :: bs => if a = b then isSubseq as bs else isSubseq (a :: as) bs

/-- shape of a block tree; `lets` are the source names declared directly in the block (only
filled in for source shapes) -/
inductive Shape where
  | node (lets : List Name) (children : List Shape)
  deriving Repr, Inhabited

mutual
/-- same nesting (the `lets` annotation is ignored) -/
def Shape.same : Shape → Shape → Bool
  | .node _ a, .node _ b => Shape.sameL a b
def Shape.sameL : List Shape → List Shape → Bool
  | [], [] => true
  | x :: xs, y :: ys => Shape.same x y && Shape.sameL xs ys
  | _, _ => false
end

mutual
def Shape.toString : Shape → String
  | .node _ cs => "(" ++ Shape.toStringL cs ++ ")"
def Shape.toStringL : List Shape → String
  | [] => ""
  | [x] => Shape.toString x
  | x :: xs => Shape.toString x ++ " " ++ Shape.toStringL xs
end

mutual
/-- nesting of a block tree -/
def Block.shape : Block → Shape
  | ⟨_, _, _, _, _, children, _⟩ => .node [] (Block.shapes children)
def Block.shapes : List Block → List Shape
  | [] => []
  | b :: bs => Block.shape b :: Block.shapes bs
end

mutual
/-- every block's stack is an order-preserving subsequence of its parent's, recursively -/
def Block.subseqOk : Block → Bool
  | ⟨_, _, _, _, _, children, context⟩ => Block.subseqOkL context children
def Block.subseqOkL : List Instr → List Block → Bool
  | _, [] => true
  | ctx, c :: cs => isSubseq c.context ctx && Block.subseqOk c && Block.subseqOkL ctx cs
end

def IfBodyStmt.letsL : List IfBodyStmt → List Name
  | [] => []
  | .letB b :: tl => b.name :: IfBodyStmt.letsL tl
  | _ :: tl => IfBodyStmt.letsL tl
def IfLoopStmt.letsL : List IfLoopStmt → List Name
  | [] => []
  | .letB b :: tl => b.name :: IfLoopStmt.letsL tl
  | _ :: tl => IfLoopStmt.letsL tl
def LoopStmt.letsL : List LoopStmt → List Name
  | [] => []
  | .letB b :: tl => b.name :: LoopStmt.letsL tl
  | _ :: tl => LoopStmt.letsL tl
def BodyStmt.letsL : List BodyStmt → List Name
  | [] => []
  | .letB b :: tl => b.name :: BodyStmt.letsL tl
  | _ :: tl => BodyStmt.letsL tl
def IfBodies.lets : IfBodies → List Name
  | .ifb l => IfBodyStmt.letsL l
  | .loopb l => IfLoopStmt.letsL l

mutual
/-- children created by an `if` statement in its *enclosing* block: if-body, then else-body or the
else-if's blocks (with both present only the else body) -/
def IfStmt.shapes : IfStmt → List Shape
  | .mk _ body els elif =>
    .node body.lets (IfBodies.shapes body) ::
      (match els, elif with
       | some eb, _ => [.node eb.lets (IfBodies.shapes eb)]
       | none, some ei => IfStmt.shapes ei
       | none, none => [])
def IfBodies.shapes : IfBodies → List Shape
  | .ifb l => IfBodyStmt.shapesL l
  | .loopb l => IfLoopStmt.shapesL l
def IfBodyStmt.shapesL : List IfBodyStmt → List Shape
  | [] => []
  | .ifS i :: tl => IfStmt.shapes i ++ IfBodyStmt.shapesL tl
  | .loop b :: tl => .node (LoopStmt.letsL b) (LoopStmt.shapesL b) :: IfBodyStmt.shapesL tl
  | _ :: tl => IfBodyStmt.shapesL tl
def IfLoopStmt.shapesL : List IfLoopStmt → List Shape
  | [] => []
  | .ifS i :: tl => IfStmt.shapes i ++ IfLoopStmt.shapesL tl
  | .loop b :: tl => .node (LoopStmt.letsL b) (LoopStmt.shapesL b) :: IfLoopStmt.shapesL tl
  | _ :: tl => IfLoopStmt.shapesL tl
def LoopStmt.shapesL : List LoopStmt → List Shape
  | [] => []
  | .ifS i :: tl => IfStmt.shapes i ++ LoopStmt.shapesL tl
  | .loop b :: tl => .node (LoopStmt.letsL b) (LoopStmt.shapesL b) :: LoopStmt.shapesL tl
  | _ :: tl => LoopStmt.shapesL tl
end

def BodyStmt.shapesL : List BodyStmt → List Shape
  | [] => []
  | .ifS i :: tl => IfStmt.shapes i ++ BodyStmt.shapesL tl
  | .loop b :: tl => .node (LoopStmt.letsL b) (LoopStmt.shapesL b) :: BodyStmt.shapesL tl
  | _ :: tl => BodyStmt.shapesL tl

/-- the nesting of the source function (root: parameters, then the lets of the body) -/
def FnDecl.sourceShape (f : FnDecl) : Shape :=
  .node (f.params.map (·.1) ++ BodyStmt.letsL f.body) (BodyStmt.shapesL f.body)

/-- what the value-table clause looks at: per block its value table, the value records its stack
declares (in order) and the same for its children -/
inductive DT where
  | node (values : List (Name × Value)) (decls : List Value) (children : List DT)
  deriving Inhabited

def DT.values : DT → List (Name × Value) | .node v _ _ => v
def DT.decls : DT → List Value | .node _ d _ => d
def DT.children : DT → List DT | .node _ _ c => c

mutual
def Block.dt : Block → DT
  | ⟨values, _, _, _, _, children, context⟩ => .node values (declValues context) (Block.dtL children)
def Block.dtL : List Block → List DT
  | [] => []
  | b :: bs => Block.dt b :: Block.dtL bs
end

/-- value records declared directly in a block: declarations of its stack that are in no child's
stack (`inner`: the declarations of the stack of a child that is still being analysed) -/
def DT.directDecls (t : DT) (inner : List Value) : List Value :=
  t.decls.filter fun v => !(t.children.any fun c => c.decls.contains v) && !(inner.contains v)

/-- the value table is what inserting the block's direct declarations under the names `lets`, in
order, yields -/
def tabOk (lets : List Name) (values : List (Name × Value)) (decls : List Value) : Bool :=
  let expected := (lets.zip decls).foldl (fun acc (n, v) => assocInsert n v acc) []
  lets.length == decls.length &&
  expected.length == values.length &&
  expected.all (fun (n, v) => assocGet n values == some v)

mutual
/-- each block's value table holds exactly the names declared directly in it, bound to their
latest declaration (for accepted well-formed functions) -/
def valuesOkD : Shape → DT → Bool
  | .node lets cs, .node values decls children =>
    tabOk lets values ((DT.node values decls children).directDecls []) && valuesOkDL cs children
def valuesOkDL : List Shape → List DT → Bool
  | [], [] => true
  | s :: ss, t :: ts => valuesOkD s t && valuesOkDL ss ts
  | _, _ => false
end

def valuesOk (sh : Shape) (b : Block) : Bool := valuesOkD sh b.dt

def P_C18_shape (p : Program) (r : Result) (linksOk : Bool) : List String :=
  (if linksOk then [] else ["c18:parent-link-wrong"]) ++
  (if r.roots.length == p.fns.length then [] else ["c18:number-of-root-blocks"]) ++
  ((p.fns.zip r.roots).zipIdx.flatMap fun ((f, b), i) =>
    (if b.shape.same f.sourceShape then [] else [s!"c18:fn{i}:tree-shape-differs-from-source-nesting"]) ++
    (if b.subseqOk then [] else [s!"c18:fn{i}:block-stack-not-a-subsequence-of-parent"]))

def P_C18_values (p : Program) (r : Result) : List String :=
  (p.fns.zip r.roots).zipIdx.flatMap fun ((f, b), i) =>
    if valuesOk f.sourceShape b then [] else [s!"c18:fn{i}:value-table-differs-from-direct-declarations"]

end SemVerif
