import SemVerif.Syntax
/-!
# Spec/Findings — syntactic matchers of the recorded control-flow findings

* `hasF2 f`: some if/else/else-if body contains an `if` statement that is not its last statement
  (the nested `if` reuses the enclosing end label, the statements after it are unreachable).
* `hasF3 f`: some loop has a loop-level `Return` and a `Break` that targets this loop from a
  nested `if` body (the loop's end label is then never set).
-/
namespace SemVerif

mutual
/-- a `Break` that targets the enclosing loop occurs in this `if` (not inside nested loops) -/
def IfStmt.hasBrk : IfStmt → Bool
  | .mk _ body els elif =>
    IfBodies.hasBrk body ||
    (match els with | some eb => IfBodies.hasBrk eb | none => false) ||
    (match elif with | some ei => IfStmt.hasBrk ei | none => false)
def IfBodies.hasBrk : IfBodies → Bool
  | .ifb l => IfBodyStmt.hasBrkL l
  | .loopb l => IfLoopStmt.hasBrkL l
def IfBodyStmt.hasBrkL : List IfBodyStmt → Bool
  | [] => false
  | .ifS i :: tl => IfStmt.hasBrk i || IfBodyStmt.hasBrkL tl
  | _ :: tl => IfBodyStmt.hasBrkL tl
def IfLoopStmt.hasBrkL : List IfLoopStmt → Bool
  | [] => false
  | .brk :: _ => true
  | .ifS i :: tl => IfStmt.hasBrk i || IfLoopStmt.hasBrkL tl
  | _ :: tl => IfLoopStmt.hasBrkL tl
end

def LoopStmt.hasRetL : List LoopStmt → Bool
  | [] => false
  | .ret _ :: _ => true
  | _ :: tl => LoopStmt.hasRetL tl

def LoopStmt.nestedBrkL : List LoopStmt → Bool
  | [] => false
  | .ifS i :: tl => IfStmt.hasBrk i || LoopStmt.nestedBrkL tl
  | .brk :: _ => true
  | _ :: tl => LoopStmt.nestedBrkL tl

mutual
def IfStmt.f3 : IfStmt → Bool
  | .mk _ body els elif =>
    IfBodies.f3 body ||
    (match els with | some eb => IfBodies.f3 eb | none => false) ||
    (match elif with | some ei => IfStmt.f3 ei | none => false)
def IfBodies.f3 : IfBodies → Bool
  | .ifb l => IfBodyStmt.f3L l
  | .loopb l => IfLoopStmt.f3L l
def IfBodyStmt.f3L : List IfBodyStmt → Bool
  | [] => false
  | .ifS i :: tl => IfStmt.f3 i || IfBodyStmt.f3L tl
  | .loop b :: tl => (LoopStmt.hasRetL b && LoopStmt.nestedBrkL b) || LoopStmt.f3L b || IfBodyStmt.f3L tl
  | _ :: tl => IfBodyStmt.f3L tl
def IfLoopStmt.f3L : List IfLoopStmt → Bool
  | [] => false
  | .ifS i :: tl => IfStmt.f3 i || IfLoopStmt.f3L tl
  | .loop b :: tl => (LoopStmt.hasRetL b && LoopStmt.nestedBrkL b) || LoopStmt.f3L b || IfLoopStmt.f3L tl
  | _ :: tl => IfLoopStmt.f3L tl
def LoopStmt.f3L : List LoopStmt → Bool
  | [] => false
  | .ifS i :: tl => IfStmt.f3 i || LoopStmt.f3L tl
  | .loop b :: tl => (LoopStmt.hasRetL b && LoopStmt.nestedBrkL b) || LoopStmt.f3L b || LoopStmt.f3L tl
  | _ :: tl => LoopStmt.f3L tl
end

def BodyStmt.f3L : List BodyStmt → Bool
  | [] => false
  | .ifS i :: tl => IfStmt.f3 i || BodyStmt.f3L tl
  | .loop b :: tl => (LoopStmt.hasRetL b && LoopStmt.nestedBrkL b) || LoopStmt.f3L b || BodyStmt.f3L tl
  | _ :: tl => BodyStmt.f3L tl

def FnDecl.hasF3 (f : FnDecl) : Bool := BodyStmt.f3L f.body

mutual
/-- `inBody`: the list is an if/else/else-if body -/
def IfStmt.f2 : IfStmt → Bool
  | .mk _ body els elif =>
    IfBodies.f2 body ||
    (match els with | some eb => IfBodies.f2 eb | none => false) ||
    (match elif with | some ei => IfStmt.f2 ei | none => false)
def IfBodies.f2 : IfBodies → Bool
  | .ifb l => IfBodyStmt.f2L l
  | .loopb l => IfLoopStmt.f2L l
def IfBodyStmt.f2L : List IfBodyStmt → Bool
  | [] => false
  | [.ifS i] => IfStmt.f2 i
  | .ifS _ :: _ :: _ => true
  | .loop b :: tl => LoopStmt.f2L b || IfBodyStmt.f2L tl
  | _ :: tl => IfBodyStmt.f2L tl
def IfLoopStmt.f2L : List IfLoopStmt → Bool
  | [] => false
  | [.ifS i] => IfStmt.f2 i
  | .ifS _ :: _ :: _ => true
  | .loop b :: tl => LoopStmt.f2L b || IfLoopStmt.f2L tl
  | _ :: tl => IfLoopStmt.f2L tl
def LoopStmt.f2L : List LoopStmt → Bool
  | [] => false
  | .ifS i :: tl => IfStmt.f2 i || LoopStmt.f2L tl
  | .loop b :: tl => LoopStmt.f2L b || LoopStmt.f2L tl
  | _ :: tl => LoopStmt.f2L tl
end

def BodyStmt.f2L : List BodyStmt → Bool
  | [] => false
  | .ifS i :: tl => IfStmt.f2 i || BodyStmt.f2L tl
  | .loop b :: tl => LoopStmt.f2L b || BodyStmt.f2L tl
  | _ :: tl => BodyStmt.f2L tl

def FnDecl.hasF2 (f : FnDecl) : Bool := BodyStmt.f2L f.body

end SemVerif
