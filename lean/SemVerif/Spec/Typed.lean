import SemVerif.Spec.Stack
import SemVerif.Spec.Traverse
/-!
# Spec/Typed — `TypedStack`: the recorded types of a function stack are mutually consistent (C04)

Mentions only the stack, the function's declared result type and the global tables of the same run.
F7 reading: register `r+1` after a call / field read writing `r` carries that instruction's type; a
register is never written twice with different types.
The scan is split into the environment it maintains (`tyStepEnv`: the type each register was
produced with, the value records declared so far) and the checks it makes on every instruction
(`tyStepBad`, a list of structured tags); `typedStack` numbers the failing checks by position.
-/
namespace SemVerif

def Attrs.byIndex (i : Nat) : Attrs → Option Ty
  | .nil => none
  | .cons _ j t rest => if i = j then some t else Attrs.byIndex i rest

structure TyEnv where
  regs : List (Nat × Ty)
  decls : List Value
  /-- the registers instructions have written so far, with the type written (no F7 aliases) -/
  written : List (Nat × Ty) := []
  deriving Inhabited

def TyEnv.reg (e : TyEnv) (r : Nat) : Option Ty := (e.regs.find? (·.1 == r)).map (·.2)

/-- the operand's recorded type agrees with the producer of its register / with its literal -/
def operandOk (e : TyEnv) (x : ExprResult) : Bool :=
  match x.val with
  | .prim v => x.ty == .prim v.ty
  | .reg r => match e.reg r with
    | some t => x.ty == t
    | none => true            -- an unwritten register is C08's subject

/-- the value record carried by a read / field read / assignment is the record of the latest
declaration of its internal name (with C12 — internal names are unique — simply "of its declaration") -/
def TyEnv.declOk (e : TyEnv) (v : Value) : Bool :=
  (e.decls.find? fun d => d.innerName == v.innerName) == some v

/-- the type a field read produces: the attribute of the value's struct type with that index -/
def fieldTy (v : Value) (idx : Nat) : Option Ty :=
  match v.ty with
  | .struct _ attrs => attrs.byIndex idx
  | _ => none

/-- what the scan remembers -/
def tyStepEnv (e : TyEnv) (i : Instr) : TyEnv :=
  match i with
  | .fnArg v _ => { e with decls := v :: e.decls }
  | .exprValue v r => { e with regs := (r, v.ty) :: e.regs, written := (r, v.ty) :: e.written }
  | .exprConst c r => { e with regs := (r, c.ty) :: e.regs, written := (r, c.ty) :: e.written }
  | .exprStructValue v idx r =>
    match fieldTy v idx with
    | some t => { e with regs := (r + 1, t) :: (r, t) :: e.regs, written := (r, t) :: e.written }
    | none => e
  | .exprOp _ _ r reg => { e with regs := (reg, r.ty) :: e.regs, written := (reg, r.ty) :: e.written }
  | .call f _ reg => { e with regs := (reg + 1, f.ty) :: (reg, f.ty) :: e.regs, written := (reg, f.ty) :: e.written }
  | .ext _ t reg => { e with regs := (reg, .prim t) :: e.regs, written := (reg, .prim t) :: e.written }
  | .letBinding v _ => { e with decls := v :: e.decls }
  | .condExpr _ _ _ reg => { e with regs := (reg, .prim .bool) :: e.regs, written := (reg, .prim .bool) :: e.written }
  | .logicCond _ _ _ reg => { e with regs := (reg, .prim .bool) :: e.regs, written := (reg, .prim .bool) :: e.written }
  | _ => e

/-- no instruction has written register `w` with another type before -/
def TyEnv.wOk (e : TyEnv) (w : Nat) (t : Ty) : Bool := e.written.all fun p => p.1 != w || p.2 == t

inductive TyBad where
  | readDecl | constTable | fieldIndex | fieldNonStruct | fieldDecl
  | opLeft | opRight | opDiffer
  | calleeTable | argCount | argType | argOperand
  | letOperand | letType
  | asgOperand | asgType | asgImmutable | asgDecl
  | cmpLeft | cmpRight | cmpDiffer | cmpNonPrim
  | condOperand | retOperand | retType | regRetyped
  deriving DecidableEq, Repr

def TyBad.msg : TyBad → String
  | .readDecl => "read-differs-from-declaration"
  | .constTable => "constant-differs-from-global-table"
  | .fieldIndex => "field-index-not-in-struct-type"
  | .fieldNonStruct => "field-read-of-non-struct"
  | .fieldDecl => "field-read-differs-from-declaration"
  | .opLeft => "left-operand-type"
  | .opRight => "right-operand-type"
  | .opDiffer => "operation-operands-differ"
  | .calleeTable => "callee-differs-from-global-table"
  | .argCount => "argument-count"
  | .argType => "argument-type"
  | .argOperand => "argument-operand-type"
  | .letOperand => "initialiser-operand-type"
  | .letType => "let-type-differs-from-initialiser"
  | .asgOperand => "assigned-operand-type"
  | .asgType => "assignment-type"
  | .asgImmutable => "assignment-to-immutable"
  | .asgDecl => "assignment-differs-from-declaration"
  | .cmpLeft => "left-side-type"
  | .cmpRight => "right-side-type"
  | .cmpDiffer => "comparison-sides-differ"
  | .cmpNonPrim => "comparison-of-non-primitive"
  | .condOperand => "condition-operand-type"
  | .retOperand => "return-operand-type"
  | .retType => "return-type-differs-from-result-type"
  | .regRetyped => "register-written-before-with-another-type"

def badIf (c : Bool) (t : TyBad) : List TyBad := if c then [] else [t]

/-- the checks on one instruction; `cOk` / `fOk`: the constant / function record is the entry of the
global table under its name -/
def tyStepBad (cOk : ConstSem → Bool) (fOk : Func → Bool) (resTy : Ty) (e : TyEnv) (i : Instr) : List TyBad :=
  match i with
  | .exprValue v r => badIf (e.declOk v) .readDecl ++ badIf (e.wOk r v.ty) .regRetyped
  | .exprConst c r => badIf (cOk c) .constTable ++ badIf (e.wOk r c.ty) .regRetyped
  | .exprStructValue v idx r =>
    match v.ty with
    | .struct _ _ =>
      match fieldTy v idx with
      | some t => badIf (e.declOk v) .fieldDecl ++ badIf (e.wOk r t) .regRetyped
      | none => [.fieldIndex]
    | _ => [.fieldNonStruct]
  | .exprOp _ l r reg =>
    badIf (operandOk e l) .opLeft ++ badIf (operandOk e r) .opRight ++ badIf (l.ty == r.ty) .opDiffer ++
    badIf (e.wOk reg r.ty) .regRetyped
  | .call f ps reg =>
    badIf (fOk f) .calleeTable ++ badIf (ps.length == f.params.length) .argCount ++
    badIf ((ps.zip f.params).all fun (a, t) => a.ty == t) .argType ++ badIf (ps.all (operandOk e)) .argOperand ++
    badIf (e.wOk reg f.ty) .regRetyped
  | .ext _ t reg => badIf (e.wOk reg (.prim t)) .regRetyped
  | .letBinding v x => badIf (operandOk e x) .letOperand ++ badIf (v.ty == x.ty) .letType
  | .binding v x =>
    badIf (operandOk e x) .asgOperand ++ badIf (v.ty == x.ty) .asgType ++ badIf v.mutable .asgImmutable ++
    badIf (e.declOk v) .asgDecl
  | .condExpr l r _ reg =>
    badIf (operandOk e l) .cmpLeft ++ badIf (operandOk e r) .cmpRight ++ badIf (l.ty == r.ty) .cmpDiffer ++
    badIf l.ty.isPrim .cmpNonPrim ++ badIf (e.wOk reg (.prim .bool)) .regRetyped
  | .logicCond _ _ _ reg => badIf (e.wOk reg (.prim .bool)) .regRetyped
  | .ifCondExpr x _ _ => badIf (operandOk e x) .condOperand
  | .fnReturn x | .fnReturnWithLabel x | .jumpFnReturn x =>
    badIf (operandOk e x) .retOperand ++ badIf (x.ty == resTy) .retType
  | _ => []

def typedGo (cOk : ConstSem → Bool) (fOk : Func → Bool) (resTy : Ty) : List Instr → TyEnv → Nat → List (Nat × TyBad)
  | [], _, _ => []
  | i :: rest, e, pos =>
    (tyStepBad cOk fOk resTy e i).map (fun b => (pos, b)) ++ typedGo cOk fOk resTy rest (tyStepEnv e i) (pos + 1)

def TyEnv.init : TyEnv := { regs := [], decls := [], written := [] }

/-- the two checks that the recorded findings F8 (a call with fewer arguments than the callee
declares is accepted) and F9 (the value of a return nested in an if / loop body is not compared
with the result type) can fail on programs the analyzer accepts; the rule set of C01 excludes both -/
def TyBad.known (i : Instr) : TyBad → Bool
  | .argCount => true
  | .retType => match i with
    | .jumpFnReturn _ => true
    | _ => false
  | _ => false

/-- C04 on one function -/
def typedStack (funcs : List (Name × Func)) (consts : List (Name × ConstSem)) (f : FnDecl) (stack : List Instr) : List String :=
  (typedGo (fun c => assocGet c.name consts == some c) (fun fd => assocGet fd.name funcs == some fd)
    f.result.toTy stack TyEnv.init 0).map fun (pos, b) => s!"pos{pos}:{b.msg}"

end SemVerif
