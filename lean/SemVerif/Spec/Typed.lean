import SemVerif.Spec.Stack
import SemVerif.Spec.Traverse
/-!
# Spec/Typed — `TypedStack`: the recorded types of a function stack are mutually consistent (C04)

Mentions only the stack, the function's declared result type, the global tables of the same run
and (for extension registers) the leaf types of the source.  F7 reading: register `r+1` after a
call / field read writing `r` carries that instruction's type.
-/
namespace SemVerif

def Attrs.byIndex (i : Nat) : Attrs → Option Ty
  | .nil => none
  | .cons _ j t rest => if i = j then some t else Attrs.byIndex i rest

structure TyEnv where
  regs : List (Nat × Ty)
  decls : List Value
  deriving Inhabited

def TyEnv.reg (e : TyEnv) (r : Nat) : Option Ty := (e.regs.find? (·.1 == r)).map (·.2)

/-- the operand's recorded type agrees with the producer of its register / with its literal -/
def operandOk (e : TyEnv) (x : ExprResult) : Bool :=
  match x.val with
  | .prim v => x.ty == .prim v.ty
  | .reg r => match e.reg r with
    | some t => x.ty == t
    | none => true            -- an unwritten register is C08's subject

/-- the value record carried by a read / field read / assignment is the record of the latest
declaration of its internal name (with C12 — internal names are unique — simply "of its declaration") -/
def TyEnv.declOk (e : TyEnv) (v : Value) : Bool :=
  (e.decls.find? fun d => d.innerName == v.innerName) == some v

def typedStep (funcs : List (Name × Func)) (consts : List (Name × ConstSem)) (resTy : Ty)
    (exts : List (Nat × PrimTy)) (e : TyEnv) (i : Instr) (pos : Nat) : TyEnv × List String :=
  let bad (c : Bool) (msg : String) : List String := if c then [] else [s!"pos{pos}:{msg}"]
  match i with
  | .fnArg v _ => ({ e with decls := v :: e.decls }, [])
  | .exprValue v r =>
    ({ e with regs := (r, v.ty) :: e.regs }, bad (e.declOk v) "read-differs-from-declaration")
  | .exprConst c r =>
    ({ e with regs := (r, c.ty) :: e.regs }, bad (assocGet c.name consts == some c) "constant-differs-from-global-table")
  | .exprStructValue v idx r =>
    match v.ty with
    | .struct _ attrs =>
      match attrs.byIndex idx with
      | some t => ({ e with regs := (r + 1, t) :: (r, t) :: e.regs }, bad (e.declOk v) "field-read-differs-from-declaration")
      | none => (e, [s!"pos{pos}:field-index-not-in-struct-type"])
    | _ => (e, [s!"pos{pos}:field-read-of-non-struct"])
  | .exprOp _ l r reg =>
    ({ e with regs := (reg, r.ty) :: e.regs },
     bad (operandOk e l) "left-operand-type" ++ bad (operandOk e r) "right-operand-type" ++ bad (l.ty == r.ty) "operation-operands-differ")
  | .call f ps reg =>
    ({ e with regs := (reg + 1, f.ty) :: (reg, f.ty) :: e.regs },
     bad (assocGet f.name funcs == some f) "callee-differs-from-global-table" ++
     bad (ps.length == f.params.length) "argument-count" ++
     bad ((ps.zip f.params).all fun (a, t) => a.ty == t) "argument-type" ++
     bad (ps.all (operandOk e)) "argument-operand-type")
  | .ext _ t reg => ({ e with regs := (reg, .prim t) :: e.regs }, [])
  | .letBinding v x =>
    ({ e with decls := v :: e.decls }, bad (operandOk e x) "initialiser-operand-type" ++ bad (v.ty == x.ty) "let-type-differs-from-initialiser")
  | .binding v x =>
    (e, bad (operandOk e x) "assigned-operand-type" ++ bad (v.ty == x.ty) "assignment-type" ++ bad v.mutable "assignment-to-immutable" ++
        bad (e.declOk v) "assignment-differs-from-declaration")
  | .condExpr l r _ reg =>
    ({ e with regs := (reg, .prim .bool) :: e.regs },
     bad (operandOk e l) "left-side-type" ++ bad (operandOk e r) "right-side-type" ++ bad (l.ty == r.ty) "comparison-sides-differ" ++
     bad l.ty.isPrim "comparison-of-non-primitive")
  | .logicCond _ _ _ reg => ({ e with regs := (reg, .prim .bool) :: e.regs }, [])
  | .ifCondExpr x _ _ => (e, bad (operandOk e x) "condition-operand-type")
  | .fnReturn x | .fnReturnWithLabel x | .jumpFnReturn x =>
    (e, bad (operandOk e x) "return-operand-type" ++ bad (x.ty == resTy) "return-type-differs-from-result-type")
  | _ => (e, [])

def typedGo (funcs : List (Name × Func)) (consts : List (Name × ConstSem)) (resTy : Ty) (exts : List (Nat × PrimTy)) :
    List Instr → TyEnv → Nat → List String
  | [], _, _ => []
  | i :: rest, e, pos =>
    let (e, bad) := typedStep funcs consts resTy exts e i pos
    bad ++ typedGo funcs consts resTy exts rest e (pos + 1)

/-- C04 on one function -/
def typedStack (funcs : List (Name × Func)) (consts : List (Name × ConstSem)) (f : FnDecl) (stack : List Instr) : List String :=
  typedGo funcs consts f.result.toTy f.extLeaves stack { regs := [], decls := [] } 0

end SemVerif
