import SemVerif.Spec.Stack
import SemVerif.Spec.RuleSet
/-!
# Spec/Denote — what a stack computes, and what the source says it should compute (DESIGN §3.5)

* `abstractStack stack` scans a function's instruction stack once and expands register operands
  through the instructions that define them; internal value names are replaced by the index of the
  declaration (`FunctionArg` / `LetBinding`) that introduced them.
* `specStmts g f` walks the source function in evaluation order with an independent lexical
  resolver and the reference precedence tree.
For an accepted well-formed function the two lists are equal (family T2); C03, C06, C07 and C19
compare projections of them.  The F7 reading is built in: register `r+1` after a call / field read
writing `r` denotes that instruction's result.
-/
namespace SemVerif

inductive DTree where
  | lit (v : PrimVal)
  | read (d : Nat)
  | const (n : Name)
  | field (d : Nat) (idx : Nat)
  | call (f : Name) (args : List DTree)
  | ext (tag : Nat)
  | op (o : Op) (l r : DTree)
  | cmp (c : Cond) (l r : DTree)
  | logic (g : Logic) (l r : DTree)
  | undef (r : Nat)
  deriving Inhabited, Repr

inductive DStmt where
  | param (d : Nat)
  | letD (d : Nat) (mutable : Bool) (t : DTree)
  | assign (d : Nat) (t : DTree)
  | callS (t : DTree)
  | branch (t : DTree)
  | ret (t : DTree)
  | jret (ty : Ty) (t : DTree)
  /-- the evaluation of an extension leaf (an event in evaluation order, like a call) -/
  | extS (tag : Nat)
  deriving Inhabited, Repr

def opStr : Op → String
  | .plus => "plus" | .minus => "minus" | .multiply => "multiply" | .divide => "divide"
  | .shiftLeft => "shiftLeft" | .shiftRight => "shiftRight" | .and => "and" | .or => "or"
  | .xor => "xor" | .eq => "eq" | .notEq => "notEq" | .great => "great" | .less => "less"
  | .greatEq => "greatEq" | .lessEq => "lessEq"

def condStr : Cond → String
  | .great => "great" | .less => "less" | .eq => "eq"
  | .greatEq => "greatEq" | .lessEq => "lessEq" | .notEq => "notEq"

def nameStr (n : Name) : String := String.ofList n

def primValStr : PrimVal → String
  | .u8 n => s!"{n}u8" | .u16 n => s!"{n}u16" | .u32 n => s!"{n}u32" | .u64 n => s!"{n}u64"
  | .i8 n => s!"{n}i8" | .i16 n => s!"{n}i16" | .i32 n => s!"{n}i32" | .i64 n => s!"{n}i64"
  | .f32 b _ => s!"f32#{b}" | .f64 b _ => s!"f64#{b}"
  | .bool b => s!"{b}" | .char c => s!"char#{c.toNat}" | .ptr => "ptr" | .none => "none"

mutual
/-- exact rendering (with bracketing) -/
def DTree.str : DTree → String
  | .lit v => primValStr v
  | .read d => s!"v{d}"
  | .const n => s!"const:{nameStr n}"
  | .field d i => s!"v{d}.{i}"
  | .call f args => s!"{nameStr f}({DTree.strs args})"
  | .ext t => s!"ext{t}"
  | .op o l r => s!"({l.str} {opStr o} {r.str})"
  | .cmp c l r => s!"[{l.str} {condStr c} {r.str}]"
  | .logic g l r => s!"\{{l.str} {match g with | .and => "and" | .or => "or"} {r.str}}"
  | .undef r => s!"UNDEF%{r}"
def DTree.strs : List DTree → String
  | [] => ""
  | [t] => t.str
  | t :: ts => t.str ++ "," ++ DTree.strs ts
end

mutual
/-- rendering modulo bracketing of operator chains (leaves and operators in order);
call arguments, comparisons and logic connectives keep their nesting -/
def DTree.flat : DTree → String
  | .lit v => primValStr v
  | .read d => s!"v{d}"
  | .const n => s!"const:{nameStr n}"
  | .field d i => s!"v{d}.{i}"
  | .call f args => s!"{nameStr f}({DTree.flats args})"
  | .ext t => s!"ext{t}"
  | .op o l r => s!"{l.flat} {opStr o} {r.flat}"
  | .cmp c l r => s!"[{l.flat} {condStr c} {r.flat}]"
  | .logic g l r => s!"\{{l.flat} {match g with | .and => "and" | .or => "or"} {r.flat}}"
  | .undef r => s!"UNDEF%{r}"
def DTree.flats : List DTree → String
  | [] => ""
  | [t] => t.flat
  | t :: ts => t.flat ++ "," ++ DTree.flats ts
end

mutual
/-- only the bracketing of operator chains: leaves become `_` -/
def DTree.shape : DTree → String
  | .op o l r => s!"({l.shape} {opStr o} {r.shape})"
  | .call _ args => s!"call({DTree.shapes args})"
  | .cmp _ l r => s!"[{l.shape} {r.shape}]"
  | .logic _ l r => s!"\{{l.shape} {r.shape}}"
  | _ => "_"
def DTree.shapes : List DTree → String
  | [] => ""
  | [t] => t.shape
  | t :: ts => t.shape ++ "," ++ DTree.shapes ts
end

mutual
/-- only the resolution facts: reads, field reads, constants, calls, in evaluation order -/
def DTree.refs : DTree → List String
  | .read d => [s!"read:v{d}"]
  | .const n => [s!"const:{nameStr n}"]
  | .field d i => [s!"field:v{d}.{i}"]
  | .call f args => DTree.refsL args ++ [s!"call:{nameStr f}"]
  | .op _ l r | .cmp _ l r | .logic _ l r => l.refs ++ r.refs
  | _ => []
def DTree.refsL : List DTree → List String
  | [] => []
  | t :: ts => t.refs ++ DTree.refsL ts
end

mutual
/-- extension leaves in evaluation order -/
def DTree.exts : DTree → List Nat
  | .ext t => [t]
  | .call _ args => DTree.extsL args
  | .op _ l r | .cmp _ l r | .logic _ l r => l.exts ++ r.exts
  | _ => []
def DTree.extsL : List DTree → List Nat
  | [] => []
  | t :: ts => t.exts ++ DTree.extsL ts
end

def DStmt.tree? : DStmt → Option DTree
  | .param _ | .extS _ => none
  | .letD _ _ t | .assign _ t | .callS t | .branch t | .ret t | .jret _ t => some t

def DStmt.render (f : DTree → String) : DStmt → String
  | .param d => s!"param v{d}"
  | .letD d m t => s!"let{if m then " mut" else ""} v{d} = {f t}"
  | .assign d t => s!"v{d} = {f t}"
  | .callS t => s!"do {f t}"
  | .branch t => s!"branch {f t}"
  | .ret t => s!"return {f t}"
  | .jret _ t => s!"jump-return {f t}"
  | .extS t => s!"eval ext{t}"

/-- resolution facts of a statement list (C03) -/
def DStmt.refs : DStmt → List String
  | .param d => [s!"param:v{d}"]
  | .letD d _ t => t.refs ++ [s!"let:v{d}"]
  | .assign d t => t.refs ++ [s!"assign:v{d}"]
  | .callS t => t.refs
  | .branch t => t.refs
  | .ret t => t.refs ++ ["return"]
  | .jret _ t => t.refs ++ ["jump-return"]
  | .extS _ => []

/-! ### The denotation of a stack -/

structure AbsSt where
  env : List (Nat × DTree)      -- latest first
  decls : List Name             -- internal names in declaration order
  out : List DStmt
  deriving Inhabited

def AbsSt.reg (s : AbsSt) (r : Nat) : DTree :=
  match s.env.find? (·.1 == r) with
  | some (_, t) => t
  | none => .undef r

def AbsSt.res (s : AbsSt) (x : ExprResult) : DTree :=
  match x.val with
  | .prim v => .lit v
  | .reg r => s.reg r

/-- the reading has a tree for register `q` (an earlier instruction wrote it, or it is the alias
register after an earlier call / field read) -/
def AbsSt.bound (s : AbsSt) (q : Nat) : Bool := (s.env.find? (·.1 == q)).isSome

def AbsSt.declIdx (s : AbsSt) (n : Name) : Nat := (s.decls.findIdx? (· == n)).getD 999999

def AbsSt.emit (s : AbsSt) (d : DStmt) : AbsSt := { s with out := s.out ++ [d] }
def AbsSt.bind (s : AbsSt) (r : Nat) (t : DTree) : AbsSt := { s with env := (r, t) :: s.env }

/-- one instruction.  A call binds its result register and the alias register after it (the F7
reading) and is an event of the statement list: every call — operand or statement — appears in
evaluation order; so does every evaluation of an extension leaf.  The step looks at nothing but the state, so the denotation of a stack is a fold
and the denotation of `stack ++ [i]` extends that of `stack`. -/
def abstractStep (s : AbsSt) (i : Instr) : AbsSt :=
  match i with
  | .fnArg v _ =>
    let s := { s with decls := s.decls ++ [v.innerName] }
    s.emit (.param (s.decls.length - 1))
  | .exprValue v r => s.bind r (.read (s.declIdx v.innerName))
  | .exprConst c r => s.bind r (.const c.name)
  | .exprStructValue v idx r =>
    let t := DTree.field (s.declIdx v.innerName) idx
    (s.bind r t).bind (r + 1) t
  | .exprOp o l r reg => s.bind reg (.op o (s.res l) (s.res r))
  | .call f ps r =>
    let t := DTree.call f.name (ps.map s.res)
    ((s.bind r t).bind (r + 1) t).emit (.callS t)
  | .ext tag _ r => (s.bind r (.ext tag)).emit (.extS tag)
  | .letBinding v x =>
    let t := s.res x
    let s := { s with decls := s.decls ++ [v.innerName] }
    s.emit (.letD (s.decls.length - 1) v.mutable t)
  | .binding v x => s.emit (.assign (s.declIdx v.innerName) (s.res x))
  | .condExpr l r c reg => s.bind reg (.cmp c (s.res l) (s.res r))
  | .logicCond g l r reg => s.bind reg (.logic g (s.reg l) (s.reg r))
  | .ifCondExpr x _ _ => s.emit (.branch (s.res x))
  | .ifCondLogic _ _ r => s.emit (.branch (s.reg r))
  | .fnReturn x | .fnReturnWithLabel x => s.emit (.ret (s.res x))
  | .jumpFnReturn x => s.emit (.jret x.ty (s.res x))
  | _ => s

def AbsSt.init : AbsSt := { env := [], decls := [], out := [] }

def abstractFold (stack : List Instr) : AbsSt := stack.foldl abstractStep AbsSt.init

def abstractStack (stack : List Instr) : List DStmt := (abstractFold stack).out

/-- every register an instruction reads has a tree in the reading of the instructions before it -/
def readsBound : List Instr → AbsSt → Bool
  | [], _ => true
  | i :: rest, A => i.reads.all A.bound && readsBound rest (abstractStep A i)

/-! ### The denotation of the source -/

structure SpecSt where
  tscope : Scope                       -- value types (for attribute indices)
  dscope : List (List (Name × Nat))    -- declaration indices, innermost first
  next : Nat
  out : List DStmt
  /-- per open block (innermost first) the shapes of the blocks already closed inside it, with the
  names each declared directly (C18, value tables) -/
  kids : List (List Shape) := [[]]
  deriving Inhabited

def dlookup (n : Name) : List (List (Name × Nat)) → Option Nat
  | [] => none
  | frame :: outer =>
    match rlookup n frame with
    | some d => some d
    | none => dlookup n outer

def SpecSt.emit (s : SpecSt) (d : DStmt) : SpecSt := { s with out := s.out ++ [d] }
def SpecSt.emits (s : SpecSt) (ds : List DStmt) : SpecSt := { s with out := s.out ++ ds }
def SpecSt.push (s : SpecSt) : SpecSt :=
  { s with tscope := [] :: s.tscope, dscope := [] :: s.dscope, kids := [] :: s.kids }

/-- the names declared directly in the innermost open block, in source order -/
def SpecSt.topNames (s : SpecSt) : List Name := (s.dscope.headD []).reverse.map (·.1)

/-- closing a block records its shape in the enclosing one -/
def closeKids (names : List Name) : List (List Shape) → List (List Shape)
  | t :: p :: r => (p ++ [.node names t]) :: r
  | k => k.tail

def SpecSt.pop (s : SpecSt) : SpecSt :=
  { s with tscope := s.tscope.tail, dscope := s.dscope.tail, kids := closeKids s.topNames s.kids }

def SpecSt.declare (s : SpecSt) (n : Name) (t : Ty) (m : Bool) : SpecSt × Nat :=
  let d := s.next
  ({ s with tscope := s.tscope.declare n t m,
            dscope := (match s.dscope with
              | [] => [[(n, d)]]
              | fr :: outer => ((n, d) :: fr) :: outer),
            next := d + 1 }, d)

/-- call events of an expression in evaluation order, and its value -/
abbrev Den := List DStmt × DTree

def denTree : W Den → Den
  | .atom d => d
  | .pair l o r => ((denTree l).1 ++ (denTree r).1, .op o (denTree l).2 (denTree r).2)

/-- the bracketing of an operator chain: the independent reference (`specTree`: rightmost operator
of minimal priority) or the operator-stack fold (`precTree`) the theorems speak about; the two are
compared on every generated chain, and `C07_fold_correct` / `C07_fold_unique` show that the fold
yields the unique priority-correct tree -/
def buildTree (ref : Bool) {α : Type} (a : α) (rest : List (Op × α)) : W α :=
  if ref then specTree Generated.prio a rest else precTree Generated.prio a rest

def fieldIdx (s : SpecSt) (x a : Name) : Nat :=
  match s.tscope.lookup x with
  | some (.struct _ attrs, _) => ((attrs.lookup a).map (·.1)).getD 999999
  | _ => 999999

mutual
def specExpr (ref : Bool) (s : SpecSt) : Expr → Den
  | .mk v rest => denTree (buildTree ref (specVal ref s v) (specRest ref s rest))
def specRest (ref : Bool) (s : SpecSt) : Option (Op × Expr) → List (Op × Den)
  | none => []
  | some (o, .mk v rest) => (o, specVal ref s v) :: specRest ref s rest
def specVal (ref : Bool) (s : SpecSt) : ExprValue → Den
  | .var x =>
    ([], match dlookup x s.dscope with
      | some d => .read d
      | none => .const x)
  | .lit v => ([], .lit v)
  | .call f args =>
    let a := specArgs ref s args
    (a.1 ++ [.callS (.call f a.2)], .call f a.2)
  | .field x a => ([], .field ((dlookup x s.dscope).getD 999999) (fieldIdx s x a))
  | .sub e => specExpr ref s e
  | .ext tag _ => ([.extS tag], .ext tag)
def specArgs (ref : Bool) (s : SpecSt) : List Expr → List DStmt × List DTree
  | [] => ([], [])
  | e :: es => ((specExpr ref s e).1 ++ (specArgs ref s es).1, (specExpr ref s e).2 :: (specArgs ref s es).2)
end

def specLet (ref : Bool) (g : RGlobals) (b : LetB) (s : SpecSt) : SpecSt :=
  let d := specExpr ref s b.value
  let ty := ((checkExpr g s.tscope b.value).2).getD (.prim .none)
  let q := (s.emits d.1).declare b.name ty b.mutable
  q.1.emit (.letD q.2 b.mutable d.2)

def specBind (ref : Bool) (b : Bind) (s : SpecSt) : SpecSt :=
  let d := specExpr ref s b.value
  (s.emits d.1).emit (.assign ((dlookup b.name s.dscope).getD 999999) d.2)

def specCallS (ref : Bool) (c : CallS) (s : SpecSt) : SpecSt :=
  s.emits (specVal ref s (.call c.name c.args)).1

def specLogic (ref : Bool) (s : SpecSt) : LogicCond → Den
  | .mk c none =>
    ((specExpr ref s c.left).1 ++ (specExpr ref s c.right).1, .cmp c.cond (specExpr ref s c.left).2 (specExpr ref s c.right).2)
  | .mk c (some (lg, rc)) =>
    ((specExpr ref s c.left).1 ++ (specExpr ref s c.right).1 ++ (specLogic ref s rc).1,
     .logic lg (.cmp c.cond (specExpr ref s c.left).2 (specExpr ref s c.right).2) (specLogic ref s rc).2)

def specIfCond (ref : Bool) (c : IfCond) (s : SpecSt) : SpecSt :=
  match c with
  | .single e => (s.emits (specExpr ref s e).1).emit (.branch (specExpr ref s e).2)
  | .logic lc => (s.emits (specLogic ref s lc).1).emit (.branch (specLogic ref s lc).2)

/-- a return nested in an if / loop body: the events of its expression, then the jump to the
function's return carrying the type the rule checker computes for the expression -/
def specJret (ref : Bool) (g : RGlobals) (e : Expr) (s : SpecSt) : SpecSt :=
  (s.emits (specExpr ref s e).1).emit (.jret ((checkExpr g s.tscope e).2.getD (.prim .none)) (specExpr ref s e).2)

def specRet (ref : Bool) (e : Expr) (s : SpecSt) : SpecSt :=
  (s.emits (specExpr ref s e).1).emit (.ret (specExpr ref s e).2)

mutual
def specIf (ref : Bool) (g : RGlobals) : IfStmt → SpecSt → SpecSt
  | .mk cond body els elif, s =>
    let s := specIfCond ref cond s.push
    let s := (specBodies ref g body s).pop
    match els, elif with
    | some eb, _ => (specBodies ref g eb s.push).pop
    | none, some ei => specIf ref g ei s
    | none, none => s
def specBodies (ref : Bool) (g : RGlobals) : IfBodies → SpecSt → SpecSt
  | .ifb l, s => specIfBody ref g l s
  | .loopb l, s => specIfLoopBody ref g l s
def specIfBody (ref : Bool) (g : RGlobals) : List IfBodyStmt → SpecSt → SpecSt
  | [], s => s
  | .letB b :: tl, s => specIfBody ref g tl (specLet ref g b s)
  | .bind b :: tl, s => specIfBody ref g tl (specBind ref b s)
  | .call c :: tl, s => specIfBody ref g tl (specCallS ref c s)
  | .ifS i :: tl, s => specIfBody ref g tl (specIf ref g i s)
  | .loop b :: tl, s => specIfBody ref g tl (specLoopBody ref g b s.push).pop
  | .ret e :: tl, s => specIfBody ref g tl (specJret ref g e s)
def specIfLoopBody (ref : Bool) (g : RGlobals) : List IfLoopStmt → SpecSt → SpecSt
  | [], s => s
  | .letB b :: tl, s => specIfLoopBody ref g tl (specLet ref g b s)
  | .bind b :: tl, s => specIfLoopBody ref g tl (specBind ref b s)
  | .call c :: tl, s => specIfLoopBody ref g tl (specCallS ref c s)
  | .ifS i :: tl, s => specIfLoopBody ref g tl (specIf ref g i s)
  | .loop b :: tl, s => specIfLoopBody ref g tl (specLoopBody ref g b s.push).pop
  | .ret e :: tl, s => specIfLoopBody ref g tl (specJret ref g e s)
  | .brk :: tl, s => specIfLoopBody ref g tl s
  | .cont :: tl, s => specIfLoopBody ref g tl s
def specLoopBody (ref : Bool) (g : RGlobals) : List LoopStmt → SpecSt → SpecSt
  | [], s => s
  | .letB b :: tl, s => specLoopBody ref g tl (specLet ref g b s)
  | .bind b :: tl, s => specLoopBody ref g tl (specBind ref b s)
  | .call c :: tl, s => specLoopBody ref g tl (specCallS ref c s)
  | .ifS i :: tl, s => specLoopBody ref g tl (specIf ref g i s)
  | .loop b :: tl, s => specLoopBody ref g tl (specLoopBody ref g b s.push).pop
  | .ret e :: tl, s => specLoopBody ref g tl (specJret ref g e s)
  | .brk :: tl, s => specLoopBody ref g tl s
  | .cont :: tl, s => specLoopBody ref g tl s
end

def specBody (ref : Bool) (g : RGlobals) : List BodyStmt → SpecSt → SpecSt
  | [], s => s
  | .letB b :: tl, s => specBody ref g tl (specLet ref g b s)
  | .bind b :: tl, s => specBody ref g tl (specBind ref b s)
  | .call c :: tl, s => specBody ref g tl (specCallS ref c s)
  | .ifS i :: tl, s => specBody ref g tl (specIf ref g i s)
  | .loop b :: tl, s => specBody ref g tl (specLoopBody ref g b s.push).pop
  | .expr e :: tl, s | .ret e :: tl, s => specBody ref g tl (specRet ref e s)

def specParams : List (Name × ATy) → SpecSt → SpecSt
  | [], s => s
  | (n, t) :: rest, s =>
    let q := s.declare n t.toTy false
    specParams rest (q.1.emit (.param q.2))

def SpecSt.init : SpecSt := { tscope := [[]], dscope := [[]], next := 0, out := [], kids := [[]] }

/-- what the source function computes, in evaluation order -/
def specStmts (ref : Bool) (g : RGlobals) (f : FnDecl) : List DStmt :=
  (specBody ref g f.body (specParams f.params SpecSt.init)).out

/-- the registered declarations of a program as the rule checker computes them -/
def Program.rglobals (p : Program) : RGlobals := (declPhase p).g

end SemVerif
