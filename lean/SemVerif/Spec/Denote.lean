import SemVerif.Spec.Stack
import SemVerif.Spec.RuleSet
/-!
# Spec/Denote — what a stack computes, and what the source says it should compute (DESIGN §3.5)

* `abstractStack stack` scans a function's instruction stack once and expands register operands
  through the instructions that define them; internal value names are replaced by the index of the
  declaration (`FunctionArg` / `LetBinding`) that introduced them.
* `specStmts g f` walks the source function in evaluation order with an independent lexical
  resolver and the reference precedence tree.
For an accepted well-formed function the two lists are equal (family T2); C03, C06, C07 and C19
compare projections of them.  The F7 reading is built in: register `r+1` after a call / field read
writing `r` denotes that instruction's result.
-/
namespace SemVerif

inductive DTree where
  | lit (v : PrimVal)
  | read (d : Nat)
  | const (n : Name)
  | field (d : Nat) (idx : Nat)
  | call (f : Name) (args : List DTree)
  | ext (tag : Nat)
  | op (o : Op) (l r : DTree)
  | cmp (c : Cond) (l r : DTree)
  | logic (g : Logic) (l r : DTree)
  | undef (r : Nat)
  deriving Inhabited, Repr

inductive DStmt where
  | param (d : Nat)
  | letD (d : Nat) (mutable : Bool) (t : DTree)
  | assign (d : Nat) (t : DTree)
  | callS (t : DTree)
  | branch (t : DTree)
  | ret (t : DTree)
  | jret (t : DTree)
  deriving Inhabited, Repr

def opStr : Op → String
  | .plus => "plus" | .minus => "minus" | .multiply => "multiply" | .divide => "divide"
  | .shiftLeft => "shiftLeft" | .shiftRight => "shiftRight" | .and => "and" | .or => "or"
  | .xor => "xor" | .eq => "eq" | .notEq => "notEq" | .great => "great" | .less => "less"
  | .greatEq => "greatEq" | .lessEq => "lessEq"

def condStr : Cond → String
  | .great => "great" | .less => "less" | .eq => "eq"
  | .greatEq => "greatEq" | .lessEq => "lessEq" | .notEq => "notEq"

def nameStr (n : Name) : String := String.ofList n

def primValStr : PrimVal → String
  | .u8 n => s!"{n}u8" | .u16 n => s!"{n}u16" | .u32 n => s!"{n}u32" | .u64 n => s!"{n}u64"
  | .i8 n => s!"{n}i8" | .i16 n => s!"{n}i16" | .i32 n => s!"{n}i32" | .i64 n => s!"{n}i64"
  | .f32 b _ => s!"f32#{b}" | .f64 b _ => s!"f64#{b}"
  | .bool b => s!"{b}" | .char c => s!"char#{c}" | .ptr => "ptr" | .none => "none"

mutual
/-- exact rendering (with bracketing) -/
def DTree.str : DTree → String
  | .lit v => primValStr v
  | .read d => s!"v{d}"
  | .const n => s!"const:{nameStr n}"
  | .field d i => s!"v{d}.{i}"
  | .call f args => s!"{nameStr f}({DTree.strs args})"
  | .ext t => s!"ext{t}"
  | .op o l r => s!"({l.str} {opStr o} {r.str})"
  | .cmp c l r => s!"[{l.str} {condStr c} {r.str}]"
  | .logic g l r => s!"\{{l.str} {match g with | .and => "and" | .or => "or"} {r.str}}"
  | .undef r => s!"UNDEF%{r}"
def DTree.strs : List DTree → String
  | [] => ""
  | [t] => t.str
  | t :: ts => t.str ++ "," ++ DTree.strs ts
end

mutual
/-- rendering modulo bracketing of operator chains (leaves and operators in order);
call arguments, comparisons and logic connectives keep their nesting -/
def DTree.flat : DTree → String
  | .lit v => primValStr v
  | .read d => s!"v{d}"
  | .const n => s!"const:{nameStr n}"
  | .field d i => s!"v{d}.{i}"
  | .call f args => s!"{nameStr f}({DTree.flats args})"
  | .ext t => s!"ext{t}"
  | .op o l r => s!"{l.flat} {opStr o} {r.flat}"
  | .cmp c l r => s!"[{l.flat} {condStr c} {r.flat}]"
  | .logic g l r => s!"\{{l.flat} {match g with | .and => "and" | .or => "or"} {r.flat}}"
  | .undef r => s!"UNDEF%{r}"
def DTree.flats : List DTree → String
  | [] => ""
  | [t] => t.flat
  | t :: ts => t.flat ++ "," ++ DTree.flats ts
end

mutual
/-- only the bracketing of operator chains: leaves become `_` -/
def DTree.shape : DTree → String
  | .op o l r => s!"({l.shape} {opStr o} {r.shape})"
  | .call _ args => s!"call({DTree.shapes args})"
  | .cmp _ l r => s!"[{l.shape} {r.shape}]"
  | .logic _ l r => s!"\{{l.shape} {r.shape}}"
  | _ => "_"
def DTree.shapes : List DTree → String
  | [] => ""
  | [t] => t.shape
  | t :: ts => t.shape ++ "," ++ DTree.shapes ts
end

mutual
/-- only the resolution facts: reads, field reads, constants, calls, in evaluation order -/
def DTree.refs : DTree → List String
  | .read d => [s!"read:v{d}"]
  | .const n => [s!"const:{nameStr n}"]
  | .field d i => [s!"field:v{d}.{i}"]
  | .call f args => DTree.refsL args ++ [s!"call:{nameStr f}"]
  | .op _ l r | .cmp _ l r | .logic _ l r => l.refs ++ r.refs
  | _ => []
def DTree.refsL : List DTree → List String
  | [] => []
  | t :: ts => t.refs ++ DTree.refsL ts
end

mutual
/-- extension leaves in evaluation order -/
def DTree.exts : DTree → List Nat
  | .ext t => [t]
  | .call _ args => DTree.extsL args
  | .op _ l r | .cmp _ l r | .logic _ l r => l.exts ++ r.exts
  | _ => []
def DTree.extsL : List DTree → List Nat
  | [] => []
  | t :: ts => t.exts ++ DTree.extsL ts
end

def DStmt.tree? : DStmt → Option DTree
  | .param _ => none
  | .letD _ _ t | .assign _ t | .callS t | .branch t | .ret t | .jret t => some t

def DStmt.render (f : DTree → String) : DStmt → String
  | .param d => s!"param v{d}"
  | .letD d m t => s!"let{if m then " mut" else ""} v{d} = {f t}"
  | .assign d t => s!"v{d} = {f t}"
  | .callS t => s!"do {f t}"
  | .branch t => s!"branch {f t}"
  | .ret t => s!"return {f t}"
  | .jret t => s!"jump-return {f t}"

/-- resolution facts of a statement list (C03) -/
def DStmt.refs : DStmt → List String
  | .param d => [s!"param:v{d}"]
  | .letD d _ t => t.refs ++ [s!"let:v{d}"]
  | .assign d t => t.refs ++ [s!"assign:v{d}"]
  | .callS t => t.refs
  | .branch t => t.refs
  | .ret t => t.refs ++ ["return"]
  | .jret t => t.refs ++ ["jump-return"]

/-! ### The denotation of a stack -/

structure AbsSt where
  env : List (Nat × DTree)      -- latest first
  decls : List Name             -- internal names in declaration order
  out : List DStmt
  deriving Inhabited

def AbsSt.reg (s : AbsSt) (r : Nat) : DTree :=
  match s.env.find? (·.1 == r) with
  | some (_, t) => t
  | none => .undef r

def AbsSt.res (s : AbsSt) (x : ExprResult) : DTree :=
  match x.val with
  | .prim v => .lit v
  | .reg r => s.reg r

def AbsSt.declIdx (s : AbsSt) (n : Name) : Nat := (s.decls.findIdx? (· == n)).getD 999999

def AbsSt.emit (s : AbsSt) (d : DStmt) : AbsSt := { s with out := s.out ++ [d] }
def AbsSt.bind (s : AbsSt) (r : Nat) (t : DTree) : AbsSt := { s with env := (r, t) :: s.env }

/-- is the call that wrote `r` a statement?  (its result and its alias are never read, or the
alias register is written by a later instruction) -/
def callIsStmt (rest : List Instr) (r : Nat) : Bool :=
  !(rest.any fun i => i.reads.contains r) &&
  ((rest.any fun i => i.writes == some (r + 1)) || !(rest.any fun i => i.reads.contains (r + 1)))

def abstractStep (s : AbsSt) (i : Instr) (rest : List Instr) : AbsSt :=
  match i with
  | .fnArg v _ =>
    let s := { s with decls := s.decls ++ [v.innerName] }
    s.emit (.param (s.decls.length - 1))
  | .exprValue v r => s.bind r (.read (s.declIdx v.innerName))
  | .exprConst c r => s.bind r (.const c.name)
  | .exprStructValue v idx r =>
    let t := DTree.field (s.declIdx v.innerName) idx
    (s.bind r t).bind (r + 1) t
  | .exprOp o l r reg => s.bind reg (.op o (s.res l) (s.res r))
  | .call f ps r =>
    let t := DTree.call f.name (ps.map s.res)
    if callIsStmt rest r then (s.bind r t).emit (.callS t)
    else (s.bind r t).bind (r + 1) t
  | .ext tag r => s.bind r (.ext tag)
  | .letBinding v x =>
    let t := s.res x
    let s := { s with decls := s.decls ++ [v.innerName] }
    s.emit (.letD (s.decls.length - 1) v.mutable t)
  | .binding v x => s.emit (.assign (s.declIdx v.innerName) (s.res x))
  | .condExpr l r c reg => s.bind reg (.cmp c (s.res l) (s.res r))
  | .logicCond g l r reg => s.bind reg (.logic g (s.reg l) (s.reg r))
  | .ifCondExpr x _ _ => s.emit (.branch (s.res x))
  | .ifCondLogic _ _ r => s.emit (.branch (s.reg r))
  | .fnReturn x | .fnReturnWithLabel x => s.emit (.ret (s.res x))
  | .jumpFnReturn x => s.emit (.jret (s.res x))
  | _ => s

def abstractGo : List Instr → AbsSt → AbsSt
  | [], s => s
  | i :: rest, s => abstractGo rest (abstractStep s i rest)

def abstractStack (stack : List Instr) : List DStmt :=
  (abstractGo stack { env := [], decls := [], out := [] }).out

/-! ### The denotation of the source -/

structure SpecSt where
  tscope : Scope                       -- value types (for attribute indices)
  dscope : List (List (Name × Nat))    -- declaration indices, innermost first
  next : Nat
  out : List DStmt
  deriving Inhabited

def dlookup (n : Name) : List (List (Name × Nat)) → Option Nat
  | [] => none
  | frame :: outer =>
    match rlookup n frame with
    | some d => some d
    | none => dlookup n outer

def SpecSt.emit (s : SpecSt) (d : DStmt) : SpecSt := { s with out := s.out ++ [d] }
def SpecSt.push (s : SpecSt) : SpecSt := { s with tscope := [] :: s.tscope, dscope := [] :: s.dscope }
def SpecSt.pop (s : SpecSt) : SpecSt := { s with tscope := s.tscope.tail, dscope := s.dscope.tail }

def SpecSt.declare (s : SpecSt) (n : Name) (t : Ty) (m : Bool) : SpecSt × Nat :=
  let d := s.next
  ({ s with tscope := s.tscope.declare n t m,
            dscope := (match s.dscope with
              | [] => [[(n, d)]]
              | fr :: outer => ((n, d) :: fr) :: outer),
            next := d + 1 }, d)

def treeOfW : W DTree → DTree
  | .atom t => t
  | .pair l o r => .op o (treeOfW l) (treeOfW r)

mutual
def specExpr (g : RGlobals) (s : SpecSt) : Expr → DTree
  | .mk v rest => treeOfW (specTree Generated.prio (specVal g s v) (specRest g s rest))
def specRest (g : RGlobals) (s : SpecSt) : Option (Op × Expr) → List (Op × DTree)
  | none => []
  | some (o, .mk v rest) => (o, specVal g s v) :: specRest g s rest
def specVal (g : RGlobals) (s : SpecSt) : ExprValue → DTree
  | .var x =>
    match dlookup x s.dscope with
    | some d => .read d
    | none => .const x
  | .lit v => .lit v
  | .call f args => .call f (specArgs g s args)
  | .field x a =>
    let d := (dlookup x s.dscope).getD 999999
    let idx := match s.tscope.lookup x with
      | some (.struct _ attrs, _) => ((attrs.lookup a).map (·.1)).getD 999999
      | _ => 999999
    .field d idx
  | .sub e => specExpr g s e
  | .ext tag _ => .ext tag
def specArgs (g : RGlobals) (s : SpecSt) : List Expr → List DTree
  | [] => []
  | e :: es => specExpr g s e :: specArgs g s es
end

def specLet (g : RGlobals) (b : LetB) (s : SpecSt) : SpecSt :=
  let t := specExpr g s b.value
  let ty := ((checkExpr g s.tscope b.value).2).getD (.prim .none)
  let (s, d) := s.declare b.name ty b.mutable
  s.emit (.letD d b.mutable t)

def specBind (g : RGlobals) (b : Bind) (s : SpecSt) : SpecSt :=
  s.emit (.assign ((dlookup b.name s.dscope).getD 999999) (specExpr g s b.value))

def specCallS (g : RGlobals) (c : CallS) (s : SpecSt) : SpecSt :=
  s.emit (.callS (.call c.name (specArgs g s c.args)))

def specLogic (g : RGlobals) (s : SpecSt) : LogicCond → DTree
  | .mk c none => .cmp c.cond (specExpr g s c.left) (specExpr g s c.right)
  | .mk c (some (lg, rc)) => .logic lg (.cmp c.cond (specExpr g s c.left) (specExpr g s c.right)) (specLogic g s rc)

def specIfCond (g : RGlobals) (c : IfCond) (s : SpecSt) : SpecSt :=
  match c with
  | .single e => s.emit (.branch (specExpr g s e))
  | .logic lc => s.emit (.branch (specLogic g s lc))

mutual
def specIf (g : RGlobals) : IfStmt → SpecSt → SpecSt
  | .mk cond body els elif, s =>
    let s := specIfCond g cond s
    let s := (specBodies g body s.push).pop
    match els, elif with
    | some eb, _ => (specBodies g eb s.push).pop
    | none, some ei => specIf g ei s
    | none, none => s
def specBodies (g : RGlobals) : IfBodies → SpecSt → SpecSt
  | .ifb l, s => specIfBody g l s
  | .loopb l, s => specIfLoopBody g l s
def specIfBody (g : RGlobals) : List IfBodyStmt → SpecSt → SpecSt
  | [], s => s
  | .letB b :: tl, s => specIfBody g tl (specLet g b s)
  | .bind b :: tl, s => specIfBody g tl (specBind g b s)
  | .call c :: tl, s => specIfBody g tl (specCallS g c s)
  | .ifS i :: tl, s => specIfBody g tl (specIf g i s)
  | .loop b :: tl, s => specIfBody g tl (specLoopBody g b s.push).pop
  | .ret e :: tl, s => specIfBody g tl (s.emit (.jret (specExpr g s e)))
def specIfLoopBody (g : RGlobals) : List IfLoopStmt → SpecSt → SpecSt
  | [], s => s
  | .letB b :: tl, s => specIfLoopBody g tl (specLet g b s)
  | .bind b :: tl, s => specIfLoopBody g tl (specBind g b s)
  | .call c :: tl, s => specIfLoopBody g tl (specCallS g c s)
  | .ifS i :: tl, s => specIfLoopBody g tl (specIf g i s)
  | .loop b :: tl, s => specIfLoopBody g tl (specLoopBody g b s.push).pop
  | .ret e :: tl, s => specIfLoopBody g tl (s.emit (.jret (specExpr g s e)))
  | .brk :: tl, s => specIfLoopBody g tl s
  | .cont :: tl, s => specIfLoopBody g tl s
def specLoopBody (g : RGlobals) : List LoopStmt → SpecSt → SpecSt
  | [], s => s
  | .letB b :: tl, s => specLoopBody g tl (specLet g b s)
  | .bind b :: tl, s => specLoopBody g tl (specBind g b s)
  | .call c :: tl, s => specLoopBody g tl (specCallS g c s)
  | .ifS i :: tl, s => specLoopBody g tl (specIf g i s)
  | .loop b :: tl, s => specLoopBody g tl (specLoopBody g b s.push).pop
  | .ret e :: tl, s => specLoopBody g tl (s.emit (.jret (specExpr g s e)))
  | .brk :: tl, s => specLoopBody g tl s
  | .cont :: tl, s => specLoopBody g tl s
end

def specBody (g : RGlobals) : List BodyStmt → SpecSt → SpecSt
  | [], s => s
  | .letB b :: tl, s => specBody g tl (specLet g b s)
  | .bind b :: tl, s => specBody g tl (specBind g b s)
  | .call c :: tl, s => specBody g tl (specCallS g c s)
  | .ifS i :: tl, s => specBody g tl (specIf g i s)
  | .loop b :: tl, s => specBody g tl (specLoopBody g b s.push).pop
  | .expr e :: tl, s | .ret e :: tl, s => specBody g tl (s.emit (.ret (specExpr g s e)))

def specParams : List (Name × ATy) → SpecSt → SpecSt
  | [], s => s
  | (n, t) :: rest, s =>
    let (s, d) := s.declare n t.toTy false
    specParams rest (s.emit (.param d))

/-- what the source function computes, in evaluation order -/
def specStmts (g : RGlobals) (f : FnDecl) : List DStmt :=
  (specBody g f.body (specParams f.params { tscope := [[]], dscope := [[]], next := 0, out := [] })).out

/-- the registered declarations of a program as the rule checker computes them -/
def Program.rglobals (p : Program) : RGlobals := (declPhase p).g

end SemVerif
