import SemVerif.Syntax
/-! # Spec/Traverse — all expressions of a function in evaluation order; extension leaves -/
namespace SemVerif

def LogicCond.exprs : LogicCond → List Expr
  | .mk c none => [c.left, c.right]
  | .mk c (some (_, rc)) => c.left :: c.right :: LogicCond.exprs rc

def IfCond.exprs : IfCond → List Expr
  | .single e => [e]
  | .logic lc => lc.exprs

mutual
def IfStmt.exprs : IfStmt → List Expr
  | .mk cond body els elif =>
    -- with both an else body and an else-if (rule B10 violated) the analyzer ignores the else-if
    cond.exprs ++ IfBodies.exprs body ++
    (match els, elif with
     | some eb, _ => IfBodies.exprs eb
     | none, some ei => IfStmt.exprs ei
     | none, none => [])
def IfBodies.exprs : IfBodies → List Expr
  | .ifb l => IfBodyStmt.exprsL l
  | .loopb l => IfLoopStmt.exprsL l
def IfBodyStmt.exprsL : List IfBodyStmt → List Expr
  | [] => []
  | .letB b :: tl => b.value :: IfBodyStmt.exprsL tl
  | .bind b :: tl => b.value :: IfBodyStmt.exprsL tl
  | .call c :: tl => c.args ++ IfBodyStmt.exprsL tl
  | .ifS i :: tl => IfStmt.exprs i ++ IfBodyStmt.exprsL tl
  | .loop b :: tl => LoopStmt.exprsL b ++ IfBodyStmt.exprsL tl
  | .ret e :: tl => e :: IfBodyStmt.exprsL tl
def IfLoopStmt.exprsL : List IfLoopStmt → List Expr
  | [] => []
  | .letB b :: tl => b.value :: IfLoopStmt.exprsL tl
  | .bind b :: tl => b.value :: IfLoopStmt.exprsL tl
  | .call c :: tl => c.args ++ IfLoopStmt.exprsL tl
  | .ifS i :: tl => IfStmt.exprs i ++ IfLoopStmt.exprsL tl
  | .loop b :: tl => LoopStmt.exprsL b ++ IfLoopStmt.exprsL tl
  | .ret e :: tl => e :: IfLoopStmt.exprsL tl
  | _ :: tl => IfLoopStmt.exprsL tl
def LoopStmt.exprsL : List LoopStmt → List Expr
  | [] => []
  | .letB b :: tl => b.value :: LoopStmt.exprsL tl
  | .bind b :: tl => b.value :: LoopStmt.exprsL tl
  | .call c :: tl => c.args ++ LoopStmt.exprsL tl
  | .ifS i :: tl => IfStmt.exprs i ++ LoopStmt.exprsL tl
  | .loop b :: tl => LoopStmt.exprsL b ++ LoopStmt.exprsL tl
  | .ret e :: tl => e :: LoopStmt.exprsL tl
  | _ :: tl => LoopStmt.exprsL tl
end

def BodyStmt.exprsL : List BodyStmt → List Expr
  | [] => []
  | .letB b :: tl => b.value :: BodyStmt.exprsL tl
  | .bind b :: tl => b.value :: BodyStmt.exprsL tl
  | .call c :: tl => c.args ++ BodyStmt.exprsL tl
  | .ifS i :: tl => IfStmt.exprs i ++ BodyStmt.exprsL tl
  | .loop b :: tl => LoopStmt.exprsL b ++ BodyStmt.exprsL tl
  | .expr e :: tl | .ret e :: tl => e :: BodyStmt.exprsL tl

def FnDecl.exprs (f : FnDecl) : List Expr := BodyStmt.exprsL f.body

mutual
/-- extension leaves (tag, type) of an expression in evaluation order -/
def Expr.extLeaves : Expr → List (Nat × PrimTy)
  | .mk v none => ExprValue.extLeaves v
  | .mk v (some (_, e)) => ExprValue.extLeaves v ++ Expr.extLeaves e
def ExprValue.extLeaves : ExprValue → List (Nat × PrimTy)
  | .ext t ty => [(t, ty)]
  | .call _ args => Expr.extLeavesL args
  | .sub e => Expr.extLeaves e
  | _ => []
def Expr.extLeavesL : List Expr → List (Nat × PrimTy)
  | [] => []
  | e :: es => Expr.extLeaves e ++ Expr.extLeavesL es
end

def FnDecl.extLeaves (f : FnDecl) : List (Nat × PrimTy) := f.exprs.flatMap Expr.extLeaves

end SemVerif
