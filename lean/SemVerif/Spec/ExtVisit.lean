import SemVerif.Spec.RuleSet
import SemVerif.Spec.Traverse
/-!
# Spec/ExtVisit — which extension leaves an analysis evaluates, for *every* program (C19)

For an accepted program every extension leaf is evaluated exactly once (`FnDecl.extLeaves`).  When
an expression is abandoned at its first enforced violation, the operands to the right of the
failing one are not evaluated; everything else still is, statement by statement (DESIGN §3.3:
an assignment analyses its expression before it looks at the target, a call its arguments left to
right until one fails, a comparison both sides, a body every statement).  `visFn` lists the tags
of the leaves that are evaluated, in order.  It threads its own lexical scope: a `let` declares its
name whenever its expression *analysed* (a call with an argument of the wrong type still analyses,
to the callee's result type, although the rule checker counts an enforced violation there), so on
rejected programs the scope here follows the analyzer, not the rule checker; the two agree where
the checker reports nothing (`Lemmas/VisitLock`).
-/
namespace SemVerif

/-- leaves evaluated in an operand, and its type when no enforced violation occurred in it -/
abbrev VRes := List Nat × Option Ty

def visPair (l r : VRes) : VRes :=
  match l with
  | (a, none) => (a, none)
  | (a, some tl) =>
    match r with
    | (b, none) => (a ++ b, none)
    | (b, some tr) => if tl ≠ tr then (a ++ b, none) else (a ++ b, some tr)

def visTree : W VRes → VRes
  | .atom r => r
  | .pair l _ r => visPair (visTree l) (visTree r)

/-- arguments left to right until one fails to analyse (a type mismatch does not stop the loop) -/
def visArgsL : List VRes → List Nat
  | [] => []
  | (l, none) :: _ => l
  | (l, some _) :: rest => l ++ visArgsL rest

mutual
def visE (g : RGlobals) (sc : Scope) : Expr → VRes
  | .mk v rest => visTree (precTree Generated.prio (visV g sc v) (visRest g sc rest))
def visRest (g : RGlobals) (sc : Scope) : Option (Op × Expr) → List (Op × VRes)
  | none => []
  | some (o, .mk v rest) => (o, visV g sc v) :: visRest g sc rest
def visV (g : RGlobals) (sc : Scope) : ExprValue → VRes
  | .var x => ([], (checkVar g sc x).2)
  | .lit v => ([], some (.prim v.ty))
  | .call f args =>
    -- a call whose arguments all analyse yields its result even when an argument has the wrong
    -- type (the error is recorded, the analysis of the enclosing expression goes on)
    match rlookup f g.funcs with
    | none => ([], none)
    | some (ps, res) =>
      if ps.length < args.length then ([], none)
      else (visArgsL (visEs g sc args), if (visEs g sc args).all (·.2.isSome) then some res else none)
  | .field x a => ([], (checkField g sc x a).2)
  | .sub e => visE g sc e
  | .ext tag t => ([tag], some (.prim t))
def visEs (g : RGlobals) (sc : Scope) : List Expr → List VRes
  | [] => []
  | e :: es => visE g sc e :: visEs g sc es
end

def visCallS (g : RGlobals) (sc : Scope) (c : CallS) : List Nat := (visV g sc (.call c.name c.args)).1

/-- a chain of comparisons: both sides of each comparison are analysed; the chain continues only
after a well-typed comparison of primitives -/
def visLogic (g : RGlobals) (sc : Scope) : LogicCond → List Nat
  | .mk c right =>
    let l := visE g sc c.left
    let r := visE g sc c.right
    l.1 ++ r.1 ++
      (match l.2, r.2, right with
       | some tl, some tr, some (_, rc) => if tl = tr && tl.isPrim then visLogic g sc rc else []
       | _, _, _ => [])

def visIfCond (g : RGlobals) (sc : Scope) : IfCond → List Nat
  | .single e => (visE g sc e).1
  | .logic lc => visLogic g sc lc

/-- the scope after a `let`: the name is declared when its expression analysed and the annotated
type, if any, is the expression's -/
def visLetSc (g : RGlobals) (sc : Scope) (b : LetB) : Scope :=
  match (visE g sc b.value).2 with
  | some t => if letTypeBad b.ty t then sc else sc.declare b.name t b.mutable
  | none => sc

mutual
def visIf (g : RGlobals) : IfStmt → Scope → List Nat
  | .mk cond body els elif, sc =>
    -- the condition is analysed in the (still empty) block of the if-body
    visIfCond g ([] :: sc) cond ++ visBodies g body ([] :: sc) ++
      (match els, elif with
       | some eb, _ => visBodies g eb ([] :: sc)
       | none, some ei => visIf g ei sc
       | none, none => [])
def visBodies (g : RGlobals) : IfBodies → Scope → List Nat
  | .ifb l, sc => visIfBody g l sc
  | .loopb l, sc => visIfLoopBody g l sc
def visIfBody (g : RGlobals) : List IfBodyStmt → Scope → List Nat
  | [], _ => []
  | .letB b :: tl, sc => (visE g sc b.value).1 ++ visIfBody g tl (visLetSc g sc b)
  | .bind b :: tl, sc => (visE g sc b.value).1 ++ visIfBody g tl sc
  | .call c :: tl, sc => visCallS g sc c ++ visIfBody g tl sc
  | .ifS i :: tl, sc => visIf g i sc ++ visIfBody g tl sc
  | .loop b :: tl, sc => visLoopBody g b ([] :: sc) ++ visIfBody g tl sc
  | .ret e :: tl, sc => (visE g sc e).1 ++ visIfBody g tl sc
def visIfLoopBody (g : RGlobals) : List IfLoopStmt → Scope → List Nat
  | [], _ => []
  | .letB b :: tl, sc => (visE g sc b.value).1 ++ visIfLoopBody g tl (visLetSc g sc b)
  | .bind b :: tl, sc => (visE g sc b.value).1 ++ visIfLoopBody g tl sc
  | .call c :: tl, sc => visCallS g sc c ++ visIfLoopBody g tl sc
  | .ifS i :: tl, sc => visIf g i sc ++ visIfLoopBody g tl sc
  | .loop b :: tl, sc => visLoopBody g b ([] :: sc) ++ visIfLoopBody g tl sc
  | .ret e :: tl, sc => (visE g sc e).1 ++ visIfLoopBody g tl sc
  | .brk :: tl, sc => visIfLoopBody g tl sc
  | .cont :: tl, sc => visIfLoopBody g tl sc
def visLoopBody (g : RGlobals) : List LoopStmt → Scope → List Nat
  | [], _ => []
  | .letB b :: tl, sc => (visE g sc b.value).1 ++ visLoopBody g tl (visLetSc g sc b)
  | .bind b :: tl, sc => (visE g sc b.value).1 ++ visLoopBody g tl sc
  | .call c :: tl, sc => visCallS g sc c ++ visLoopBody g tl sc
  | .ifS i :: tl, sc => visIf g i sc ++ visLoopBody g tl sc
  | .loop b :: tl, sc => visLoopBody g b ([] :: sc) ++ visLoopBody g tl sc
  | .ret e :: tl, sc => (visE g sc e).1 ++ visLoopBody g tl sc
  | .brk :: tl, sc => visLoopBody g tl sc
  | .cont :: tl, sc => visLoopBody g tl sc
end

def visBody (g : RGlobals) : List BodyStmt → Scope → List Nat
  | [], _ => []
  | .letB b :: tl, sc => (visE g sc b.value).1 ++ visBody g tl (visLetSc g sc b)
  | .bind b :: tl, sc => (visE g sc b.value).1 ++ visBody g tl sc
  | .call c :: tl, sc => visCallS g sc c ++ visBody g tl sc
  | .ifS i :: tl, sc => visIf g i sc ++ visBody g tl sc
  | .loop b :: tl, sc => visLoopBody g b ([] :: sc) ++ visBody g tl sc
  | .expr e :: tl, sc | .ret e :: tl, sc => (visE g sc e).1 ++ visBody g tl sc

/-- tags of the extension leaves the analysis of `f` evaluates, in order (parameters are registered
up to the first duplicate, as the rule checker does) -/
def visFn (g : RGlobals) (f : FnDecl) : List Nat :=
  visBody g f.body (checkParams f.params { scope := [[]], viols := [] }).scope

end SemVerif
