import SemVerif.Spec.RuleSet
import SemVerif.Spec.Traverse
/-!
# Spec/ExtVisit — which extension leaves an analysis evaluates, for *every* program (C19)

For an accepted program every extension leaf is evaluated exactly once (`FnDecl.extLeaves`).  When
an expression is abandoned at its first enforced violation, the operands to the right of the
failing one are not evaluated; everything else still is, statement by statement (DESIGN §3.3:
an assignment analyses its expression before it looks at the target, a call its arguments left to
right until one fails, a comparison both sides, a body every statement).  `visFn` lists the tags
of the leaves that are evaluated, in order, using the rule checker for "this operand failed" and
for the scope in which the next statement is analysed.
-/
namespace SemVerif

/-- leaves evaluated in an operand, and its type when no enforced violation occurred in it -/
abbrev VRes := List Nat × Option Ty

def visPair (l r : VRes) : VRes :=
  match l with
  | (a, none) => (a, none)
  | (a, some tl) =>
    match r with
    | (b, none) => (a ++ b, none)
    | (b, some tr) => if tl ≠ tr then (a ++ b, none) else (a ++ b, some tr)

def visTree : W VRes → VRes
  | .atom r => r
  | .pair l _ r => visPair (visTree l) (visTree r)

/-- arguments left to right until one fails to analyse (a type mismatch does not stop the loop) -/
def visArgsL : List VRes → List Nat
  | [] => []
  | (l, none) :: _ => l
  | (l, some _) :: rest => l ++ visArgsL rest

mutual
def visE (g : RGlobals) (sc : Scope) : Expr → VRes
  | .mk v rest => visTree (precTree Generated.prio (visV g sc v) (visRest g sc rest))
def visRest (g : RGlobals) (sc : Scope) : Option (Op × Expr) → List (Op × VRes)
  | none => []
  | some (o, .mk v rest) => (o, visV g sc v) :: visRest g sc rest
def visV (g : RGlobals) (sc : Scope) : ExprValue → VRes
  | .var x => ([], (checkVar g sc x).2)
  | .lit v => ([], some (.prim v.ty))
  | .call f args =>
    -- a call whose arguments all analyse yields its result even when an argument has the wrong
    -- type (the error is recorded, the analysis of the enclosing expression goes on)
    match rlookup f g.funcs with
    | none => ([], none)
    | some (ps, res) =>
      if ps.length < args.length then ([], none)
      else (visArgsL (visEs g sc args), if (visEs g sc args).all (·.2.isSome) then some res else none)
  | .field x a => ([], (checkField g sc x a).2)
  | .sub e => visE g sc e
  | .ext tag t => ([tag], some (.prim t))
def visEs (g : RGlobals) (sc : Scope) : List Expr → List VRes
  | [] => []
  | e :: es => visE g sc e :: visEs g sc es
end

def visCallS (g : RGlobals) (sc : Scope) (c : CallS) : List Nat := (visV g sc (.call c.name c.args)).1

/-- a chain of comparisons: both sides of each comparison are analysed; the chain continues only
after a well-typed comparison of primitives -/
def visLogic (g : RGlobals) (sc : Scope) : LogicCond → List Nat
  | .mk c right =>
    let l := visE g sc c.left
    let r := visE g sc c.right
    l.1 ++ r.1 ++
      (match l.2, r.2, right with
       | some tl, some tr, some (_, rc) => if tl = tr && tl.isPrim then visLogic g sc rc else []
       | _, _, _ => [])

def visIfCond (g : RGlobals) (sc : Scope) : IfCond → List Nat
  | .single e => (visE g sc e).1
  | .logic lc => visLogic g sc lc

mutual
def visIf (g : RGlobals) (resTy : Ty) : IfStmt → RS → List Nat
  | .mk cond body els elif, s =>
    let s := if els.isSome && elif.isSome then s.viol "B10" .ifElseDuplicated "if-condition".toList else s
    let c := visIfCond g s.push.scope cond
    let s1 := checkIfCond g cond s.push
    let b := visBodies g resTy body s1
    let s2 := (checkBodies g resTy body s1).pop
    c ++ b ++ (match els, elif with
      | some eb, _ => visBodies g resTy eb s2.push
      | none, some ei => visIf g resTy ei s2
      | none, none => [])
def visBodies (g : RGlobals) (resTy : Ty) : IfBodies → RS → List Nat
  | .ifb l, s => visIfBody g resTy l false s
  | .loopb l, s => visIfLoopBody g resTy l false false false s
def visIfBody (g : RGlobals) (resTy : Ty) : List IfBodyStmt → Bool → RS → List Nat
  | [], _, _ => []
  | st :: tl, rc, s =>
    let s := codeAfter rc false false s
    match st with
    | .letB b => (visE g s.scope b.value).1 ++ visIfBody g resTy tl rc (checkLet g b s)
    | .bind b => (visE g s.scope b.value).1 ++ visIfBody g resTy tl rc (checkBind g b s)
    | .call c => visCallS g s.scope c ++ visIfBody g resTy tl rc (checkCallS g c s)
    | .ifS i => visIf g resTy i s ++ visIfBody g resTy tl rc (checkIf g resTy i s)
    | .loop b => visLoopBody g resTy b false false false s.push ++
        visIfBody g resTy tl rc (checkLoopBody g resTy b false false false s.push).pop
    | .ret e => (visE g s.scope e).1 ++
        visIfBody g resTy tl (rc || (checkNestedRet g resTy e s).2) (checkNestedRet g resTy e s).1
def visIfLoopBody (g : RGlobals) (resTy : Ty) : List IfLoopStmt → Bool → Bool → Bool → RS → List Nat
  | [], _, _, _, _ => []
  | st :: tl, rc, bc, cc, s =>
    let s := codeAfter rc bc cc s
    match st with
    | .letB b => (visE g s.scope b.value).1 ++ visIfLoopBody g resTy tl rc bc cc (checkLet g b s)
    | .bind b => (visE g s.scope b.value).1 ++ visIfLoopBody g resTy tl rc bc cc (checkBind g b s)
    | .call c => visCallS g s.scope c ++ visIfLoopBody g resTy tl rc bc cc (checkCallS g c s)
    | .ifS i => visIf g resTy i s ++ visIfLoopBody g resTy tl rc bc cc (checkIf g resTy i s)
    | .loop b => visLoopBody g resTy b false false false s.push ++
        visIfLoopBody g resTy tl rc bc cc (checkLoopBody g resTy b false false false s.push).pop
    | .ret e => (visE g s.scope e).1 ++
        visIfLoopBody g resTy tl (rc || (checkNestedRet g resTy e s).2) bc cc (checkNestedRet g resTy e s).1
    | .brk => visIfLoopBody g resTy tl rc true cc s
    | .cont => visIfLoopBody g resTy tl rc bc true s
def visLoopBody (g : RGlobals) (resTy : Ty) : List LoopStmt → Bool → Bool → Bool → RS → List Nat
  | [], _, _, _, _ => []
  | st :: tl, rc, bc, cc, s =>
    let s := codeAfter rc bc cc s
    match st with
    | .letB b => (visE g s.scope b.value).1 ++ visLoopBody g resTy tl rc bc cc (checkLet g b s)
    | .bind b => (visE g s.scope b.value).1 ++ visLoopBody g resTy tl rc bc cc (checkBind g b s)
    | .call c => visCallS g s.scope c ++ visLoopBody g resTy tl rc bc cc (checkCallS g c s)
    | .ifS i => visIf g resTy i s ++ visLoopBody g resTy tl rc bc cc (checkIf g resTy i s)
    | .loop b => visLoopBody g resTy b false false false s.push ++
        visLoopBody g resTy tl rc bc cc (checkLoopBody g resTy b false false false s.push).pop
    | .ret e => (visE g s.scope e).1 ++
        visLoopBody g resTy tl (rc || (checkNestedRet g resTy e s).2) bc cc (checkNestedRet g resTy e s).1
    | .brk => visLoopBody g resTy tl rc true cc s
    | .cont => visLoopBody g resTy tl rc bc true s
end

def visBody (g : RGlobals) (resTy : Ty) : List BodyStmt → Bool → RS → List Nat
  | [], _, _ => []
  | st :: tl, rc, s =>
    let s := if rc then s.viol "B12-after" .forbiddenCodeAfterReturnDeprecated wildcard else s
    match st with
    | .letB b => (visE g s.scope b.value).1 ++ visBody g resTy tl rc (checkLet g b s)
    | .bind b => (visE g s.scope b.value).1 ++ visBody g resTy tl rc (checkBind g b s)
    | .call c => visCallS g s.scope c ++ visBody g resTy tl rc (checkCallS g c s)
    | .ifS i => visIf g resTy i s ++ visBody g resTy tl rc (checkIf g resTy i s)
    | .loop b => visLoopBody g resTy b false false false s.push ++
        visBody g resTy tl rc (checkLoopBody g resTy b false false false s.push).pop
    | .expr e | .ret e => (visE g s.scope e).1 ++
        visBody g resTy tl (checkFnRet g resTy e rc s).2 (checkFnRet g resTy e rc s).1

/-- tags of the extension leaves the analysis of `f` evaluates, in order -/
def visFn (g : RGlobals) (f : FnDecl) : List Nat :=
  visBody g f.result.toTy f.body false (checkParams f.params { scope := [[]], viols := [] })

end SemVerif
