import SemVerif.Spec.Stack
/-!
# Spec/Flow — control-flow semantics of DESIGN §3.4 (C05)

* `Flow`: the structured skeleton of a source function — effect events (let, assignment, call,
  return) numbered in source evaluation order, `if`/`else`, `loop`, `break`, `continue`, `return`.
* `runFlow`: structured execution driven by a sequence of condition outcomes.
* `runJump`: execution of an instruction stack as a jump program, effect instructions numbered in
  stack order.
Both are fuel-bounded total functions; `agree` compares them for one outcome sequence.
-/
namespace SemVerif

inductive Flow where
  | ev (k : Nat)
  | ite (thenB elseB : List Flow)      -- consumes one outcome
  | loop (body : List Flow)
  | brk
  | cont
  | ret (k : Nat)
  deriving Inhabited, Repr

mutual
def Expr.calls : Expr → Nat
  | .mk v none => ExprValue.calls v
  | .mk v (some (_, e)) => ExprValue.calls v + Expr.calls e
def ExprValue.calls : ExprValue → Nat
  | .call _ args => Expr.callsL args + 1
  | .sub e => Expr.calls e
  | _ => 0
def Expr.callsL : List Expr → Nat
  | [] => 0
  | e :: es => Expr.calls e + Expr.callsL es
end

def evs (start count : Nat) : List Flow := (List.range count).map fun i => Flow.ev (start + i)

def LogicCond.calls : LogicCond → Nat
  | .mk c none => c.left.calls + c.right.calls
  | .mk c (some (_, rc)) => c.left.calls + c.right.calls + LogicCond.calls rc

def IfCond.calls : IfCond → Nat
  | .single e => e.calls
  | .logic lc => lc.calls

/-- lowering: returns the flow and the next free event number -/
def lowerLet (b : LetB) (n : Nat) : List Flow × Nat := (evs n (b.value.calls + 1), n + b.value.calls + 1)
def lowerBind (b : Bind) (n : Nat) : List Flow × Nat := (evs n (b.value.calls + 1), n + b.value.calls + 1)
def lowerCallS (c : CallS) (n : Nat) : List Flow × Nat := (evs n (Expr.callsL c.args + 1), n + Expr.callsL c.args + 1)
def lowerRet (e : Expr) (n : Nat) : List Flow × Nat := (evs n e.calls ++ [.ret (n + e.calls)], n + e.calls + 1)

/-! `f2 = false`: the structured semantics of the source.  `f2 = true`: the same *with finding F2
built in* — in an if/else body the statements that follow a nested `if` are never executed (the
nested `if` jumps to the enclosing end label); their events keep their numbers. -/
mutual
def IfStmt.lower (f2 : Bool) : IfStmt → Nat → List Flow × Nat
  | .mk cond body els elif, n =>
    let c := cond.calls
    let (tb, n1) := IfBodies.lower f2 body (n + c)
    match els, elif with
    | some eb, _ =>
      let (ebf, n2) := IfBodies.lower f2 eb n1
      (evs n c ++ [.ite tb ebf], n2)
    | none, some ei =>
      let (eif, n2) := IfStmt.lower f2 ei n1
      (evs n c ++ [.ite tb eif], n2)
    | none, none => (evs n c ++ [.ite tb []], n1)
def IfBodies.lower (f2 : Bool) : IfBodies → Nat → List Flow × Nat
  | .ifb l, n => IfBodyStmt.lowerL f2 l n
  | .loopb l, n => IfLoopStmt.lowerL f2 l n
def IfBodyStmt.lowerL (f2 : Bool) : List IfBodyStmt → Nat → List Flow × Nat
  | [], n => ([], n)
  | .ifS i :: tl, n =>
    let (a, n1) := IfStmt.lower f2 i n
    let (r, n2) := IfBodyStmt.lowerL f2 tl n1
    (if f2 && !tl.isEmpty then a else a ++ r, n2)
  | st :: tl, n =>
    let (a, n1) := match st with
      | .letB b => lowerLet b n
      | .bind b => lowerBind b n
      | .call c => lowerCallS c n
      | .ifS i => IfStmt.lower f2 i n
      | .loop b => let (f, m) := LoopStmt.lowerL f2 b n; ([Flow.loop f], m)
      | .ret e => lowerRet e n
    let (r, n2) := IfBodyStmt.lowerL f2 tl n1
    (a ++ r, n2)
def IfLoopStmt.lowerL (f2 : Bool) : List IfLoopStmt → Nat → List Flow × Nat
  | [], n => ([], n)
  | .ifS i :: tl, n =>
    let (a, n1) := IfStmt.lower f2 i n
    let (r, n2) := IfLoopStmt.lowerL f2 tl n1
    (if f2 && !tl.isEmpty then a else a ++ r, n2)
  | st :: tl, n =>
    let (a, n1) := match st with
      | .letB b => lowerLet b n
      | .bind b => lowerBind b n
      | .call c => lowerCallS c n
      | .ifS i => IfStmt.lower f2 i n
      | .loop b => let (f, m) := LoopStmt.lowerL f2 b n; ([Flow.loop f], m)
      | .ret e => lowerRet e n
      | .brk => ([Flow.brk], n)
      | .cont => ([Flow.cont], n)
    let (r, n2) := IfLoopStmt.lowerL f2 tl n1
    (a ++ r, n2)
def LoopStmt.lowerL (f2 : Bool) : List LoopStmt → Nat → List Flow × Nat
  | [], n => ([], n)
  | st :: tl, n =>
    let (a, n1) := match st with
      | .letB b => lowerLet b n
      | .bind b => lowerBind b n
      | .call c => lowerCallS c n
      | .ifS i => IfStmt.lower f2 i n
      | .loop b => let (f, m) := LoopStmt.lowerL f2 b n; ([Flow.loop f], m)
      | .ret e => lowerRet e n
      | .brk => ([Flow.brk], n)
      | .cont => ([Flow.cont], n)
    let (r, n2) := LoopStmt.lowerL f2 tl n1
    (a ++ r, n2)
end

def BodyStmt.lowerL (f2 : Bool) : List BodyStmt → Nat → List Flow × Nat
  | [], n => ([], n)
  | st :: tl, n =>
    let (a, n1) := match st with
      | .letB b => lowerLet b n
      | .bind b => lowerBind b n
      | .call c => lowerCallS c n
      | .ifS i => IfStmt.lower f2 i n
      | .loop b => let (f, m) := LoopStmt.lowerL f2 b n; ([Flow.loop f], m)
      | .expr e | .ret e => lowerRet e n
    let (r, n2) := BodyStmt.lowerL f2 tl n1
    (a ++ r, n2)

def FnDecl.flow (f : FnDecl) : List Flow := (BodyStmt.lowerL false f.body 0).1

/-- the F2 reading of the source function -/
def FnDecl.flowF2 (f : FnDecl) : List Flow := (BodyStmt.lowerL true f.body 0).1

/-! ### Structured execution -/

inductive Ctl | normal | brk | cont | returned | noOutcome | noFuel
  deriving DecidableEq, Repr, Inhabited

structure Run where
  ctl : Ctl
  outcomes : List Bool
  trace : List Nat
  deriving Inhabited, Repr

mutual
def runList : Nat → List Flow → List Bool → List Nat → Run
  | 0, _, os, tr => ⟨.noFuel, os, tr⟩
  | _ + 1, [], os, tr => ⟨.normal, os, tr⟩
  | fuel + 1, x :: rest, os, tr =>
    let r := runOne fuel x os tr
    match r.ctl with
    | .normal => runList fuel rest r.outcomes r.trace
    | _ => r
def runOne : Nat → Flow → List Bool → List Nat → Run
  | 0, _, os, tr => ⟨.noFuel, os, tr⟩
  | _ + 1, .ev k, os, tr => ⟨.normal, os, tr ++ [k]⟩
  | _ + 1, .ret k, os, tr => ⟨.returned, os, tr ++ [k]⟩
  | _ + 1, .brk, os, tr => ⟨.brk, os, tr⟩
  | _ + 1, .cont, os, tr => ⟨.cont, os, tr⟩
  | fuel + 1, .ite t e, os, tr =>
    match os with
    | [] => ⟨.noOutcome, [], tr⟩
    | true :: os => runList fuel t os tr
    | false :: os => runList fuel e os tr
  | fuel + 1, .loop body, os, tr =>
    let r := runList fuel body os tr
    match r.ctl with
    | .normal | .cont => runOne fuel (.loop body) r.outcomes r.trace
    | .brk => ⟨.normal, r.outcomes, r.trace⟩
    | _ => r
end

/-! ### Jump-program execution -/

inductive JEnd | returned | noOutcome | noFuel | badLabel | fellOff
  deriving DecidableEq, Repr, Inhabited

def Instr.isEffect : Instr → Bool
  | .letBinding _ _ | .binding _ _ | .call _ _ _ => true
  | .fnReturn _ | .fnReturnWithLabel _ | .jumpFnReturn _ => true
  | _ => false

/-- event number of every position (number of effect instructions before it) -/
def effectIndex (stack : List Instr) (pos : Nat) : Nat := ((stack.take pos).filter Instr.isEffect).length

def findLabel (stack : List Instr) (l : Name) : Option Nat := stack.findIdx? fun i => i.setsLabel == some l

def runJump (stack : List Instr) : Nat → Nat → List Bool → List Nat → JEnd × List Nat
  | 0, _, _, tr => (.noFuel, tr)
  | fuel + 1, pc, os, tr =>
    match stack[pc]? with
    | none => (.fellOff, tr)
    | some i =>
      match i with
      | .jumpTo l =>
        match findLabel stack l with
        | some t => runJump stack fuel t os tr
        | none => (.badLabel, tr)
      | .ifCondExpr _ b e | .ifCondLogic b e _ =>
        match os with
        | [] => (.noOutcome, tr)
        | o :: os =>
          match findLabel stack (if o then b else e) with
          | some t => runJump stack fuel t os tr
          | none => (.badLabel, tr)
      | .fnReturn _ | .fnReturnWithLabel _ | .jumpFnReturn _ => (.returned, tr ++ [effectIndex stack pc])
      | .letBinding _ _ | .binding _ _ | .call _ _ _ => runJump stack fuel (pc + 1) os (tr ++ [effectIndex stack pc])
      | _ => runJump stack fuel (pc + 1) os tr

def isPrefixOrEq (a b : List Nat) : Bool := a.isPrefixOf b || b.isPrefixOf a

/-- agreement for one outcome sequence (bounded budgets: on exhaustion the common prefix is compared) -/
def agree (flow : List Flow) (stack : List Instr) (outcomes : List Bool) (fuel : Nat) : Option String :=
  let s := runList fuel flow outcomes []
  let (je, jt) := runJump stack fuel 0 outcomes []
  if je == .badLabel then some "jump-to-unset-label"
  else if je == .fellOff then some "fell-off-the-end"
  else match s.ctl, je with
    | .returned, .returned => if s.trace == jt then none else some "traces-differ"
    | .returned, .noFuel | .noFuel, .returned | .noFuel, .noFuel =>
      if isPrefixOrEq s.trace jt then none else some "traces-differ"
    | .noOutcome, .noOutcome => if s.trace == jt then none else some "traces-differ"
    | .noOutcome, .noFuel | .noFuel, .noOutcome =>
      if isPrefixOrEq s.trace jt then none else some "traces-differ"
    | .normal, _ => some "source-falls-off-without-return"
    | _, _ => some "one-side-returns-the-other-does-not"

def allOutcomes : Nat → List (List Bool)
  | 0 => [[]]
  | n + 1 => (allOutcomes n).flatMap fun o => [true :: o, false :: o]

/-- first disagreement over all outcome strings of length `k` -/
def flowCheckOn (flow : List Flow) (stack : List Instr) (k fuel : Nat) : Option String :=
  (allOutcomes k).findSome? fun o =>
    (agree flow stack o fuel).map fun why => s!"{why}:outcomes={o.map fun b => if b then 1 else 0}"

def flowCheck (f : FnDecl) (stack : List Instr) (k fuel : Nat) : Option String :=
  flowCheckOn f.flow stack k fuel

/-- the same check against the F2 reading of the source -/
def flowCheckF2 (f : FnDecl) (stack : List Instr) (k fuel : Nat) : Option String :=
  flowCheckOn f.flowF2 stack k fuel

end SemVerif
