import SemVerif.Syntax
/-!
# Semantic types — `src/types/*.rs`

`Ty` is `types::Type`.  A struct's attribute table is a `HashMap` in Rust; here it is a list kept
sorted by attribute name with insert-replacing, so that list equality is map equality.
-/
namespace SemVerif

/-- lexicographic order on identifiers by code point (only used to canonicalise maps) -/
def Name.lt : Name → Name → Bool
  | [], [] => false
  | [], _ :: _ => true
  | _ :: _, [] => false
  | a :: as, b :: bs => if a.toNat < b.toNat then true else if b.toNat < a.toNat then false else Name.lt as bs

mutual
/-- `types::Type` -/
inductive Ty : Type
  | prim (p : PrimTy)
  | struct (name : Name) (attrs : Attrs)
  | array (t : Ty) (n : Nat)
/-- `HashMap<ValueName, StructAttributeType>`: name ↦ (index, type), sorted by name -/
inductive Attrs : Type
  | nil
  | cons (name : Name) (idx : Nat) (ty : Ty) (rest : Attrs)
end
deriving instance DecidableEq for Ty, Attrs
deriving instance Repr for Ty, Attrs
instance : Inhabited Ty := ⟨.prim .none⟩
instance : Inhabited Attrs := ⟨.nil⟩

/-- `HashMap::insert` on the sorted representation -/
def Attrs.insert (n : Name) (i : Nat) (t : Ty) : Attrs → Attrs
  | .nil => .cons n i t .nil
  | .cons m j u rest =>
    if n = m then .cons n i t rest
    else if Name.lt n m then .cons n i t (.cons m j u rest)
    else .cons m j u (Attrs.insert n i t rest)

/-- `HashMap::get` -/
def Attrs.lookup (n : Name) : Attrs → Option (Nat × Ty)
  | .nil => none
  | .cons m j u rest => if n = m then some (j, u) else Attrs.lookup n rest

def Attrs.toList : Attrs → List (Name × Nat × Ty)
  | .nil => []
  | .cons m j u rest => (m, j, u) :: rest.toList

mutual
/-- `From<ast::Type> for Type` -/
def ATy.toTy : ATy → Ty
  | .prim p => .prim p
  | .struct n as => .struct n (attrsToMap as 0 .nil)
  | .array t n => .array t.toTy n
/-- `From<ast::StructTypes> for StructTypes`: attributes in order, index = position,
a later attribute of the same name replaces the earlier one -/
def attrsToMap : List (Name × ATy) → Nat → Attrs → Attrs
  | [], _, acc => acc
  | (n, t) :: rest, i, acc => attrsToMap rest (i + 1) (acc.insert n i t.toTy)
end

def PrimTy.show : PrimTy → Name
  | .u8 => "u8".toList | .u16 => "u16".toList | .u32 => "u32".toList | .u64 => "u64".toList
  | .i8 => "i8".toList | .i16 => "i16".toList | .i32 => "i32".toList | .i64 => "i64".toList
  | .f32 => "f32".toList | .f64 => "f64".toList | .bool => "bool".toList | .char => "char".toList
  | .ptr => "ptr".toList | .none => "()".toList

def digitChar : Nat → Char
  | 0 => '0' | 1 => '1' | 2 => '2' | 3 => '3' | 4 => '4'
  | 5 => '5' | 6 => '6' | 7 => '7' | 8 => '8' | _ => '9'

/-- decimal rendering of a natural number (fuel = the number itself, always enough) -/
def showNatF : Nat → Nat → List Char
  | 0, n => [digitChar (n % 10)]
  | fuel + 1, n => if n < 10 then [digitChar n] else showNatF fuel (n / 10) ++ [digitChar (n % 10)]

def showNat (n : Nat) : List Char := showNatF n n

def showInt : Int → List Char
  | .ofNat n => showNat n
  | .negSucc n => '-' :: showNat (n + 1)

/-- `{:?}` of a `String`, for the safe alphabet the generator uses inside array element names
(only `"` and `\` are escaped; see DESIGN §7) -/
def debugStr (s : Name) : Name :=
  '"' :: (s.flatMap fun c => if c = '"' ∨ c = '\\' then ['\\', c] else [c]) ++ ['"']

/-- `Display for Type`, also `Type::name()` -/
def Ty.show : Ty → Name
  | .prim p => p.show
  | .struct n _ => n
  | .array t n => '[' :: debugStr t.show ++ ';' :: showNat n ++ [']']

def Ty.isPrim : Ty → Bool
  | .prim _ => true
  | _ => false

/-- `Display for PrimitiveValue` -/
def PrimVal.show : PrimVal → Name
  | .u8 n | .u16 n | .u32 n | .u64 n => showNat n
  | .i8 n | .i16 n | .i32 n | .i64 n => showInt n
  | .f32 _ t | .f64 _ t => t
  | .bool b => if b then "true".toList else "false".toList
  | .char c => [c]
  | .ptr => "ptr".toList
  | .none => "None".toList

/-- `Display for Expression` = display of its first operand (of the *unfolded* expression);
the harness extension prints `ext<tag>` -/
def Expr.show : Expr → Name
  | .mk (.var n) _ => n
  | .mk (.lit v) _ => v.show
  | .mk (.call f _) _ => f
  | .mk (.field v _) _ => v
  | .mk (.sub e) _ => e.show
  | .mk (.ext tag _) _ => "ext".toList ++ showNat tag

/-- `types::Value` -/
structure Value where
  innerName : Name
  ty : Ty
  mutable : Bool
  alloca : Bool
  malloc : Bool
  deriving DecidableEq, Repr, Inhabited

/-- `ExpressionResultValue` -/
inductive RVal
  | prim (v : PrimVal)
  | reg (r : Nat)
  deriving DecidableEq, Repr, Inhabited

/-- `ExpressionResult` -/
structure ExprResult where
  ty : Ty
  val : RVal
  deriving DecidableEq, Repr, Inhabited

/-- `types::Function` -/
structure Func where
  name : Name
  ty : Ty
  params : List Ty
  deriving DecidableEq, Repr, Inhabited

/-- `types::Constant` -/
structure ConstSem where
  name : Name
  ty : Ty
  value : CExpr
  deriving DecidableEq, Repr, Inhabited

/-- `types::FunctionParameter` -/
structure FuncParam where
  name : Name
  ty : Ty
  deriving DecidableEq, Repr, Inhabited

/-- `SemanticStackContext` (21 variants).  The `FunctionDeclaration` instruction carries the whole
converted body in Rust; the body is a pure conversion of the AST and is not modelled (the harness
checks on the Rust side that it equals the conversion of the source function). -/
inductive Instr
  | exprValue (v : Value) (reg : Nat)
  | exprConst (c : ConstSem) (reg : Nat)
  | exprStructValue (v : Value) (index : Nat) (reg : Nat)
  | exprOp (op : Op) (l r : ExprResult) (reg : Nat)
  | call (f : Func) (params : List ExprResult) (reg : Nat)
  | letBinding (v : Value) (r : ExprResult)
  | binding (v : Value) (r : ExprResult)
  | fnDecl (name : Name) (params : List FuncParam) (result : Ty)
  | const (c : ConstSem)
  | types (name : Name) (attrs : Attrs)
  | fnReturn (r : ExprResult)
  | fnReturnWithLabel (r : ExprResult)
  | setLabel (l : Name)
  | jumpTo (l : Name)
  | ifCondExpr (r : ExprResult) (lBegin lEnd : Name)
  | condExpr (l r : ExprResult) (c : Cond) (reg : Nat)
  | jumpFnReturn (r : ExprResult)
  | logicCond (c : Logic) (l r : Nat) (reg : Nat)
  | ifCondLogic (lBegin lEnd : Name) (reg : Nat)
  | fnArg (v : Value) (p : FuncParam)
  | ext (tag : Nat) (ty : PrimTy) (reg : Nat)
  deriving DecidableEq, Repr, Inhabited

/-- `StateErrorKind` -/
inductive ErrKind
  | common | constantAlreadyExist | constantNotFound | wrongLetType | wrongExpressionType
  | typeAlreadyExist | functionAlreadyExist | valueNotFound | valueNotStruct
  | valueNotStructField | valueIsNotMutable | functionNotFound | functionParameterTypeWrong
  | returnNotFound | returnAlreadyCalled | ifElseDuplicated | typeNotFound | wrongReturnType
  | conditionExpressionWrongType | conditionIsEmpty | conditionExpressionNotSupported
  | forbiddenCodeAfterReturnDeprecated | forbiddenCodeAfterContinueDeprecated
  | forbiddenCodeAfterBreakDeprecated | functionArgumentNameDuplicated
  deriving DecidableEq, Repr, Inhabited

/-- `StateErrorResult`; the values of the four kinds whose text is a `Debug` rendering of an AST
node (`ForbiddenCodeAfter…`, `ConditionIsEmpty`) are the wildcard `*` on both sides -/
structure Err where
  kind : ErrKind
  value : Name
  line : Nat
  off : Nat
  deriving DecidableEq, Repr, Inhabited

def wildcard : Name := ['*']

/-- the annotation of a `let`, when present, differs from the initialiser's type (rule B7) -/
def letTypeBad (ann : Option ATy) (t : Ty) : Bool :=
  match ann with
  | some a => decide (t ≠ a.toTy)
  | none => false

end SemVerif
