import SemVerif.Wire
open SemVerif

/-- first index at which two strings differ -/
def firstDiff (a b : String) : Nat :=
  let rec go : List Char → List Char → Nat → Nat
    | x :: xs, y :: ys, n => if x = y then go xs ys (n + 1) else n
    | _, _, n => n
  go a.toList b.toList 0

partial def loop (h : IO.FS.Stream) (n ne bad : Nat) (curP : Option Program) (hdr : String) : IO (Nat × Nat × Nat) := do
  let line ← h.getLine
  if line.isEmpty then return (n, ne, bad)
  let line := line.trimAsciiEnd.toString
  if line.startsWith "G " then
    loop h n ne bad none line
  else if line.startsWith "P " then
    match Sexp.parse (line.drop 2).toString >>= decProgram with
    | some p => loop h n ne bad (some p) hdr
    | none => IO.println s!"BADPROG {hdr}"; loop h n ne (bad + 1) none hdr
  else if line.startsWith "D " then
    match curP with
    | none => loop h n ne bad none hdr
    | some p =>
      let impl := (line.drop 2).toString
      let model := printResult (run p)
      if impl == model then loop h (n + 1) ne bad none hdr
      else
        let k := firstDiff impl model
        IO.println s!"NE {hdr} at {k}"
        IO.println s!"  impl : {(impl.drop (k - 60)).take 200}"
        IO.println s!"  model: {(model.drop (k - 60)).take 200}"
        loop h (n + 1) (ne + 1) bad none hdr
  else loop h n ne bad curP hdr

def main (args : List String) : IO UInt32 := do
  let h ← match args with
    | [f] => do let hd ← IO.FS.Handle.mk f .read; pure (IO.FS.Stream.ofHandle hd)
    | _ => IO.getStdin
  let (n, ne, bad) ← loop h 0 0 0 none ""
  IO.println s!"cases={n} differ={ne} badprog={bad}"
  return (if ne + bad = 0 then 0 else 1)
