import SemVerif.Spec.Preds
import SemVerif.Driver
import SemVerif.Spec.Codec
import SemVerif.Spec.CodecStack
import SemVerif.Spec.Stats
open SemVerif

def panicProj (r : Result) (s : String) : String := if r.panic.isSome then "panic" else s

/-- (failing instances on a result, projection of a result) for one property -/
def evalProp (prop : String) (p : Program) (r : Result) (linksOk : Bool) : List String × String :=
  match PropId.ofString prop with
  | some id => (failingOf id p r linksOk ++ failingExtra id r, panicProj r (projOf id r))
  | none => (["unknown-property"], panicProj r "")

/-- C20 on the implementation: the flags of the native round trips (harness `X` line) -/
def c20Tags (flags : String) : List String :=
  let kv := (flags.splitOn " ").filterMap fun t => match t.splitOn "=" with
    | [k, v] => some (k, v == "1")
    | _ => none
  let get (k : String) : Bool := (kv.find? (·.1 == k)).map (·.2) |>.getD false
  if get "panic" then ["c20:panic-during-round-trip"] else
  let astPart :=
    if !get "ast_ser" then ["c20:ast-does-not-serialise"]
    else if !get "ast_de" then
      (if get "needs_escape" then ["F12:identifier-needing-json-escapes-does-not-deserialise"] else ["c20:ast-does-not-deserialise"])
    else
      (if get "ast_eq" then [] else ["c20:ast-round-trip-differs"]) ++
      (if get "ast_text" then [] else ["c20:ast-re-serialised-text-differs"]) ++
      (if get "run_eq" then [] else ["c20:analysing-the-deserialised-ast-differs"])
  let stackPart (name : String) :=
    (if get (name ++ "_eq") then [] else [s!"c20:{name}-round-trip-differs"]) ++
    (if get (name ++ "_text") then [] else
      if get (name ++ "_value") then ["F11:re-serialised-text-differs-only-in-map-order"] else [s!"c20:{name}-re-serialised-text-differs"])
  (astPart ++ stackPart "gstack" ++ stackPart "fstack" ++
    (if get "errs_eq" then [] else ["c20:error-list-round-trip-differs"]) ++
    (if get "errs_text" then [] else ["c20:error-list-re-serialised-text-differs"])).eraseDups

def groupProp (prop : String) (g : List (Program × Result)) : List String :=
  match prop with
  | "C16" => P_C16 g
  | "C17" => P_C17 g
  | _ => []

def isGroupProp (prop : String) : Bool := prop == "C16" || prop == "C17"

def features (p : Program) (r : Result) : String :=
  let n := (r.roots.map fun b => b.context.length).sum
  s!"{pi_verdict r},wf={WellFormedB p},loopok={LoopOKB p},f2={p.fnDecls.any FnDecl.hasF2},f3={p.fnDecls.any FnDecl.hasF3},fns={p.fnDecls.length},instrs={n},errs={r.errors.length},first={match r.errors.head? with | some e => e.kind.wire | none => "-"},{statsStr p.fnDecls}"

structure GroupAcc where
  hdr : String := ""
  firstIdx : Nat := 0
  impl : List (Program × Result) := []
  model : List (Program × Result) := []
  full : Bool := true
  bad : Bool := false

def flushGroup (prop : String) (g : GroupAcc) : IO Unit := do
  if !isGroupProp prop || (g.impl.isEmpty && !g.bad) then return ()
  if g.bad then
    IO.println s!"CASE\t{g.firstIdx}\t{g.hdr}\tBADGROUP"
  else
    let ti := groupProp prop g.impl.reverse
    let tm := groupProp prop g.model.reverse
    let feat := match g.impl.reverse.head? with
      | some (p, r) => features p r
      | none => ""
    IO.println s!"CASE\t{g.firstIdx}\t{g.hdr}\t{if g.full then 1 else 0}\t{";".intercalate ti}\t{";".intercalate tm}\t{if g.full then 1 else 0}\t{feat},group={g.impl.length}"

partial def loop (prop : String) (h : IO.FS.Stream) (idx : Nat) (curP : Option Program) (g : GroupAcc) (curX : String := "") (curJ : Option String := none) (curK : Option String := none) : IO Unit := do
  let line ← h.getLine
  if line.isEmpty then
    flushGroup prop g
    return ()
  let line := line.trimAsciiEnd.toString
  if line.startsWith "G " then
    flushGroup prop g
    loop prop h idx none { hdr := (line.drop 2).toString, firstIdx := idx }
  else if line.startsWith "P " then
    match Sexp.parse (line.drop 2).toString >>= decProgram with
    | some p => loop prop h idx (some p) g
    | none =>
      if !isGroupProp prop then IO.println s!"CASE\t{idx}\t{g.hdr}\tBADPROG"
      loop prop h (idx + 1) none { g with bad := true }
  else if line.startsWith "X " then
    loop prop h idx curP g (line.drop 2).toString curJ curK
  else if line.startsWith "J " then
    loop prop h idx curP g curX (some (line.drop 2).toString) curK
  else if line.startsWith "K " then
    loop prop h idx curP g curX curJ (some (line.drop 2).toString)
  else if line.startsWith "D " then
    match curP with
    | none => loop prop h idx none g
    | some p =>
      let implTxt := (line.drop 2).toString
      match Sexp.parse implTxt >>= decDump with
      | none =>
        if !isGroupProp prop then IO.println s!"CASE\t{idx}\t{g.hdr}\tBADDUMP"
        loop prop h (idx + 1) none { g with bad := true }
      | some (ri, linksOk) =>
        let rm := run p
        let full := implTxt == printResult rm
        if prop == "C20" then
          -- projection: the data-model encoding of the AST against serde_json's value
          let enc := (encProgram p).render
          let astOk := match curJ with
            | some j => j == enc
            | none => true
          -- the data-model encoding of the implementation's function stacks against serde_json's value
          let stacksOk := match curK with
            | some k => k == (Json.arr (ri.roots.map fun b => encStack b.context)).render
            | none => true
          let piOk := astOk && stacksOk
          IO.println s!"CASE\t{idx}\t{g.hdr}\t{if piOk then 1 else 0}\t{";".intercalate (c20Tags curX)}\t\t{if full then 1 else 0}\t{features p ri},json={curJ.isSome},stacks={curK.isSome},astOk={astOk},stacksOk={stacksOk}"
          loop prop h (idx + 1) none g
        else if isGroupProp prop then
          loop prop h (idx + 1) none { g with impl := (p, ri) :: g.impl, model := (p, rm) :: g.model, full := g.full && full }
        else
          let (ti, pii) := evalProp prop p ri linksOk
          let (tm, pim) := evalProp prop p rm true
          IO.println s!"CASE\t{idx}\t{g.hdr}\t{if pii == pim then 1 else 0}\t{";".intercalate ti}\t{";".intercalate tm}\t{if full then 1 else 0}\t{features p ri}"
          loop prop h (idx + 1) none g
  else loop prop h idx curP g

def main (args : List String) : IO UInt32 := do
  match args with
  | [prop, f] =>
    let hd ← IO.FS.Handle.mk f .read
    loop prop (IO.FS.Stream.ofHandle hd) 0 none {}
    return 0
  | _ =>
    IO.eprintln "usage: driver <Cxx> <cases-file>"
    return 2
