import SemVerif.Spec.Preds
open SemVerif

/-- (tags on a result, projection of a result) for one property -/
def evalProp (prop : String) (p : Program) (r : Result) (linksOk : Bool) : List String × String :=
  match prop with
  | "C01" => (P_C01 p r, pi_verdict r)
  | "C02" => (P_C02 p r, pi_verdict r)
  | "C08" => (P_C08g p r, pi_stacks (fun i => i.writes.isSome || !i.reads.isEmpty) r)
  | "C09" => (P_C09 r, pi_C09 r)
  | "C10" => (P_C10 p r, pi_stacks isLabelInstr r)
  | "C11" => (P_C11g p r, pi_stacks isReturnInstr r)
  | "C12" => (P_C12 r, pi_stacks isValueInstr r)
  | "C13" => (P_C13 p r, if r.panic.isSome then "panic" else "ok")
  | "C14" => (P_C14 p r, pi_firstError r)
  | "C18" => (if r.panic.isSome then [] else P_C18_shape p r linksOk, pi_C18 r)
  | _ => (["unknown-property"], "")

def features (p : Program) (r : Result) : String :=
  let n := (r.roots.map fun b => b.context.length).sum
  s!"{pi_verdict r},wf={WellFormedB p},loopok={LoopOKB p},fns={p.fnDecls.length},instrs={n},errs={r.errors.length}"

partial def loop (prop : String) (h : IO.FS.Stream) (idx : Nat) (curP : Option Program) (hdr : String) : IO Unit := do
  let line ← h.getLine
  if line.isEmpty then return ()
  let line := line.trimAsciiEnd.toString
  if line.startsWith "G " then
    loop prop h idx none line
  else if line.startsWith "P " then
    match Sexp.parse (line.drop 2).toString >>= decProgram with
    | some p => loop prop h idx (some p) hdr
    | none => IO.println s!"CASE\t{idx}\t{hdr}\tBADPROG"; loop prop h (idx + 1) none hdr
  else if line.startsWith "D " then
    match curP with
    | none => loop prop h idx none hdr
    | some p =>
      let implTxt := (line.drop 2).toString
      match Sexp.parse implTxt >>= decDump with
      | none => IO.println s!"CASE\t{idx}\t{hdr}\tBADDUMP"; loop prop h (idx + 1) none hdr
      | some (ri, linksOk) =>
        let rm := run p
        let full := implTxt == printResult rm
        let (ti, pii) := evalProp prop p ri linksOk
        let (tm, pim) := evalProp prop p rm true
        IO.println s!"CASE\t{idx}\t{hdr}\t{if pii == pim then 1 else 0}\t{";".intercalate ti}\t{";".intercalate tm}\t{if full then 1 else 0}\t{features p ri}"
        loop prop h (idx + 1) none hdr
  else loop prop h idx curP hdr

def main (args : List String) : IO UInt32 := do
  match args with
  | [prop, f] =>
    let hd ← IO.FS.Handle.mk f .read
    loop prop (IO.FS.Stream.ofHandle hd) 0 none ""
    return 0
  | _ =>
    IO.eprintln "usage: driver <Cxx> <cases-file>"
    return 2
