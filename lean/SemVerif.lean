-- This module serves as the root of the `SemVerif` library.
-- Import modules here that should be built as part of the library.
import SemVerif.Basic
