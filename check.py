#!/usr/bin/env python3
"""check.py <Cxx> <quick|thorough> [--replay FILE]

One property check (DESIGN.md §2.6):
  1. rebuild the correspondence harness against /repo's working tree; regenerate Generated.lean
  2. build the property's Lean modules; audit the axioms of its theorems; grep for escape hatches
  3. run the real analyzer and the Lean model on generated programs; compare the property's
     projection; evaluate the property predicate on the implementation's and on the model's result
  4. verdict, replay file, evidence file
Exit 0: the property held on everything explored (known findings are printed, not failed).
Exit 1: `VIOLATION property=<id> replay=<path>[ no-failing-input-found]`.
"""
import hashlib, json, os, re, subprocess, sys, time

ROOT = os.path.dirname(os.path.abspath(__file__))
LEAN = os.path.join(ROOT, "lean")
HARNESS = os.path.join(ROOT, "harness")
WORK = os.path.join(ROOT, "work")
REPLAYS = os.path.join(ROOT, "replays")
EVID = os.environ.get("VERIF_EVIDENCE_DIR") or os.path.join(ROOT, "evidence")  # seeded-change runs redirect this
ALLOWED_AXIOMS = {"propext", "Quot.sound", "Classical.choice"}

sys.path.insert(0, os.path.join(ROOT, "tools"))
from props_table import PROPS  # noqa: E402


def sh(cmd, cwd=None, timeout=None, env=None):
    e = dict(os.environ)
    e["CARGO_NET_OFFLINE"] = "true"
    if env:
        e.update(env)
    p = subprocess.run(cmd, cwd=cwd, shell=isinstance(cmd, str), stdout=subprocess.PIPE, stderr=subprocess.STDOUT,
                       text=True, timeout=timeout, env=e)
    return p.returncode, p.stdout


def build_harness():
    rc, out = sh("cargo build --release --offline 2>&1 | tail -30", cwd=HARNESS, timeout=1800)
    exe = os.path.join(HARNESS, "target", "release", "semverif-harness")
    ok = ("error" not in out.lower() or "Finished" in out) and os.path.exists(exe) and "Finished" in out
    return ok, out, exe


def lean_obligations(prop, spec, thorough):
    """returns (list of (obligation, ok, detail))"""
    obs = []
    rc, out = sh([sys.executable, os.path.join(ROOT, "tools", "extract.py")], timeout=300)
    obs.append(("translator: tools/extract.py regenerates SemVerif/Generated.lean from /repo/src", rc == 0, out.strip()[-400:]))
    if rc != 0:
        return obs, os.path.exists(os.path.join(LEAN, ".lake", "build", "bin", "driver"))
    mods = spec["modules"]
    if thorough:
        for m in mods:
            for ext in ("olean", "ilean"):
                f = os.path.join(LEAN, ".lake", "build", "lib", "lean", *m.split(".")) + "." + ext
                if os.path.exists(f):
                    os.remove(f)
    rc0, out0 = sh(["lake", "build", "driver"], cwd=LEAN, timeout=3600)
    driver_ok = rc0 == 0
    if not driver_ok:
        errs = re.findall(r"error: ([^\n]*)", out0)
        obs.append(("lake build driver (executable model, specifications, predicates)", False, "; ".join(errs[:6])[-800:]))
    rc, out = sh(["lake", "build"] + mods, cwd=LEAN, timeout=3600)
    build_ok = rc == 0
    if not build_ok:
        # find which theorem/module failed
        errs = re.findall(r"error: ([^\n]*)", out)
        obs.append(("lake build " + " ".join(mods), False, "; ".join(errs[:6])[-800:]))
    # audit
    thms = spec["theorems"]
    if thms and build_ok:
        os.makedirs(WORK, exist_ok=True)
        audit = os.path.join(WORK, "Audit_%s.lean" % prop)
        with open(audit, "w") as f:
            for m in mods:
                f.write("import %s\n" % m)
            for t in thms:
                f.write("#print axioms %s\n" % t)
        rc, out = sh(["lake", "env", "lean", audit], cwd=LEAN, timeout=1800)
        for t in thms:
            short = t.split(".")[-1]
            m = re.search(r"'%s' depends on axioms: \[([^\]]*)\]" % re.escape(t), out)
            m0 = re.search(r"'%s' does not depend on any axioms" % re.escape(t), out)
            if m0:
                obs.append(("theorem %s" % short, True, "no axioms"))
            elif m:
                axs = {a.strip() for a in m.group(1).replace("\n", " ").split(",") if a.strip()}
                bad = axs - ALLOWED_AXIOMS
                obs.append(("theorem %s" % short, not bad, "axioms: " + ", ".join(sorted(axs))))
            else:
                obs.append(("theorem %s" % short, False, "not found by #print axioms: " + out.strip()[-300:]))
    elif thms:
        for t in thms:
            obs.append(("theorem %s" % t.split(".")[-1], False, "module does not build"))
    # escape hatches
    rc, out = sh(r"grep -rnE '\bsorry\b|\badmit\b|^\s*axiom |native_decide|bv_decide|implemented_by|\bunsafe |maxHeartbeats 0' SemVerif --include=*.lean | grep -v '^[^:]*:[0-9]*:\s*--' | grep -v 'Wire.lean' || true", cwd=LEAN)
    hits = [l for l in out.strip().splitlines() if l.strip() and "/-" not in l.split(":", 2)[-1][:4]]
    obs.append(("no sorry / admit / axiom / native_decide / implemented_by / unsafe in SemVerif/", not hits, "; ".join(hits[:5])))
    if thorough and build_ok:
        for m in mods:
            if m.startswith("SemVerif.Props"):
                rc, out = sh(["lake", "env", "leanchecker", m], cwd=LEAN, timeout=3600)
                obs.append(("leanchecker %s" % m, rc == 0, out.strip()[-300:]))
    return obs, driver_ok


def gen_cases(exe, profile, seed, count, path, extra=None):
    cmd = [exe, "gen", "--profile", profile, "--seed", str(seed), "--count", str(count)] + (extra or [])
    with open(path, "w") as f:
        p = subprocess.run(cmd, stdout=f, stderr=subprocess.PIPE, text=True, timeout=3600)
    return p.returncode == 0, hang_or_tail(p)


def hang_or_tail(p):
    """the harness watchdog exits with code 3 and `HANG <program>` on stderr when one analysis does not finish"""
    if p.returncode == 3:
        for line in p.stderr.splitlines():
            if line.startswith("HANG "):
                return line
    return p.stderr[-400:]


def replay_cases(exe, src, path):
    with open(path, "w") as f:
        p = subprocess.run([exe, "replay", src], stdout=f, stderr=subprocess.PIPE, text=True, timeout=3600)
    return p.returncode == 0, hang_or_tail(p)


def read_case(path, idx):
    """idx-th D line with its G header and P line(s) of the group"""
    n = -1
    hdr, prog = "", ""
    with open(path) as f:
        for line in f:
            if line.startswith("G "):
                hdr = line[2:].strip()
            elif line.startswith("P "):
                prog = line[2:].strip()
            elif line.startswith("D "):
                n += 1
                if n == idx:
                    return hdr, prog, line[2:].strip()
    return hdr, "", ""


def run_driver(prop, path):
    exe = os.path.join(LEAN, ".lake", "build", "bin", "driver")
    p = subprocess.run([exe, prop, path], stdout=subprocess.PIPE, stderr=subprocess.PIPE, text=True, timeout=7200)
    rows = []
    for line in p.stdout.splitlines():
        if not line.startswith("CASE\t"):
            continue
        parts = line.split("\t")
        if len(parts) < 5:
            rows.append({"idx": int(parts[1]), "hdr": parts[2], "bad": parts[3] if len(parts) > 3 else "BAD"})
            continue
        rows.append({"idx": int(parts[1]), "hdr": parts[2], "pi": parts[3] == "1",
                     "impl": [t for t in parts[4].split(";") if t], "model": [t for t in parts[5].split(";") if t],
                     "full": parts[6] == "1", "feat": parts[7] if len(parts) > 7 else ""})
    return p.returncode, rows, p.stderr[-400:]


def load_known():
    f = os.path.join(ROOT, "known_findings.json")
    if not os.path.exists(f):
        return []
    return json.load(open(f)).get("findings", [])


def main():
    if len(sys.argv) < 3 or sys.argv[1] not in PROPS or sys.argv[2] not in ("quick", "thorough"):
        print("usage: check.py <Cxx> <quick|thorough> [--replay FILE]")
        sys.exit(2)
    prop, tier = sys.argv[1], sys.argv[2]
    replay_in = sys.argv[sys.argv.index("--replay") + 1] if "--replay" in sys.argv else None
    spec = PROPS[prop]
    seed = int(os.environ.get("VERIF_SEED", "1") or "1")
    t0 = time.time()
    os.makedirs(WORK, exist_ok=True)
    os.makedirs(REPLAYS, exist_ok=True)
    os.makedirs(EVID, exist_ok=True)
    known = [k for k in load_known() if k.get("property") == prop and k.get("status", "known") == "known"]
    known_tags = {k["tag"] for k in known}

    ok_h, out_h, exe = build_harness()
    obligations = []
    obligations.append(("harness builds against /repo working tree", ok_h, "" if ok_h else out_h[-600:]))
    obs, build_ok = lean_obligations(prop, spec, tier == "thorough")
    obligations += obs

    rows_all, files = [], []
    dist = {}
    gen_err = ""
    hangs = []          # (profile, program) on which the implementation did not terminate
    if ok_h and build_ok:
        plan = []
        corpus = os.path.join(ROOT, "corpus", prop + ".txt")
        if replay_in:
            plan.append(("replay", replay_in))
        else:
            if os.path.exists(corpus):
                plan.append(("replay", corpus))
            for profile, cq, ct in spec["profiles"]:
                plan.append((profile, cq if tier == "quick" else ct))
        for k, (profile, arg) in enumerate(plan):
            path = os.path.join(WORK, "%s-%s-%d-%s.txt" % (prop, tier, k, profile))
            if profile == "replay":
                g_ok, err = replay_cases(exe, arg, path)
            else:
                g_ok, err = gen_cases(exe, profile, seed, arg, path)
            if not g_ok:
                if err.startswith("HANG "):
                    hangs.append((profile, err[5:].strip()))
                    gen_err += "analysis did not terminate within the per-case limit (profile %s); " % profile
                else:
                    gen_err += err
                continue
            rc, rows, err = run_driver(prop, path)
            if rc != 0:
                gen_err += err
            for r in rows:
                r["file"] = path
                r["profile"] = profile
            rows_all += rows
            files.append(path)
    corr_ok = ok_h and build_ok and not gen_err and len(rows_all) > 0

    # classify
    violations = []      # (row, tag) implementation breaks the property, not a known finding
    known_seen = {}
    disagreements = []   # projection differs
    model_fail = []      # predicate false on the model's own result (theorem/driver sanity)
    bad_rows = []
    for r in rows_all:
        if "bad" in r:
            bad_rows.append(r)
            continue
        if not r["pi"]:
            disagreements.append(r)
        for t in r["impl"]:
            if t in known_tags:
                known_seen.setdefault(t, r)
            else:
                violations.append((r, t))
        for t in r["model"]:
            if t not in known_tags:
                model_fail.append((r, t))
        key = r["profile"] + ":" + r["feat"].split(",")[0]
        dist[key] = dist.get(key, 0) + 1

    failed_obs = [o for o in obligations if not o[1]]
    status = 0
    replay_path = os.path.join(REPLAYS, "%s-%s-%d.json" % (prop, tier, seed))
    replay = {"property": prop, "tier": tier, "seed": seed}
    if violations:
        r, tag = min(violations, key=lambda x: len(read_case(x[0]["file"], x[0]["idx"])[1]))
        hdr, prog, dump = read_case(r["file"], r["idx"])
        replay.update({"kind": "implementation-violates-property", "failing_instance": tag, "case": hdr,
                       "program": prog, "implementation_dump": dump, "all_failing_instances": sorted({t for _, t in violations})[:20],
                       "cases_failing": len({(x[0]["file"], x[0]["idx"]) for x in violations}),
                       "how_to_replay": "write the line 'G 1 replay x' then 'P <program>' into a file and run ./check.py %s quick --replay <file>" % prop})
        status = 1
        tail = ""
    elif hangs and prop == "C13":
        prof, prog = min(hangs, key=lambda x: len(x[1]))
        replay.update({"kind": "implementation-violates-property", "failing_instance": "c13:analysis-does-not-terminate",
                       "case": "profile " + prof, "program": prog,
                       "how_to_replay": "write the line 'G 1 replay x' then 'P <program>' into a file and run ./check.py C13 quick --replay <file>; the harness watchdog (VERIF_CASE_TIMEOUT_MS, default 20000) reports HANG"})
        status = 1
        tail = ""
    elif failed_obs or disagreements or model_fail or bad_rows or not corr_ok:
        replay["kind"] = "obligation-or-correspondence-broken"
        replay["failed_obligations"] = [{"obligation": o[0], "detail": o[2]} for o in failed_obs]
        if disagreements:
            r = disagreements[0]
            hdr, prog, dump = read_case(r["file"], r["idx"])
            replay["first_projection_disagreement"] = {"case": hdr, "program": prog, "implementation_dump": dump[:20000]}
            replay["projection_disagreements"] = len(disagreements)
        if model_fail:
            r, tag = model_fail[0]
            hdr, prog, dump = read_case(r["file"], r["idx"])
            replay["predicate_false_on_model"] = {"instance": tag, "case": hdr, "program": prog}
        if bad_rows:
            replay["undecodable_cases"] = len(bad_rows)
        if gen_err:
            replay["harness_error"] = gen_err[-600:]
        if hangs:
            replay["analysis_did_not_terminate_on"] = {"profile": hangs[0][0], "program": hangs[0][1]}
        status = 1
        tail = " no-failing-input-found"
    if status:
        json.dump(replay, open(replay_path, "w"), indent=1)

    for k in known:
        seen = "reproduced in this run" if k["tag"] in known_seen else "not exercised in this run"
        print("KNOWN-FINDING: property=%s %s %s — %s (%s)" % (prop, k["finding"], k["what"], k.get("site", ""), seen))

    # evidence
    n_cases = len([r for r in rows_all if "bad" not in r])
    seen_progs = set()
    nontriv = 0
    samples = []
    for r in rows_all:
        if "bad" in r:
            continue
        m = re.search(r"instrs=(\d+)", r["feat"])
        if m and int(m.group(1)) >= spec.get("nontrivial_instrs", 3):
            hdr, prog, _ = ("", "", "")
            key = (r["file"], r["idx"])
            nontriv_key = r["hdr"]
            if nontriv_key not in seen_progs:
                seen_progs.add(nontriv_key)
                nontriv += 1
    for path in files[:3]:
        hdr, prog, dump = read_case(path, 0)
        if prog:
            samples.append({"case": hdr, "program": prog[:1500], "implementation_dump": dump[:600]})
    # input distribution: what the generated programs contain (measured on this run's cases)
    def bucket(n, edges):
        for e in edges:
            if n <= e:
                return "<=%d" % e
        return ">%d" % edges[-1]
    indist = {"first_error_kind": {}, "nesting_depth": {}, "instructions": {}, "functions": {}, "longest_chain": {},
              "statement_totals": {}, "programs_with": {}}
    stat_keys = ["let", "set", "call", "if", "else", "elif", "loop", "ret", "brk", "cont", "exprs", "ext"]
    for r in rows_all:
        if "bad" in r:
            continue
        kv = dict(t.split("=", 1) for t in r["feat"].split(",")[1:] if "=" in t)
        def inc(d, k):
            d[k] = d.get(k, 0) + 1
        inc(indist["first_error_kind"], kv.get("first", "?"))
        if "depth" in kv:
            inc(indist["nesting_depth"], kv["depth"] if int(kv["depth"]) < 6 else ">=6")
            inc(indist["longest_chain"], bucket(int(kv.get("chain", "0")), [1, 2, 3, 5, 8]))
        inc(indist["instructions"], bucket(int(kv.get("instrs", "0")), [0, 2, 10, 30, 100]))
        inc(indist["functions"], bucket(int(kv.get("fns", "0")), [0, 1, 2, 4]))
        for k in stat_keys:
            if k in kv:
                indist["statement_totals"][k] = indist["statement_totals"].get(k, 0) + int(kv[k])
                if int(kv[k]) > 0:
                    inc(indist["programs_with"], k)
        for k in ("wf", "loopok", "f2", "f3"):
            if kv.get(k) == "true":
                inc(indist["programs_with"], k)
    n_obl = len(obligations)
    n_dis = len([o for o in obligations if o[1]])
    level = spec["level"]
    coverage = {
        "obligations": n_obl, "discharged": n_dis,
        "obligation_list": [{"obligation": o[0], "discharged": o[1], "detail": o[2][:200]} for o in obligations],
        "checker_cmd": "cd lean && lake build %s && lake env lean <audit with #print axioms>%s" % (
            " ".join(spec["modules"]), " && lake env leanchecker <Props module>" if tier == "thorough" else ""),
        "trusted_base": ["Lean 4.33 kernel", "axioms allowed: propext, Quot.sound, Classical.choice (printed per theorem)",
                         "hand-written model lean/SemVerif/{Syntax,SemTypes,Names,Fold,BlockState,Analyzer}.lean tied to /repo by the correspondence run below",
                         "tools/extract.py (translator of the tabular parts)", "harness/ (generator, AST builder, dumper) and lean/SemVerif/Wire.lean (parser)",
                         "the harness extension stands for all ExtendedExpression implementations"],
        "programs": n_cases, "disagreements_checked": n_cases,
        "projection_disagreements": len(disagreements), "full_dump_disagreements": len([r for r in rows_all if "bad" not in r and not r["full"]]),
        "evaluations": n_cases, "distinct_nontrivial": nontriv,
        "rule": "programs generated by harness profiles %s from VERIF_SEED; a case is non-trivial when its function stacks hold at least %d instructions; distinct by generator seed/site" % (
            [p[0] for p in spec["profiles"]], spec.get("nontrivial_instrs", 3)),
        "distribution": dist, "input_distribution": indist, "samples": samples,
        "known_findings_reproduced": sorted(known_seen), "exhaustive": False,
        "theorems": spec["theorems"], "statement": spec.get("statement", ""),
    }
    ev = {"property_id": prop, "tier": tier, "seed": seed, "level": level, "coverage": coverage,
          "assumptions": spec.get("assumptions", []), "wall_s": round(time.time() - t0, 2),
          "violations": len({(x[0]["file"], x[0]["idx"]) for x in violations})}
    json.dump(ev, open(os.path.join(EVID, prop + ".json"), "w"), indent=1)

    print("%s %s: obligations %d/%d, cases %d, projection disagreements %d, violating cases %d, known findings reproduced %d, %.1fs" % (
        prop, tier, n_dis, n_obl, n_cases, len(disagreements), ev["violations"], len(known_seen), time.time() - t0))
    for o in failed_obs:
        print("  FAILED obligation: %s — %s" % (o[0], o[2][:300]))
    if status:
        print("VIOLATION property=%s replay=%s%s" % (prop, replay_path, tail))
    sys.exit(status)


if __name__ == "__main__":
    main()
