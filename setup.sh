#!/bin/sh
set -e
cd "$(dirname "$0")"
(cd harness && cargo build --release --offline)
(cd lean && lake build)
