//! Owned program IR mirroring `semantic_analyzer::ast`, and its wire format (S-expression).

use std::fmt::Write;

#[derive(Clone, Copy, Debug, PartialEq, Eq, Hash)]
pub enum PT {
    U8,
    U16,
    U32,
    U64,
    I8,
    I16,
    I32,
    I64,
    F32,
    F64,
    Bool,
    Char,
    Ptr,
    None,
}

pub const ALL_PT: [PT; 14] = [
    PT::U8,
    PT::U16,
    PT::U32,
    PT::U64,
    PT::I8,
    PT::I16,
    PT::I32,
    PT::I64,
    PT::F32,
    PT::F64,
    PT::Bool,
    PT::Char,
    PT::Ptr,
    PT::None,
];

impl PT {
    pub fn wire(self) -> &'static str {
        match self {
            PT::U8 => "u8",
            PT::U16 => "u16",
            PT::U32 => "u32",
            PT::U64 => "u64",
            PT::I8 => "i8",
            PT::I16 => "i16",
            PT::I32 => "i32",
            PT::I64 => "i64",
            PT::F32 => "f32",
            PT::F64 => "f64",
            PT::Bool => "bool",
            PT::Char => "char",
            PT::Ptr => "ptr",
            PT::None => "none",
        }
    }
}

#[derive(Clone, Debug, PartialEq)]
pub enum Ty {
    Prim(PT),
    Struct(String, Vec<(String, Ty)>),
    Array(Box<Ty>, u32),
}

#[derive(Clone, Debug, PartialEq)]
pub enum PV {
    U8(u8),
    U16(u16),
    U32(u32),
    U64(u64),
    I8(i8),
    I16(i16),
    I32(i32),
    I64(i64),
    F32(f32),
    F64(f64),
    Bool(bool),
    Char(char),
    Ptr,
    None,
}

impl PV {
    pub fn ty(&self) -> PT {
        match self {
            PV::U8(_) => PT::U8,
            PV::U16(_) => PT::U16,
            PV::U32(_) => PT::U32,
            PV::U64(_) => PT::U64,
            PV::I8(_) => PT::I8,
            PV::I16(_) => PT::I16,
            PV::I32(_) => PT::I32,
            PV::I64(_) => PT::I64,
            PV::F32(_) => PT::F32,
            PV::F64(_) => PT::F64,
            PV::Bool(_) => PT::Bool,
            PV::Char(_) => PT::Char,
            PV::Ptr => PT::Ptr,
            PV::None => PT::None,
        }
    }
}

#[derive(Clone, Copy, Debug, PartialEq, Eq, Hash)]
pub enum Op {
    Plus,
    Minus,
    Multiply,
    Divide,
    ShiftLeft,
    ShiftRight,
    And,
    Or,
    Xor,
    Eq,
    NotEq,
    Great,
    Less,
    GreatEq,
    LessEq,
}

pub const ALL_OPS: [Op; 15] = [
    Op::Plus,
    Op::Minus,
    Op::Multiply,
    Op::Divide,
    Op::ShiftLeft,
    Op::ShiftRight,
    Op::And,
    Op::Or,
    Op::Xor,
    Op::Eq,
    Op::NotEq,
    Op::Great,
    Op::Less,
    Op::GreatEq,
    Op::LessEq,
];

impl Op {
    pub fn wire(self) -> &'static str {
        match self {
            Op::Plus => "plus",
            Op::Minus => "minus",
            Op::Multiply => "multiply",
            Op::Divide => "divide",
            Op::ShiftLeft => "shiftLeft",
            Op::ShiftRight => "shiftRight",
            Op::And => "and",
            Op::Or => "or",
            Op::Xor => "xor",
            Op::Eq => "eq",
            Op::NotEq => "notEq",
            Op::Great => "great",
            Op::Less => "less",
            Op::GreatEq => "greatEq",
            Op::LessEq => "lessEq",
        }
    }
}

#[derive(Clone, Copy, Debug, PartialEq, Eq)]
pub enum Cnd {
    Great,
    Less,
    Eq,
    GreatEq,
    LessEq,
    NotEq,
}
pub const ALL_CND: [Cnd; 6] = [Cnd::Great, Cnd::Less, Cnd::Eq, Cnd::GreatEq, Cnd::LessEq, Cnd::NotEq];
impl Cnd {
    pub fn wire(self) -> &'static str {
        match self {
            Cnd::Great => "great",
            Cnd::Less => "less",
            Cnd::Eq => "eq",
            Cnd::GreatEq => "greatEq",
            Cnd::LessEq => "lessEq",
            Cnd::NotEq => "notEq",
        }
    }
}

#[derive(Clone, Copy, Debug, PartialEq, Eq)]
pub enum Lg {
    And,
    Or,
}
impl Lg {
    pub fn wire(self) -> &'static str {
        match self {
            Lg::And => "and",
            Lg::Or => "or",
        }
    }
}

#[derive(Clone, Debug, PartialEq)]
pub enum EV {
    Var(String),
    Lit(PV),
    Call(String, Vec<Ex>),
    Field(String, String),
    Sub(Box<Ex>),
    Ext(u32, PT),
}

#[derive(Clone, Debug, PartialEq)]
pub struct Ex {
    pub v: EV,
    pub rest: Option<(Op, Box<Ex>)>,
}

impl Ex {
    pub fn single(v: EV) -> Ex {
        Ex { v, rest: None }
    }
    /// build a chain from a head and (op, value) pairs
    pub fn chain(head: EV, tail: Vec<(Op, EV)>) -> Ex {
        let mut rest: Option<(Op, Box<Ex>)> = None;
        for (op, v) in tail.into_iter().rev() {
            rest = Some((op, Box::new(Ex { v, rest })));
        }
        Ex { v: head, rest }
    }
    pub fn operands(&self) -> Vec<&EV> {
        let mut out = vec![&self.v];
        let mut cur = &self.rest;
        while let Some((_, e)) = cur {
            out.push(&e.v);
            cur = &e.rest;
        }
        out
    }
    pub fn ops(&self) -> Vec<Op> {
        let mut out = vec![];
        let mut cur = &self.rest;
        while let Some((o, e)) = cur {
            out.push(*o);
            cur = &e.rest;
        }
        out
    }
}

#[derive(Clone, Debug, PartialEq)]
pub struct LetS {
    pub name: String,
    pub mutable: bool,
    pub ty: Option<Ty>,
    pub value: Ex,
}
#[derive(Clone, Debug, PartialEq)]
pub struct SetS {
    pub name: String,
    pub value: Ex,
}
#[derive(Clone, Debug, PartialEq)]
pub struct CallS {
    pub name: String,
    pub args: Vec<Ex>,
}
#[derive(Clone, Debug, PartialEq)]
pub struct Cmp {
    pub left: Ex,
    pub cond: Cnd,
    pub right: Ex,
}
#[derive(Clone, Debug, PartialEq)]
pub struct LC {
    pub left: Cmp,
    pub right: Option<(Lg, Box<LC>)>,
}
#[derive(Clone, Debug, PartialEq)]
pub enum IfC {
    Single(Ex),
    Logic(LC),
}
/// One statement type for all four Rust statement enums; `Flavor` says which enum a list is
/// converted to.  `Expr` only in function bodies, `Brk`/`Cont` only in loop-flavoured lists.
#[derive(Clone, Debug, PartialEq)]
pub enum St {
    Let(LetS),
    Set(SetS),
    Call(CallS),
    If(IfS),
    Loop(Vec<St>),
    Expr(Ex),
    Ret(Ex),
    Brk,
    Cont,
}
#[derive(Clone, Debug, PartialEq)]
pub enum Bodies {
    If(Vec<St>),
    Loop(Vec<St>),
}
impl Bodies {
    pub fn stmts(&self) -> &Vec<St> {
        match self {
            Bodies::If(v) | Bodies::Loop(v) => v,
        }
    }
    pub fn stmts_mut(&mut self) -> &mut Vec<St> {
        match self {
            Bodies::If(v) | Bodies::Loop(v) => v,
        }
    }
}
#[derive(Clone, Debug, PartialEq)]
pub struct IfS {
    pub cond: IfC,
    pub body: Bodies,
    pub els: Option<Bodies>,
    pub elif: Option<Box<IfS>>,
}

#[derive(Clone, Debug, PartialEq)]
pub enum CV {
    Const(String),
    Val(PV),
}
#[derive(Clone, Debug, PartialEq)]
pub struct CE {
    pub v: CV,
    pub rest: Option<(Op, Box<CE>)>,
}
#[derive(Clone, Debug, PartialEq)]
pub struct Fn {
    pub name: String,
    pub params: Vec<(String, Ty)>,
    pub result: Ty,
    pub body: Vec<St>,
}
#[derive(Clone, Debug, PartialEq)]
pub enum Top {
    Import(Vec<String>),
    Types(String, Vec<(String, Ty)>),
    Const(String, Ty, CE),
    Fn(Fn),
}
pub type Prog = Vec<Top>;

// ---------------------------------------------------------------- wire printing

pub fn w_name(out: &mut String, s: &str) {
    out.push('\'');
    let mut first = true;
    for c in s.chars() {
        if !first {
            out.push('_');
        }
        first = false;
        write!(out, "{:x}", c as u32).unwrap();
    }
}

pub fn w_ty(out: &mut String, t: &Ty) {
    match t {
        Ty::Prim(p) => {
            write!(out, "(p {})", p.wire()).unwrap();
        }
        Ty::Struct(n, attrs) => {
            out.push_str("(s ");
            w_name(out, n);
            out.push_str(" (");
            for (i, (an, at)) in attrs.iter().enumerate() {
                if i > 0 {
                    out.push(' ');
                }
                out.push('(');
                w_name(out, an);
                out.push(' ');
                w_ty(out, at);
                out.push(')');
            }
            out.push_str("))");
        }
        Ty::Array(t, n) => {
            out.push_str("(a ");
            w_ty(out, t);
            write!(out, " {})", n).unwrap();
        }
    }
}

pub fn w_pv(out: &mut String, v: &PV) {
    match v {
        PV::U8(n) => write!(out, "(u8 {})", n).unwrap(),
        PV::U16(n) => write!(out, "(u16 {})", n).unwrap(),
        PV::U32(n) => write!(out, "(u32 {})", n).unwrap(),
        PV::U64(n) => write!(out, "(u64 {})", n).unwrap(),
        PV::I8(n) => write!(out, "(i8 {})", n).unwrap(),
        PV::I16(n) => write!(out, "(i16 {})", n).unwrap(),
        PV::I32(n) => write!(out, "(i32 {})", n).unwrap(),
        PV::I64(n) => write!(out, "(i64 {})", n).unwrap(),
        PV::F32(f) => {
            write!(out, "(f32 {} ", f.to_bits()).unwrap();
            w_name(out, &f.to_string());
            out.push(')');
        }
        PV::F64(f) => {
            write!(out, "(f64 {} ", f.to_bits()).unwrap();
            w_name(out, &f.to_string());
            out.push(')');
        }
        PV::Bool(b) => write!(out, "(bool {})", u8::from(*b)).unwrap(),
        PV::Char(c) => write!(out, "(char {})", *c as u32).unwrap(),
        PV::Ptr => out.push_str("(ptr)"),
        PV::None => out.push_str("(none)"),
    }
}

pub fn w_ex(out: &mut String, e: &Ex) {
    out.push_str("(e ");
    w_ev(out, &e.v);
    if let Some((op, r)) = &e.rest {
        write!(out, " {} ", op.wire()).unwrap();
        w_ex(out, r);
    }
    out.push(')');
}

pub fn w_ev(out: &mut String, v: &EV) {
    match v {
        EV::Var(n) => {
            out.push_str("(var ");
            w_name(out, n);
            out.push(')');
        }
        EV::Lit(p) => {
            out.push_str("(lit ");
            w_pv(out, p);
            out.push(')');
        }
        EV::Call(n, args) => {
            out.push_str("(call ");
            w_name(out, n);
            for a in args {
                out.push(' ');
                w_ex(out, a);
            }
            out.push(')');
        }
        EV::Field(n, a) => {
            out.push_str("(fld ");
            w_name(out, n);
            out.push(' ');
            w_name(out, a);
            out.push(')');
        }
        EV::Sub(e) => {
            out.push_str("(sub ");
            w_ex(out, e);
            out.push(')');
        }
        EV::Ext(tag, pt) => {
            write!(out, "(ext {} {})", tag, pt.wire()).unwrap();
        }
    }
}

fn w_cmp(out: &mut String, c: &Cmp) {
    out.push_str("(cmp ");
    w_ex(out, &c.left);
    write!(out, " {} ", c.cond.wire()).unwrap();
    w_ex(out, &c.right);
    out.push(')');
}

fn w_lc(out: &mut String, c: &LC) {
    out.push_str("(lc ");
    w_cmp(out, &c.left);
    if let Some((lg, r)) = &c.right {
        write!(out, " {} ", lg.wire()).unwrap();
        w_lc(out, r);
    }
    out.push(')');
}

fn w_bodies(out: &mut String, b: &Bodies) {
    match b {
        Bodies::If(v) => {
            out.push_str("(ifb");
            for s in v {
                out.push(' ');
                w_st(out, s);
            }
            out.push(')');
        }
        Bodies::Loop(v) => {
            out.push_str("(loopb");
            for s in v {
                out.push(' ');
                w_st(out, s);
            }
            out.push(')');
        }
    }
}

pub fn w_if(out: &mut String, i: &IfS) {
    out.push_str("(ifs ");
    match &i.cond {
        IfC::Single(e) => {
            out.push_str("(single ");
            w_ex(out, e);
            out.push(')');
        }
        IfC::Logic(l) => {
            out.push_str("(logic ");
            w_lc(out, l);
            out.push(')');
        }
    }
    out.push(' ');
    w_bodies(out, &i.body);
    out.push(' ');
    match &i.els {
        None => out.push_str("(none)"),
        Some(b) => {
            out.push_str("(some ");
            w_bodies(out, b);
            out.push(')');
        }
    }
    out.push(' ');
    match &i.elif {
        None => out.push_str("(none)"),
        Some(b) => {
            out.push_str("(some ");
            w_if(out, b);
            out.push(')');
        }
    }
    out.push(')');
}

pub fn w_st(out: &mut String, s: &St) {
    match s {
        St::Let(l) => {
            out.push_str("(let ");
            w_name(out, &l.name);
            write!(out, " {} ", u8::from(l.mutable)).unwrap();
            match &l.ty {
                None => out.push_str("(none)"),
                Some(t) => {
                    out.push_str("(some ");
                    w_ty(out, t);
                    out.push(')');
                }
            }
            out.push(' ');
            w_ex(out, &l.value);
            out.push(')');
        }
        St::Set(b) => {
            out.push_str("(set ");
            w_name(out, &b.name);
            out.push(' ');
            w_ex(out, &b.value);
            out.push(')');
        }
        St::Call(c) => {
            out.push_str("(call ");
            w_name(out, &c.name);
            for a in &c.args {
                out.push(' ');
                w_ex(out, a);
            }
            out.push(')');
        }
        St::If(i) => {
            out.push_str("(if ");
            w_if(out, i);
            out.push(')');
        }
        St::Loop(b) => {
            out.push_str("(loop");
            for s in b {
                out.push(' ');
                w_st(out, s);
            }
            out.push(')');
        }
        St::Expr(e) => {
            out.push_str("(expr ");
            w_ex(out, e);
            out.push(')');
        }
        St::Ret(e) => {
            out.push_str("(ret ");
            w_ex(out, e);
            out.push(')');
        }
        St::Brk => out.push_str("(brk)"),
        St::Cont => out.push_str("(cont)"),
    }
}

pub fn w_ce(out: &mut String, c: &CE) {
    let cv = |out: &mut String, v: &CV| match v {
        CV::Const(n) => {
            out.push_str("(c ");
            w_name(out, n);
            out.push(')');
        }
        CV::Val(p) => {
            out.push_str("(v ");
            w_pv(out, p);
            out.push(')');
        }
    };
    match &c.rest {
        None => {
            out.push_str("(cl ");
            cv(out, &c.v);
            out.push(')');
        }
        Some((op, r)) => {
            out.push_str("(cc ");
            cv(out, &c.v);
            write!(out, " {} ", op.wire()).unwrap();
            w_ce(out, r);
            out.push(')');
        }
    }
}

fn w_attrs(out: &mut String, attrs: &[(String, Ty)]) {
    out.push('(');
    for (i, (an, at)) in attrs.iter().enumerate() {
        if i > 0 {
            out.push(' ');
        }
        out.push('(');
        w_name(out, an);
        out.push(' ');
        w_ty(out, at);
        out.push(')');
    }
    out.push(')');
}

pub fn w_fn(out: &mut String, f: &Fn) {
    out.push_str("(fn ");
    w_name(out, &f.name);
    out.push(' ');
    w_attrs(out, &f.params);
    out.push(' ');
    w_ty(out, &f.result);
    out.push_str(" (");
    for (i, s) in f.body.iter().enumerate() {
        if i > 0 {
            out.push(' ');
        }
        w_st(out, s);
    }
    out.push_str("))");
}

pub fn w_prog(p: &Prog) -> String {
    let mut out = String::new();
    out.push_str("(prog");
    for t in p {
        out.push(' ');
        match t {
            Top::Import(path) => {
                out.push_str("(imp");
                for n in path {
                    out.push(' ');
                    w_name(&mut out, n);
                }
                out.push(')');
            }
            Top::Types(n, attrs) => {
                out.push_str("(types ");
                w_name(&mut out, n);
                out.push(' ');
                w_attrs(&mut out, attrs);
                out.push(')');
            }
            Top::Const(n, t, ce) => {
                out.push_str("(const ");
                w_name(&mut out, n);
                out.push(' ');
                w_ty(&mut out, t);
                out.push(' ');
                w_ce(&mut out, ce);
                out.push(')');
            }
            Top::Fn(f) => w_fn(&mut out, f),
        }
    }
    out.push(')');
    out
}
