//! C20: JSON codec round trips on the real types (serde_json), performed natively.

use crate::dump::{dump_state, HState};
use crate::ir::Prog;
use crate::toast::{self, AMain, HInstr};
use semantic_analyzer::semantic::State;
use semantic_analyzer::types::error::StateErrorResult;
use semantic_analyzer::types::semantic::SemanticStack;

fn needs_escape(s: &str) -> bool {
    s.chars().any(|c| c == '"' || c == '\\' || (c as u32) < 0x20)
}

pub fn prog_needs_escape(p: &Prog) -> bool {
    // any identifier of the program (conservatively: the wire text of names is checked by the caller)
    let w = crate::ir::w_prog(p);
    w.split(|c: char| c == ' ' || c == '(' || c == ')')
        .filter(|t| t.starts_with('\''))
        .any(|t| {
            let s: String = t[1..]
                .split('_')
                .filter(|h| !h.is_empty())
                .filter_map(|h| u32::from_str_radix(h, 16).ok().and_then(char::from_u32))
                .collect();
            needs_escape(&s)
        })
}

fn stack_rt(stack: &SemanticStack<HInstr>) -> (bool, bool, bool) {
    // (value equal after round trip, text equal after re-serialisation, JSON value equal)
    let Ok(j1) = serde_json::to_string(stack) else {
        return (false, false, false);
    };
    let Ok(back) = serde_json::from_str::<SemanticStack<HInstr>>(&j1) else {
        return (false, false, false);
    };
    let eq = back == *stack;
    let Ok(j2) = serde_json::to_string(&back) else {
        return (eq, false, false);
    };
    let v1: Result<serde_json::Value, _> = serde_json::from_str(&j1);
    let v2: Result<serde_json::Value, _> = serde_json::from_str(&j2);
    let veq = matches!((&v1, &v2), (Ok(a), Ok(b)) if a == b);
    (eq, j1 == j2, veq)
}

fn all_blocks(st: &HState) -> Vec<SemanticStack<HInstr>> {
    fn go(
        b: &std::rc::Rc<std::cell::RefCell<semantic_analyzer::types::block_state::BlockState<HInstr>>>,
        out: &mut Vec<SemanticStack<HInstr>>,
    ) {
        out.push(b.borrow().get_context());
        for c in &b.borrow().children {
            go(c, out);
        }
    }
    let mut out = vec![];
    for b in &st.context {
        go(b, &mut out);
    }
    out
}

/// returns the flags line, when the AST serialises its canonical JSON (sorted keys), and the
/// canonical JSON of the function root stacks
pub fn check(p: &Prog) -> (String, Option<String>, Option<String>) {
    let res = std::panic::catch_unwind(std::panic::AssertUnwindSafe(|| {
        let ast: AMain<'_> = toast::main(p);
        let mut flags: Vec<(&str, bool)> = vec![];
        let j1 = serde_json::to_string(&ast);
        let mut canon = None;
        let mut run_eq = false;
        let (mut ast_eq, mut ast_text, mut ast_de) = (false, false, false);
        if let Ok(j1) = &j1 {
            canon = serde_json::from_str::<serde_json::Value>(j1).ok().map(|v| v.to_string());
            let back: Result<AMain<'_>, _> = serde_json::from_str(j1);
            if let Ok(back) = back {
                ast_de = true;
                ast_eq = back == ast;
                ast_text = serde_json::to_string(&back).map(|j2| &j2 == j1).unwrap_or(false);
                let mut s1: HState = State::new();
                s1.run(&ast);
                let mut s2: HState = State::new();
                s2.run(&back);
                run_eq = dump_state(&s1, &ast) == dump_state(&s2, &back);
            }
        }
        flags.push(("ast_ser", j1.is_ok()));
        flags.push(("ast_de", ast_de));
        flags.push(("ast_eq", ast_eq));
        flags.push(("ast_text", ast_text));
        flags.push(("run_eq", run_eq));
        let mut st: HState = State::new();
        st.run(&ast);
        let roots: Vec<SemanticStack<HInstr>> = st.context.iter().map(|b| b.borrow().get_context()).collect();
        let stacks = serde_json::to_value(&roots).ok().map(|v| v.to_string());
        let (g_eq, g_text, g_val) = stack_rt(&st.global.context);
        flags.push(("gstack_eq", g_eq));
        flags.push(("gstack_text", g_text));
        flags.push(("gstack_value", g_val));
        let (mut f_eq, mut f_text, mut f_val) = (true, true, true);
        for s in all_blocks(&st) {
            let (a, b, c) = stack_rt(&s);
            f_eq &= a;
            f_text &= b;
            f_val &= c;
        }
        flags.push(("fstack_eq", f_eq));
        flags.push(("fstack_text", f_text));
        flags.push(("fstack_value", f_val));
        let ej = serde_json::to_string(&st.errors);
        let (mut e_eq, mut e_text) = (false, false);
        if let Ok(ej) = &ej {
            if let Ok(back) = serde_json::from_str::<Vec<StateErrorResult>>(ej) {
                e_eq = back == st.errors;
                e_text = serde_json::to_string(&back).map(|j| &j == ej).unwrap_or(false);
            }
        }
        flags.push(("errs_eq", e_eq));
        flags.push(("errs_text", e_text));
        flags.push(("needs_escape", prog_needs_escape(p)));
        let line = flags
            .iter()
            .map(|(k, v)| format!("{}={}", k, u8::from(*v)))
            .collect::<Vec<_>>()
            .join(" ");
        (line, canon, stacks)
    }));
    match res {
        Ok(x) => x,
        Err(_) => ("panic=1".to_string(), None, None),
    }
}
