//! Program generators.  Every random choice derives from one xorshift state (plus a forked
//! state for fault decisions, so that a faulted program differs from its base only at the site).

use crate::ir::*;

#[derive(Clone)]
pub struct Rng(pub u64);
impl Rng {
    pub fn new(seed: u64) -> Rng {
        let mut r = Rng(seed.wrapping_mul(0x9E37_79B9_7F4A_7C15) ^ 0xD1B5_4A32_D192_ED03);
        if r.0 == 0 {
            r.0 = 0x1234_5678_9ABC_DEF1;
        }
        for _ in 0..4 {
            r.next();
        }
        r
    }
    pub fn next(&mut self) -> u64 {
        let mut x = self.0;
        x ^= x >> 12;
        x ^= x << 25;
        x ^= x >> 27;
        self.0 = x;
        x.wrapping_mul(0x2545_F491_4F6C_DD1D)
    }
    pub fn below(&mut self, n: usize) -> usize {
        if n == 0 {
            0
        } else {
            (self.next() % (n as u64)) as usize
        }
    }
    pub fn chance(&mut self, num: u32, den: u32) -> bool {
        (self.next() % u64::from(den)) < u64::from(num)
    }
    pub fn pick<'a, T>(&mut self, xs: &'a [T]) -> &'a T {
        &xs[self.below(xs.len())]
    }
}

pub const VALUE_NAMES: &[&str] = &[
    "x", "y", "z", "x.0", "x.1", "y.0", "a.b.c", "x.+1", "", ".", "x.", "k", "x.007", "if_begin",
];
pub const CONST_NAMES: &[&str] = &["C", "x", "K.1", "y", "D", "z"];
pub const FN_NAMES: &[&str] = &["f", "g", "h", "main", "f.0", "x", "p"];
pub const STRUCT_NAMES: &[&str] = &["S", "T", "P.0", "x"];
pub const ATTR_NAMES: &[&str] = &["a", "b", "x", "a.0"];
pub const UNKNOWN: &str = "undeclared";

/// how faults are placed
#[derive(Clone, Copy, PartialEq, Debug)]
pub enum FaultMode {
    /// no fault: well-formed program
    None,
    /// exactly one fault, at the decision site with this index (counted in generation order)
    Site(usize),
    /// two faults at nearby decision sites (interplay of violations inside one construct)
    Sites(usize, usize),
    /// every decision site faults with probability num/den
    Noise(u32, u32),
}

#[derive(Clone)]
pub struct Cfg {
    pub max_depth: usize,
    pub max_stmts: usize,
    pub max_chain: usize,
    pub max_fns: usize,
    pub ext: bool,
    pub arrays: bool,
    /// allow `if` that is not the last statement of an if/else body (finding F2) and loops with a
    /// loop-level return plus nested break (finding F3)
    pub allow_f2_f3: bool,
    /// loop-flavoured if-bodies outside loops (documented panic)
    pub allow_loop_outside: bool,
    /// single-operand expressions and mostly call statements (control-flow skeletons)
    pub simple: bool,
    /// no f32 / f64 anywhere
    pub no_floats: bool,
    /// identifiers that need JSON escaping (finding F12)
    pub escapes: bool,
    pub fault: FaultMode,
}

impl Cfg {
    pub fn wf() -> Cfg {
        Cfg {
            max_depth: 3,
            max_stmts: 4,
            max_chain: 4,
            max_fns: 3,
            ext: true,
            arrays: false,
            allow_f2_f3: true,
            allow_loop_outside: false,
            simple: false,
            no_floats: false,
            escapes: false,
            fault: FaultMode::None,
        }
    }
}

#[derive(Clone)]
struct FnSig {
    name: String,
    params: Vec<Ty>,
    result: Ty,
}

pub struct Gen {
    pub rng: Rng,
    pub frng: Rng,
    pub cfg: Cfg,
    structs: Vec<(String, Vec<(String, Ty)>)>,
    consts: Vec<(String, Ty)>,
    funcs: Vec<FnSig>,
    scope: Vec<Vec<(String, Ty, bool)>>,
    pub sites: usize,
    pub faults: Vec<String>,
    ext_tag: u32,
    last_ext: Option<PT>,
    /// a value declared by a `let` whose expression carried an argument-type fault: the analyzer
    /// still declares it, so the next statement reads it to the left of an extension leaf
    use_next: Option<(String, PT)>,
    loop_depth: usize,
}

fn prim_lit(rng: &mut Rng, p: PT) -> PV {
    let small = rng.below(4) as u8;
    match p {
        PT::U8 => PV::U8(small + if rng.chance(1, 8) { 250 } else { 0 }),
        PT::U16 => PV::U16(u16::from(small) + if rng.chance(1, 8) { 65000 } else { 0 }),
        PT::U32 => PV::U32(u32::from(small)),
        PT::U64 => PV::U64(if rng.chance(1, 8) { u64::MAX } else { u64::from(small) }),
        PT::I8 => PV::I8(if rng.chance(1, 4) { -(small as i8) - 1 } else { small as i8 }),
        PT::I16 => PV::I16(if rng.chance(1, 4) { -300 } else { i16::from(small) }),
        PT::I32 => PV::I32(if rng.chance(1, 4) { -70000 } else { i32::from(small) }),
        PT::I64 => PV::I64(if rng.chance(1, 8) { i64::MIN } else { i64::from(small) }),
        PT::F32 => PV::F32([0.5f32, 1.0, -2.25, 3.0e10, 1.0e-3][rng.below(5)]),
        PT::F64 => PV::F64([0.1f64, 1.0, -2.5, 6.02e23, 1.0e-9, 123456.789][rng.below(6)]),
        PT::Bool => PV::Bool(rng.chance(1, 2)),
        PT::Char => PV::Char(['a', 'Z', '0', 'é', '.'][rng.below(5)]),
        PT::Ptr => PV::Ptr,
        PT::None => PV::None,
    }
}

const COMMON_PT: [PT; 6] = [PT::U8, PT::I32, PT::Bool, PT::U64, PT::F64, PT::Char];

impl Gen {
    pub fn new(seed: u64, cfg: Cfg) -> Gen {
        Gen {
            rng: Rng::new(seed),
            frng: Rng::new(seed ^ 0xFA17_FA17_FA17_FA17),
            cfg,
            structs: vec![],
            consts: vec![],
            funcs: vec![],
            scope: vec![],
            sites: 0,
            faults: vec![],
            ext_tag: 0,
            last_ext: None,
            use_next: None,
            loop_depth: 0,
        }
    }

    /// a decision site: returns true when a fault has to be injected here
    fn fault(&mut self, class: &str) -> bool {
        let idx = self.sites;
        self.sites += 1;
        let hit = match self.cfg.fault {
            FaultMode::None => false,
            FaultMode::Site(k) => k == idx,
            FaultMode::Sites(a, b) => a == idx || b == idx,
            // code after a terminator is rare in every other stream: boost it in the noisy one
            FaultMode::Noise(n, d) => if class.starts_with("B13") { self.frng.chance(1, 3) } else { self.frng.chance(n, d) },
        };
        if hit {
            self.faults.push(class.to_string());
        }
        hit
    }

    fn prim(&mut self) -> PT {
        loop {
            let p = if self.rng.chance(3, 4) {
                *self.rng.pick(&COMMON_PT)
            } else {
                *self.rng.pick(&ALL_PT)
            };
            if !(self.cfg.no_floats && (p == PT::F32 || p == PT::F64)) {
                return p;
            }
        }
    }

    fn struct_ty(&self, i: usize) -> Ty {
        Ty::Struct(self.structs[i].0.clone(), self.structs[i].1.clone())
    }

    /// a type that is primitive or a registered struct
    fn any_ty(&mut self) -> Ty {
        if !self.structs.is_empty() && self.rng.chance(1, 4) {
            let i = self.rng.below(self.structs.len());
            // one time in four the reference spells the declared struct with one attribute type changed
            // (same name, same attribute names and order: seeded change C01-e); the analyzer looks the
            // name up only, so the declaration is accepted and the value is of a *different* type
            if self.rng.chance(1, 4) {
                return self.variant_struct_ty(i);
            }
            self.struct_ty(i)
        } else {
            Ty::Prim(self.prim())
        }
    }

    /// the declared struct `i` with the type of one attribute replaced by another primitive
    fn variant_struct_ty(&mut self, i: usize) -> Ty {
        let (n, mut attrs) = self.structs[i].clone();
        let k = self.rng.below(attrs.len());
        let other = if attrs[k].1 == Ty::Prim(PT::Bool) { PT::I32 } else { PT::Bool };
        attrs[k].1 = Ty::Prim(other);
        Ty::Struct(n, attrs)
    }

    fn bad_struct_ty(&mut self) -> Ty {
        // undeclared struct, or a declared name with other attributes
        if !self.structs.is_empty() && self.frng.chance(1, 2) {
            let i = self.frng.below(self.structs.len());
            Ty::Struct(
                self.structs[i].0.clone(),
                vec![("zz".to_string(), Ty::Prim(PT::U8))],
            )
        } else {
            Ty::Struct("Undeclared".to_string(), vec![])
        }
    }

    fn lookup(&self, name: &str) -> Option<(Ty, bool)> {
        for frame in self.scope.iter().rev() {
            for (n, t, m) in frame.iter().rev() {
                if n == name {
                    return Some((t.clone(), *m));
                }
            }
        }
        None
    }

    fn visible_names(&self) -> Vec<String> {
        let mut out: Vec<String> = vec![];
        for frame in self.scope.iter().rev() {
            for (n, _, _) in frame.iter().rev() {
                if !out.contains(n) {
                    out.push(n.clone());
                }
            }
        }
        out
    }

    fn other_prim(&mut self, t: &Ty) -> PT {
        loop {
            let p = *self.frng.pick(&COMMON_PT);
            if Ty::Prim(p) != *t {
                return p;
            }
        }
    }

    fn operand(&mut self, t: &Ty, depth: usize) -> Option<EV> {
        // fault sites of an operand
        if self.fault("B2-read-unknown") {
            return Some(EV::Var(UNKNOWN.to_string()));
        }
        if self.fault("B4-call-unknown") {
            return Some(EV::Call("nofn".to_string(), vec![]));
        }
        if self.fault("B3-field") {
            let names = self.visible_names();
            // a value whose struct type has a registered name but not the registered attributes
            let mut variant: Vec<(String, String)> = vec![];
            for n in &names {
                if let Some((Ty::Struct(sn, attrs), _)) = self.lookup(n) {
                    if self.structs.iter().any(|(dn, da)| *dn == sn && *da != attrs) {
                        for (an, at) in &attrs {
                            if at == t {
                                variant.push((n.clone(), an.clone()));
                            }
                        }
                        if let Some((an, _)) = attrs.first() {
                            variant.push((n.clone(), an.clone()));
                        }
                    }
                }
            }
            if !variant.is_empty() && self.frng.chance(2, 3) {
                let (n, a) = variant[self.frng.below(variant.len())].clone();
                return Some(EV::Field(n, a));
            }
            return Some(match self.frng.below(3) {
                0 => EV::Field(UNKNOWN.to_string(), "a".to_string()),
                1 if !names.is_empty() => {
                    EV::Field(names[self.frng.below(names.len())].clone(), "nofield".to_string())
                }
                _ => EV::Field("x".to_string(), "a".to_string()),
            });
        }
        let mut cands: Vec<u8> = vec![];
        if let Ty::Prim(_) = t {
            cands.push(0);
            cands.push(0);
            if self.cfg.ext {
                cands.push(5);
            }
        }
        let names = self.visible_names();
        let vars: Vec<String> = names
            .iter()
            .filter(|n| self.lookup(n).map(|x| x.0) == Some(t.clone()))
            .cloned()
            .collect();
        if !vars.is_empty() {
            cands.push(1);
            cands.push(1);
            cands.push(1);
        }
        let consts: Vec<String> = self
            .consts
            .iter()
            .filter(|(n, ct)| ct == t && self.lookup(n).is_none())
            .map(|(n, _)| n.clone())
            .collect();
        if !consts.is_empty() {
            cands.push(2);
        }
        let fns: Vec<FnSig> = self.funcs.iter().filter(|f| f.result == *t).cloned().collect();
        if !fns.is_empty() && depth > 0 {
            cands.push(3);
        }
        // field reads: visible struct-typed values (registered, consistent) with an attribute of type t
        let mut fields: Vec<(String, String)> = vec![];
        for n in &names {
            if let Some((Ty::Struct(sn, attrs), _)) = self.lookup(n) {
                if self.structs.iter().any(|(dn, da)| *dn == sn && *da == attrs) {
                    // the attribute map keeps the last attribute of a name
                    for (an, _) in &attrs {
                        let last = attrs.iter().rev().find(|(x, _)| x == an).unwrap();
                        if last.1 == *t {
                            fields.push((n.clone(), an.clone()));
                        }
                    }
                }
            }
        }
        if !fields.is_empty() {
            cands.push(4);
            cands.push(4);
        }
        if depth > 0 {
            cands.push(6);
        }
        if cands.is_empty() {
            return None;
        }
        loop {
            let c = *self.rng.pick(&cands);
            match c {
                0 => {
                    if let Ty::Prim(p) = t {
                        return Some(EV::Lit(prim_lit(&mut self.rng, *p)));
                    }
                }
                1 => return Some(EV::Var(self.rng.pick(&vars).clone())),
                2 => return Some(EV::Var(self.rng.pick(&consts).clone())),
                3 => {
                    let f = self.rng.pick(&fns).clone();
                    if let Some(args) = self.call_args(&f, depth - 1) {
                        return Some(EV::Call(f.name, args));
                    }
                    if cands.iter().all(|x| *x == 3) {
                        return None;
                    }
                }
                4 => {
                    let (n, a) = self.rng.pick(&fields).clone();
                    return Some(EV::Field(n, a));
                }
                5 => {
                    if let Ty::Prim(p) = t {
                        // half of the time an adjacent leaf of the same type repeats the previous tag
                        // (equal custom instructions back to back)
                        if self.last_ext == Some(*p) && self.rng.below(2) == 0 {
                            return Some(EV::Ext(self.ext_tag, *p));
                        }
                        self.ext_tag += 1;
                        self.last_ext = Some(*p);
                        return Some(EV::Ext(self.ext_tag, *p));
                    }
                }
                _ => {
                    if let Some(e) = self.expr(t, depth - 1) {
                        return Some(EV::Sub(Box::new(e)));
                    }
                    if cands.iter().all(|x| *x == 6 || *x == 3) {
                        return None;
                    }
                }
            }
        }
    }

    fn call_args(&mut self, f: &FnSig, depth: usize) -> Option<Vec<Ex>> {
        let mut args = vec![];
        // too many arguments *and* a wrong type in a declared position (the arity check must not
        // depend on how many arguments were accepted so far)
        if !f.params.is_empty() && self.fault("B5-arg-more-and-type") {
            let k = self.frng.below(f.params.len());
            for (i, p) in f.params.iter().enumerate() {
                if i == k {
                    let q = self.other_prim(p);
                    args.push(Ex::single(EV::Lit(prim_lit(&mut self.frng, q))));
                } else {
                    args.push(self.expr(p, depth)?);
                }
            }
            args.push(Ex::single(EV::Lit(PV::Bool(true))));
            return Some(args);
        }
        for p in &f.params {
            if self.fault("B5-arg-type") {
                let q = self.other_prim(p);
                args.push(Ex::single(EV::Lit(prim_lit(&mut self.frng, q))));
                continue;
            }
            args.push(self.expr(p, depth)?);
        }
        if self.fault("B5-arg-more") {
            args.push(Ex::single(EV::Lit(PV::U8(1))));
        } else if !args.is_empty() && self.fault("B5-arg-fewer") {
            args.pop();
        }
        Some(args)
    }

    pub fn expr(&mut self, t: &Ty, depth: usize) -> Option<Ex> {
        let n = 1 + if self.cfg.simple || self.rng.chance(1, 2) {
            0
        } else {
            self.rng.below(self.cfg.max_chain)
        };
        let head = self.operand(t, depth)?;
        let mut tail = vec![];
        for _ in 1..n {
            let op = *self.rng.pick(&ALL_OPS);
            if self.fault("B6-operand-type") {
                let q = self.other_prim(t);
                tail.push((op, EV::Lit(prim_lit(&mut self.frng, q))));
                continue;
            }
            match self.operand(t, depth) {
                Some(v) => tail.push((op, v)),
                None => break,
            }
        }
        Some(Ex::chain(head, tail))
    }

    fn fresh_value_name(&mut self) -> String {
        if self.cfg.escapes && self.rng.chance(1, 3) {
            return ["q\"x", "b\\s", "t\tb"][self.rng.below(3)].to_string();
        }
        self.rng.pick(VALUE_NAMES).to_string()
    }

    fn declare(&mut self, n: &str, t: Ty, m: bool) {
        self.scope.last_mut().unwrap().push((n.to_string(), t, m));
    }

    fn stmt_let(&mut self, depth: usize) -> Option<St> {
        let t = self.any_ty();
        let nf = self.faults.len();
        let value = self.expr(&t, depth)?;
        let arg_fault = self.faults.len() > nf && self.faults[nf..].iter().all(|c| c == "B5-arg-type");
        let name = self.fresh_value_name();
        let mutable = self.rng.chance(1, 2);
        let mut ty = if self.rng.chance(1, 2) { Some(t.clone()) } else { None };
        if self.fault("B7-let-type") {
            ty = Some(Ty::Prim(self.other_prim(&t)));
            // the analyzer declares nothing
        } else {
            if arg_fault && self.cfg.ext {
                if let Ty::Prim(p) = &t {
                    self.use_next = Some((name.clone(), *p));
                }
            }
            self.declare(&name, t, mutable);
        }
        Some(St::Let(LetS {
            name,
            mutable,
            ty,
            value,
        }))
    }

    fn stmt_set(&mut self, depth: usize) -> Option<St> {
        if self.fault("B2-set-unknown") {
            // half of the time the assigned expression has a violation of its own, which must be
            // reported first (the expression is analysed before the target is looked up)
            let value = if self.frng.chance(1, 2) {
                Ex::single(EV::Var(format!("{UNKNOWN}2")))
            } else {
                self.expr(&Ty::Prim(PT::U8), depth)?
            };
            return Some(St::Set(SetS {
                name: UNKNOWN.to_string(),
                value,
            }));
        }
        let names = self.visible_names();
        if self.fault("B8-immutable") {
            let imm: Vec<&String> = names
                .iter()
                .filter(|n| self.lookup(n).map(|x| x.1) == Some(false))
                .collect();
            if let Some(n) = imm.first() {
                let (t, _) = self.lookup(n).unwrap();
                let n = (*n).clone();
                let value = self.expr(&t, depth)?;
                return Some(St::Set(SetS { name: n, value }));
            }
        }
        let muts: Vec<String> = names
            .iter()
            .filter(|n| self.lookup(n).map(|x| x.1) == Some(true))
            .cloned()
            .collect();
        if muts.is_empty() {
            return None;
        }
        let n = self.rng.pick(&muts).clone();
        let (t, _) = self.lookup(&n).unwrap();
        if self.fault("B8-assign-type") {
            let q = self.other_prim(&t);
            return Some(St::Set(SetS {
                name: n,
                value: Ex::single(EV::Lit(prim_lit(&mut self.frng, q))),
            }));
        }
        let value = self.expr(&t, depth)?;
        Some(St::Set(SetS { name: n, value }))
    }

    fn stmt_call(&mut self, depth: usize) -> Option<St> {
        if self.fault("B4-callstmt-unknown") {
            return Some(St::Call(CallS {
                name: "nofn".to_string(),
                args: vec![],
            }));
        }
        if self.funcs.is_empty() {
            return None;
        }
        let f = self.rng.pick(&self.funcs.clone()).clone();
        let args = self.call_args(&f, depth)?;
        Some(St::Call(CallS { name: f.name, args }))
    }

    fn cmp(&mut self, depth: usize) -> Option<Cmp> {
        let p = self.prim();
        let t = Ty::Prim(p);
        let left = self.expr(&t, depth)?;
        let right = if self.fault("B9-cmp-type") {
            // one time in three, with a struct-typed value in sight: struct on the left, primitive on
            // the right (both clauses of B9 violated at once)
            let names = self.visible_names();
            let sv: Option<String> = names
                .iter()
                .find(|n| matches!(self.lookup(n), Some((Ty::Struct(..), _))))
                .cloned();
            if let (Some(n), true) = (sv, self.frng.chance(1, 3)) {
                return Some(Cmp {
                    left: Ex::single(EV::Var(n)),
                    cond: *self.rng.pick(&ALL_CND),
                    right: Ex::single(EV::Lit(prim_lit(&mut self.frng, p))),
                });
            }
            let q = self.other_prim(&t);
            Ex::single(EV::Lit(prim_lit(&mut self.frng, q)))
        } else {
            self.expr(&t, depth)?
        };
        Some(Cmp {
            left,
            cond: *self.rng.pick(&ALL_CND),
            right,
        })
    }

    fn struct_cmp(&mut self) -> Option<Cmp> {
        // both sides the same struct-typed value: `ConditionExpressionNotSupported`
        let names = self.visible_names();
        let sv: Vec<&String> = names
            .iter()
            .filter(|n| matches!(self.lookup(n), Some((Ty::Struct(..), _))))
            .collect();
        let n = (*sv.first()?).clone();
        // half of the time the right side has another type (a literal, or a value of another struct
        // type): both clauses of B9 are violated and the order of the two guards decides the error
        // kind (seeded change C14-e)
        let right = if self.frng.chance(1, 2) {
            let lt = self.lookup(&n).map(|x| x.0);
            let other: Option<String> = sv
                .iter()
                .find(|m| self.lookup(m).map(|x| x.0) != lt)
                .map(|m| (*m).clone());
            match other {
                Some(m) if self.frng.chance(1, 2) => Ex::single(EV::Var(m)),
                _ => Ex::single(EV::Lit(prim_lit(&mut self.frng, PT::I32))),
            }
        } else {
            Ex::single(EV::Var(n.clone()))
        };
        Some(Cmp {
            left: Ex::single(EV::Var(n)),
            cond: Cnd::Eq,
            right,
        })
    }

    fn cond(&mut self, depth: usize) -> Option<IfC> {
        if self.rng.chance(1, 2) {
            let t = self.any_ty();
            Some(IfC::Single(self.expr(&t, depth)?))
        } else {
            if self.fault("B9-cmp-struct") {
                if let Some(c) = self.struct_cmp() {
                    return Some(IfC::Logic(LC { left: c, right: None }));
                }
            }
            let n = 1 + self.rng.below(3);
            let mut cmps = vec![];
            for _ in 0..n {
                cmps.push(self.cmp(depth)?);
            }
            let mut lc: Option<LC> = None;
            for c in cmps.into_iter().rev() {
                lc = Some(LC {
                    left: c,
                    right: lc.map(|r| {
                        (
                            if self.rng.chance(1, 2) { Lg::And } else { Lg::Or },
                            Box::new(r),
                        )
                    }),
                });
            }
            Some(IfC::Logic(lc.unwrap()))
        }
    }

    /// kind: 0 = if-flavoured body, 1 = loop-flavoured if body, 2 = loop body
    fn nested_block(&mut self, kind: u8, depth: usize, result: &Ty) -> Vec<St> {
        self.scope.push(vec![]);
        let n = self.rng.below(self.cfg.max_stmts + 1);
        let mut out = vec![];
        // faults that only an analyzer with a wrong scoping rule accepts: shadow an outer name in
        // this block, then use it as if it still were the outer declaration
        if self.fault("B7-shadow-then-outer-type") {
            let outer: Vec<(String, PT)> = self
                .visible_names()
                .into_iter()
                .filter_map(|n| match self.lookup(&n) {
                    Some((Ty::Prim(t), _)) => Some((n, t)),
                    _ => None,
                })
                .collect();
            if let Some((name, t)) = outer.first().cloned() {
                let u = self.other_prim(&Ty::Prim(t));
                out.push(St::Let(LetS {
                    name: name.clone(),
                    mutable: false,
                    ty: Some(Ty::Prim(u)),
                    value: Ex::single(EV::Lit(prim_lit(&mut self.frng, u))),
                }));
                self.declare(&name, Ty::Prim(u), false);
                out.push(St::Let(LetS {
                    name: "w".to_string(),
                    mutable: false,
                    ty: Some(Ty::Prim(t)),
                    value: Ex::single(EV::Var(name)),
                }));
            }
        }
        // a local that hides a constant of another type, used where only the constant's type fits
        if self.fault("B7-shadow-const-then-const-type") {
            let cs: Vec<(String, PT)> = self
                .consts
                .iter()
                .filter_map(|(n, t)| match t {
                    Ty::Prim(p) if self.lookup(n).is_none() => Some((n.clone(), *p)),
                    _ => None,
                })
                .collect();
            if let Some((name, t)) = cs.first().cloned() {
                let u = self.other_prim(&Ty::Prim(t));
                out.push(St::Let(LetS {
                    name: name.clone(),
                    mutable: false,
                    ty: None,
                    value: Ex::single(EV::Lit(prim_lit(&mut self.frng, u))),
                }));
                self.declare(&name, Ty::Prim(u), false);
                out.push(St::Let(LetS {
                    name: "w".to_string(),
                    mutable: false,
                    ty: Some(Ty::Prim(t)),
                    value: Ex::single(EV::Var(name)),
                }));
            }
        }
        if self.fault("B8-shadow-then-outer-mut") {
            let outer: Vec<(String, PT)> = self
                .visible_names()
                .into_iter()
                .filter_map(|n| match self.lookup(&n) {
                    Some((Ty::Prim(t), true)) => Some((n, t)),
                    _ => None,
                })
                .collect();
            if let Some((name, t)) = outer.first().cloned() {
                out.push(St::Let(LetS {
                    name: name.clone(),
                    mutable: false,
                    ty: None,
                    value: Ex::single(EV::Lit(prim_lit(&mut self.frng, t))),
                }));
                self.declare(&name, Ty::Prim(t), false);
                out.push(St::Set(SetS {
                    name,
                    value: Ex::single(EV::Lit(prim_lit(&mut self.frng, t))),
                }));
            }
        }
        for i in 0..n {
            let last = i + 1 == n;
            if let Some(s) = self.stmt(kind, depth, last, result) {
                let term = matches!(s, St::Ret(_) | St::Brk | St::Cont);
                out.push(s);
                if term {
                    if self.fault("B13-code-after") {
                        if let Some(e) = self.expr(&Ty::Prim(PT::U8), 0) {
                            out.push(St::Let(LetS {
                                name: "x".to_string(),
                                mutable: false,
                                ty: None,
                                value: e,
                            }));
                        }
                    }
                    break;
                }
            }
        }
        self.scope.pop();
        out
    }

    fn if_stmt(&mut self, loopish: bool, depth: usize, result: &Ty) -> Option<IfS> {
        // the condition is analysed with the if-body block as current block
        self.scope.push(vec![]);
        let cond = self.cond(depth);
        self.scope.pop();
        let cond = cond?;
        let use_loop_flavour = if self.loop_depth > 0 {
            loopish && self.rng.chance(2, 3)
        } else {
            self.cfg.allow_loop_outside && self.rng.chance(1, 3)
        };
        let mk = |g: &mut Gen| {
            if use_loop_flavour {
                Bodies::Loop(g.nested_block(1, depth.saturating_sub(1), result))
            } else {
                Bodies::If(g.nested_block(0, depth.saturating_sub(1), result))
            }
        };
        let body = mk(self);
        let mut els = None;
        let mut elif = None;
        match self.rng.below(4) {
            0 => els = Some(mk(self)),
            1 if depth > 0 => {
                elif = self.if_stmt(loopish, depth - 1, result).map(Box::new);
            }
            _ => {}
        }
        // both bodies of an if / else end in a return now and then (the end label is then reached
        // only through a nested `if`)
        if let (Some(Bodies::If(eb)), Bodies::If(_), Ty::Prim(rt)) = (&els, &body, result) {
            if self.rng.chance(1, 4) {
                let rt = *rt;
                let ends = |b: &Vec<St>| matches!(b.last(), Some(St::Ret(_) | St::Brk | St::Cont));
                let mut eb2 = eb.clone();
                let mut tb2 = match &body { Bodies::If(b) => b.clone(), Bodies::Loop(b) => b.clone() };
                // in the clean stream an `if` stays the last statement of its body (finding F2)
                let f2 = self.cfg.allow_f2_f3;
                let okc = |b: &Vec<St>| f2 || !matches!(b.last(), Some(St::If(_)));
                if !ends(&eb2) && okc(&eb2) {
                    eb2.push(St::Ret(Ex::single(EV::Lit(prim_lit(&mut self.rng, rt)))));
                }
                if !ends(&tb2) && okc(&tb2) {
                    tb2.push(St::Ret(Ex::single(EV::Lit(prim_lit(&mut self.rng, rt)))));
                }
                els = Some(Bodies::If(eb2));
                return self.finish_if(cond, Bodies::If(tb2), els, elif);
            }
        }
        self.finish_if(cond, body, els, elif)
    }

    fn finish_if(&mut self, cond: IfC, body: Bodies, mut els: Option<Bodies>, mut elif: Option<Box<IfS>>) -> Option<IfS> {
        if self.fault("B10-else-dup") {
            if els.is_none() {
                els = Some(Bodies::If(vec![]));
            }
            if elif.is_none() {
                elif = Some(Box::new(IfS {
                    cond: IfC::Single(Ex::single(EV::Lit(PV::Bool(true)))),
                    body: Bodies::If(vec![]),
                    els: None,
                    elif: None,
                }));
            }
        }
        Some(IfS {
            cond,
            body,
            els,
            elif,
        })
    }

    /// one statement of a block of the given kind (3 = function body)
    fn stmt(&mut self, kind: u8, depth: usize, last: bool, result: &Ty) -> Option<St> {
        let loopish = kind == 1 || kind == 2;
        if let Some((x, p)) = self.use_next.take() {
            // `let z = x + ext`: the analysis went on after the argument-type error, `x` is declared
            self.ext_tag += 1;
            self.last_ext = Some(p);
            let value = Ex {
                v: EV::Var(x),
                rest: Some((Op::Plus, Box::new(Ex::single(EV::Ext(self.ext_tag, p))))),
            };
            let name = self.fresh_value_name();
            self.declare(&name, Ty::Prim(p), false);
            return Some(St::Let(LetS { name, mutable: false, ty: None, value }));
        }
        // loop-flavoured bodies end in break / continue often enough for combinations (a loop that ends
        // in `continue` around an `if` that ends in `break`, …) to occur in every run
        if loopish && last && self.rng.chance(if kind == 1 { 2 } else { 1 }, 5) {
            // a loop-flavoured if body also ends in a (nested) return now and then
            if kind == 1 && self.rng.chance(1, 4) {
                if let Some(e) = self.expr(result, 0) {
                    return Some(St::Ret(e));
                }
            }
            return Some(if self.rng.chance(1, 2) { St::Brk } else { St::Cont });
        }
        // a plain if / else body ends in a (nested) return often enough for an if / else whose
        // bodies both return, around a nested `if`, to occur in every run (seeded change C10-c)
        if kind == 0 && last && self.rng.chance(1, 5) {
            if let Some(e) = self.expr(result, 0) {
                return Some(St::Ret(e));
            }
        }
        let r = if self.cfg.simple {
            // control-flow skeletons: half of the statements are control statements
            [0, 5, 7, 7, 9, 9, 10, 10, 11, 11, 12, 13, 14, 9, 11, 7][self.rng.below(16)]
        } else {
            self.rng.below(16)
        };
        match r {
            0..=4 => self.stmt_let(depth),
            5..=6 => self.stmt_set(depth),
            7..=8 => self.stmt_call(depth),
            9..=10 if depth > 0 => {
                // in an if/else body an `if` that is not the last statement triggers finding F2
                if (kind == 0 || kind == 1) && !last && !self.cfg.allow_f2_f3 {
                    return self.stmt_let(depth);
                }
                self.if_stmt(loopish || self.loop_depth > 0, depth, result).map(St::If)
            }
            11 if depth > 0 => {
                self.loop_depth += 1;
                let b = self.nested_block(2, depth - 1, result);
                self.loop_depth -= 1;
                Some(St::Loop(b))
            }
            12 if kind != 3 && last => {
                // nested return of the function's result type
                if self.fault("B11-nested-return-type") {
                    let q = self.other_prim(result);
                    return Some(St::Ret(Ex::single(EV::Lit(prim_lit(&mut self.frng, q)))));
                }
                if kind == 2 && !self.cfg.allow_f2_f3 {
                    // loop-level return (finding F3 when the loop also has a nested break)
                    return self.stmt_let(depth);
                }
                self.expr(result, depth).map(St::Ret)
            }
            13 if loopish && last => Some(St::Brk),
            14 if loopish && last => Some(St::Cont),
            _ => self.stmt_let(depth),
        }
    }

    fn function(&mut self, sig: &FnSig, pnames: &[String]) -> Fn {
        self.scope = vec![vec![]];
        let mut params = vec![];
        for (n, t) in pnames.iter().zip(sig.params.iter()) {
            params.push((n.clone(), t.clone()));
            self.declare(n, t.clone(), false);
        }
        if !params.is_empty() && self.fault("B1-param-dup") {
            let (n, _) = params[0].clone();
            params.push((n, Ty::Prim(PT::U8)));
        }
        let n = self.rng.below(self.cfg.max_stmts + 2);
        let mut body = vec![];
        for _ in 0..n {
            if let Some(s) = self.stmt(3, self.cfg.max_depth, false, &sig.result) {
                body.push(s);
            }
            if self.fault("B12-early-return") {
                if let Some(e) = self.expr(&sig.result, 1) {
                    body.push(St::Ret(e));
                }
            }
        }
        let no_return = self.fault("B12-no-return");
        if no_return && self.frng.chance(1, 2) {
            // … but a return nested in an if body (must not count as the function-level return)
            if let Some(e) = self.expr(&sig.result, 1) {
                body.push(St::If(IfS {
                    cond: IfC::Single(Ex::single(EV::Lit(PV::Bool(true)))),
                    body: Bodies::If(vec![St::Ret(e)]),
                    els: None,
                    elif: None,
                }));
            }
        }
        if !no_return {
            let ret_ty = if self.fault("B11-return-type") {
                Ty::Prim(self.other_prim(&sig.result))
            } else {
                sig.result.clone()
            };
            let e = self.expr(&ret_ty, 2).unwrap_or_else(|| {
                // a struct-typed result with no value in scope: call the function itself
                Ex::single(EV::Call(sig.name.clone(), vec![]))
            });
            body.push(if self.rng.chance(1, 2) { St::Ret(e) } else { St::Expr(e) });
        }
        self.scope.clear();
        Fn {
            name: sig.name.clone(),
            params,
            result: sig.result.clone(),
            body,
        }
    }

    fn distinct_names(&mut self, pool: &[&str], n: usize) -> Vec<String> {
        let mut idx: Vec<usize> = (0..pool.len()).collect();
        let mut out = vec![];
        for _ in 0..n.min(pool.len()) {
            let k = self.rng.below(idx.len());
            out.push(pool[idx.remove(k)].to_string());
        }
        out
    }

    fn const_expr(&mut self, t: PT, earlier: &[(String, Ty)]) -> CE {
        let n = 1 + self.rng.below(3);
        let mut vals = vec![];
        for i in 0..n {
            let same: Vec<&(String, Ty)> = earlier.iter().filter(|(_, ct)| *ct == Ty::Prim(t)).collect();
            if i > 0 && self.fault("D4-const-unknown-tail") {
                vals.push(CV::Const("NOCONST".to_string()));
            } else if i == 0 && self.fault("D4-const-unknown-head") {
                vals.push(CV::Const("NOCONST".to_string()));
            } else if !same.is_empty() && self.rng.chance(1, 2) {
                vals.push(CV::Const(self.rng.pick(&same).0.clone()));
            } else {
                vals.push(CV::Val(prim_lit(&mut self.rng, t)));
            }
        }
        let mut ce: Option<CE> = None;
        for v in vals.into_iter().rev() {
            ce = Some(CE {
                v,
                rest: ce.map(|r| (*self.rng.pick(&ALL_OPS), Box::new(r))),
            });
        }
        ce.unwrap()
    }

    /// a whole program
    pub fn program(&mut self) -> Prog {
        // struct declarations (attribute types: primitives or earlier structs)
        let ns = self.rng.below(3);
        let snames = self.distinct_names(STRUCT_NAMES, ns);
        for sn in snames {
            let na = 1 + self.rng.below(3);
            let mut attrs = vec![];
            for _ in 0..na {
                let an = self.rng.pick(ATTR_NAMES).to_string();
                let at = if self.fault("D2-attr-type") {
                    self.bad_struct_ty()
                } else if !self.structs.is_empty() && self.rng.chance(1, 5) {
                    let i = self.rng.below(self.structs.len());
                    self.struct_ty(i)
                } else if self.cfg.arrays && self.rng.chance(1, 6) {
                    Ty::Array(Box::new(Ty::Prim(self.prim())), self.rng.below(4) as u32)
                } else {
                    Ty::Prim(self.prim())
                };
                attrs.push((an, at));
            }
            self.structs.push((sn, attrs));
        }
        // constants in declaration order
        let nc = self.rng.below(4);
        let cnames = self.distinct_names(CONST_NAMES, nc);
        let mut const_tops = vec![];
        for cn in cnames {
            let p = self.prim();
            let earlier = self.consts.clone();
            let ce = self.const_expr(p, &earlier);
            let t = if self.fault("D5-const-type") {
                self.bad_struct_ty()
            } else {
                Ty::Prim(p)
            };
            if let Ty::Prim(_) = t {
                self.consts.push((cn.clone(), t.clone()));
            }
            const_tops.push(Top::Const(cn, t, ce));
        }
        // function signatures
        let nf = 1 + self.rng.below(self.cfg.max_fns);
        let fnames = self.distinct_names(FN_NAMES, nf);
        let mut sigs = vec![];
        let mut pnames_all = vec![];
        let mut bad_sig = vec![];
        for fname in fnames {
            let np = self.rng.below(3);
            let pn = self.distinct_names(VALUE_NAMES, np);
            let mut params = vec![];
            let mut bad = false;
            for _ in 0..pn.len() {
                if self.fault("D7-param-type") {
                    params.push(self.bad_struct_ty());
                    bad = true;
                } else if self.cfg.arrays && self.rng.chance(1, 8) {
                    params.push(Ty::Array(Box::new(Ty::Prim(self.prim())), 2));
                    bad = true;
                } else {
                    params.push(self.any_ty());
                }
            }
            let result = if self.fault("D7-result-type") {
                bad = true;
                self.bad_struct_ty()
            } else if self.rng.chance(1, 6) && !self.structs.is_empty() {
                let i = self.rng.below(self.structs.len());
                self.struct_ty(i)
            } else if self.rng.chance(1, 8) {
                // functions without a result: `return ()`, also from nested blocks (seeded change C11-c)
                Ty::Prim(PT::None)
            } else {
                Ty::Prim(self.prim())
            };
            let mut pn = pn;
            if let Ty::Struct(..) = result {
                // a struct-typed result needs a value of that type in scope
                params.push(result.clone());
                pn.push("sp".to_string());
            }
            let sig = FnSig {
                name: fname,
                params,
                result,
            };
            bad_sig.push(bad);
            sigs.push(sig);
            pnames_all.push(pn);
        }
        // only registered functions can be called
        self.funcs = sigs
            .iter()
            .zip(bad_sig.iter())
            .filter(|(_, b)| !**b)
            .map(|(s, _)| s.clone())
            .collect();
        let mut fn_tops = vec![];
        for (sig, pn) in sigs.iter().zip(pnames_all.iter()) {
            fn_tops.push(Top::Fn(self.function(sig, pn)));
        }
        let mut type_tops: Vec<Top> = self
            .structs
            .iter()
            .map(|(n, a)| Top::Types(n.clone(), a.clone()))
            .collect();
        // duplicates
        // (half of the duplicates re-declare the name with a different content: the first declaration must win)
        if !type_tops.is_empty() && self.fault("D1-type-dup") {
            let mut t = type_tops[0].clone();
            if self.frng.chance(1, 2) {
                if let Top::Types(_, attrs) = &mut t {
                    *attrs = vec![("dupattr".to_string(), Ty::Prim(PT::Bool))];
                }
            }
            type_tops.push(t);
        }
        if !const_tops.is_empty() && self.fault("D3-const-dup") {
            let mut t = const_tops[0].clone();
            if self.frng.chance(1, 2) {
                if let Top::Const(_, ty, ce) = &mut t {
                    let other = if *ty == Ty::Prim(PT::Bool) { PT::U8 } else { PT::Bool };
                    *ty = Ty::Prim(other);
                    *ce = CE { v: CV::Val(prim_lit(&mut self.frng, other)), rest: None };
                }
            }
            const_tops.push(t);
        }
        if self.fault("D6-fn-dup") {
            let mut t = fn_tops[0].clone();
            if self.frng.chance(1, 2) {
                if let Top::Fn(f) = &mut t {
                    let other = if f.result == Ty::Prim(PT::Bool) { PT::U8 } else { PT::Bool };
                    f.params = vec![];
                    f.result = Ty::Prim(other);
                    f.body = vec![St::Ret(Ex::single(EV::Lit(prim_lit(&mut self.frng, other))))];
                }
            }
            fn_tops.push(t);
        }
        // interleave, keeping the relative order of the constants
        let mut groups: Vec<Vec<Top>> = vec![type_tops, const_tops, fn_tops];
        if self.rng.chance(1, 6) {
            groups.push(vec![Top::Import(vec!["std".to_string(), "io".to_string()])]);
        }
        let mut out = vec![];
        if self.rng.chance(1, 3) {
            // canonical order
            for g in groups {
                out.extend(g);
            }
        } else {
            let mut idx = vec![0usize; groups.len()];
            loop {
                let avail: Vec<usize> = (0..groups.len()).filter(|g| idx[*g] < groups[*g].len()).collect();
                if avail.is_empty() {
                    break;
                }
                // functions and types in any order: pick any element of the group, constants in order
                let g = *self.rng.pick(&avail);
                out.push(groups[g][idx[g]].clone());
                idx[g] += 1;
            }
        }
        out
    }
}

/// well-formed program
pub fn gen_wf(seed: u64, cfg: &Cfg) -> Prog {
    let mut c = cfg.clone();
    c.fault = FaultMode::None;
    Gen::new(seed, c).program()
}

/// the base program and one variant per (sampled) fault site; returns (site class, program)
pub fn gen_fault1(seed: u64, cfg: &Cfg, max_variants: usize) -> (Prog, Vec<(String, Prog)>) {
    let mut c = cfg.clone();
    c.fault = FaultMode::None;
    let mut g = Gen::new(seed, c.clone());
    let base = g.program();
    let sites = g.sites;
    let mut rng = Rng::new(seed ^ 0x5151_5151);
    let mut out = vec![];
    let mut tried = 0;
    while out.len() < max_variants && tried < 4 * max_variants && sites > 0 {
        tried += 1;
        let k = rng.below(sites);
        let mut c2 = c.clone();
        c2.fault = FaultMode::Site(k);
        let mut g2 = Gen::new(seed, c2);
        let p = g2.program();
        if let Some(class) = g2.faults.first() {
            if p != base {
                out.push((class.clone(), p));
            }
        }
    }
    (base, out)
}

pub fn gen_wild_cfg(seed: u64, cfg: &Cfg) -> (Prog, Vec<String>) {
    let mut c = cfg.clone();
    c.fault = FaultMode::Noise(1, 30);
    let mut g = Gen::new(seed, c);
    let p = g.program();
    (p, g.faults)
}

pub fn gen_wild(seed: u64, cfg: &Cfg) -> (Prog, Vec<String>) {
    let mut c = cfg.clone();
    // half of the programs carry few faults, half many
    c.fault = if seed % 2 == 0 { FaultMode::Noise(1, 12) } else { FaultMode::Noise(1, 40) };
    c.arrays = true;
    let mut g = Gen::new(seed, c);
    let p = g.program();
    (p, g.faults)
}

/// control-flow skeleton: simple expressions, deep nesting
pub fn gen_flow(seed: u64, clean: bool) -> Prog {
    let mut c = Cfg::wf();
    c.simple = true;
    c.max_depth = 4;
    c.max_stmts = 4;
    c.max_fns = 2;
    c.allow_f2_f3 = !clean;
    c.ext = false;
    Gen::new(seed, c).program()
}

/// all permutations-by-sampling of the top level that keep the constants' relative order
pub fn gen_perm(seed: u64, max_variants: usize) -> Vec<Prog> {
    let mut rng = Rng::new(seed ^ 0x9e3779b9);
    let base = if rng.chance(1, 2) {
        gen_wf(seed, &Cfg::wf())
    } else {
        // a faulted program without duplicate declaration names
        let (b, vars) = gen_fault1(seed, &Cfg::wf(), 3);
        vars.into_iter()
            .find(|(class, _)| !class.starts_with("D1") && !class.starts_with("D3") && !class.starts_with("D6"))
            .map_or(b, |x| x.1)
    };
    let mut base = base;
    if rng.chance(1, 4) {
        // two declarations that fail with the same error (same kind, same identifier) and a third
        // that fails differently: the error multiset must not depend on what stands between them
        let zz = |k: u8| CE {
            v: CV::Val(PV::U8(k)),
            rest: Some((Op::Plus, Box::new(CE { v: CV::Const("ZZ.undeclared".to_string()), rest: None }))),
        };
        base.push(Top::Const("A.e".to_string(), Ty::Prim(PT::U8), zz(1)));
        base.push(Top::Const("B.e".to_string(), Ty::Prim(PT::U8), zz(2)));
        base.push(Top::Fn(Fn {
            name: "f.e".to_string(),
            params: vec![("p".to_string(), Ty::Struct("Undeclared.S".to_string(), vec![]))],
            result: Ty::Prim(PT::None),
            body: vec![],
        }));
    }
    let mut out = vec![base.clone()];
    for _ in 0..max_variants {
        let mut idx: Vec<usize> = (0..base.len()).collect();
        for i in (1..idx.len()).rev() {
            idx.swap(i, rng.below(i + 1));
        }
        // constants keep their relative order: put the constants, in source order, into the
        // positions that constants occupy after the shuffle
        let const_positions: Vec<usize> = (0..idx.len())
            .filter(|k| matches!(base[idx[*k]], Top::Const(..)))
            .collect();
        let consts_in_order: Vec<usize> = (0..base.len()).filter(|k| matches!(base[*k], Top::Const(..))).collect();
        for (pos, src) in const_positions.iter().zip(consts_in_order.iter()) {
            idx[*pos] = *src;
        }
        let q: Prog = idx.iter().map(|k| base[*k].clone()).collect();
        out.push(q);
    }
    out
}

fn with_bodies(base: &Prog, keep: Option<usize>, donor: Option<&Vec<Vec<St>>>) -> Prog {
    let mut k = 0usize;
    base.iter()
        .map(|t| match t {
            Top::Fn(f) => {
                let mut f = f.clone();
                if Some(k) != keep {
                    f.body = match donor {
                        Some(d) if !d.is_empty() => d[k % d.len()].clone(),
                        _ => vec![],
                    };
                }
                k += 1;
                Top::Fn(f)
            }
            other => other.clone(),
        })
        .collect()
}

/// group for C17: base, all bodies empty, per function all *other* bodies empty, per function all
/// other bodies taken from another generated program
pub fn gen_swap(seed: u64) -> Vec<Prog> {
    let mut rng = Rng::new(seed ^ 0x5a5a);
    let base = if rng.chance(2, 3) {
        gen_wf(seed, &Cfg::wf())
    } else {
        gen_wild(seed, &Cfg::wf()).0
    };
    let n = base.iter().filter(|t| matches!(t, Top::Fn(_))).count();
    let donor_prog = gen_wf(seed.wrapping_add(77_777), &Cfg::wf());
    let donor: Vec<Vec<St>> = donor_prog
        .iter()
        .filter_map(|t| match t {
            Top::Fn(f) => Some(f.body.clone()),
            _ => None,
        })
        .collect();
    let mut out = vec![base.clone(), with_bodies(&base, None, None)];
    for i in 0..n {
        out.push(with_bodies(&base, Some(i), None));
    }
    for i in 0..n {
        out.push(with_bodies(&base, Some(i), Some(&donor)));
    }
    out
}

pub const CLASS_OPS: [Op; 6] = [Op::Minus, Op::Plus, Op::Or, Op::And, Op::Divide, Op::Multiply];

/// a program with one operator chain (operators `ops`) in statement position `position` (0..5)
pub fn chain_prog(ops: &[Op], operand_kinds: u64, position: usize) -> Prog {
    chain_prog_fault(ops, operand_kinds, position, None)
}

/// the same with one faulty operand (`fault`: operand index and kind — 0: undeclared value,
/// 1: operand of another type, 2: call of an undeclared function): every operand of a chain has
/// to be analysed, wherever the fold puts it (seeded change C01-c)
pub fn chain_prog_fault(ops: &[Op], operand_kinds: u64, position: usize, fault: Option<(usize, u8)>) -> Prog {
    let t = Ty::Prim(PT::U8);
    let mut kinds = operand_kinds;
    let mut tag = 0u32;
    let mut operand = |i: usize| -> EV {
        let k = kinds % 5;
        kinds /= 5;
        if let Some((fi, fk)) = fault {
            if fi == i {
                return match fk % 3 {
                    0 => EV::Var(UNKNOWN.to_string()),
                    1 => EV::Lit(PV::Bool(true)),
                    _ => EV::Call(UNKNOWN.to_string(), vec![]),
                };
            }
        }
        match k {
            0 => EV::Lit(PV::U8(i as u8)),
            1 => EV::Var("p".to_string()),
            2 => EV::Call("g".to_string(), vec![Ex::single(EV::Lit(PV::U8(i as u8)))]),
            3 => EV::Sub(Box::new(Ex::chain(
                EV::Lit(PV::U8(1)),
                vec![(Op::Minus, EV::Var("p".to_string())), (Op::Multiply, EV::Lit(PV::U8(2)))],
            ))),
            _ => {
                tag += 1;
                EV::Ext(tag, PT::U8)
            }
        }
    };
    let head = operand(0);
    let tail: Vec<(Op, EV)> = ops.iter().enumerate().map(|(i, o)| (*o, operand(i + 1))).collect();
    let e = Ex::chain(head, tail);
    let g = Fn {
        name: "g".to_string(),
        params: vec![("a".to_string(), t.clone())],
        result: t.clone(),
        body: vec![St::Ret(Ex::single(EV::Var("a".to_string())))],
    };
    let zero = Ex::single(EV::Lit(PV::U8(0)));
    let mut body = vec![St::Let(LetS {
        name: "m".to_string(),
        mutable: true,
        ty: None,
        value: zero.clone(),
    })];
    match position % 5 {
        0 => body.push(St::Let(LetS {
            name: "x".to_string(),
            mutable: false,
            ty: Some(t.clone()),
            value: e,
        })),
        1 => body.push(St::Set(SetS {
            name: "m".to_string(),
            value: e,
        })),
        2 => body.push(St::Call(CallS {
            name: "g".to_string(),
            args: vec![e],
        })),
        3 => body.push(St::If(IfS {
            cond: IfC::Logic(LC {
                left: Cmp {
                    left: e,
                    cond: Cnd::Less,
                    right: zero.clone(),
                },
                right: None,
            }),
            body: Bodies::If(vec![]),
            els: None,
            elif: None,
        })),
        _ => {
            body.push(St::Ret(e));
            return vec![
                Top::Fn(g),
                Top::Fn(Fn {
                    name: "main".to_string(),
                    params: vec![("p".to_string(), t.clone())],
                    result: t,
                    body,
                }),
            ];
        }
    }
    body.push(St::Ret(zero));
    vec![
        Top::Fn(g),
        Top::Fn(Fn {
            name: "main".to_string(),
            params: vec![("p".to_string(), t.clone())],
            result: t,
            body,
        }),
    ]
}

/// the `idx`-th chain in the enumeration of all chains over the six priority classes by length
pub fn chain_by_index(mut idx: u64) -> Vec<Op> {
    let mut len = 1u32;
    loop {
        let n = 6u64.pow(len);
        if idx < n {
            break;
        }
        idx -= n;
        len += 1;
    }
    (0..len)
        .map(|_| {
            let o = CLASS_OPS[(idx % 6) as usize];
            idx /= 6;
            o
        })
        .collect()
}

/// programs with two faults at nearby sites
pub fn gen_fault2(seed: u64, cfg: &Cfg, max_variants: usize) -> Vec<(String, Prog)> {
    let mut c = cfg.clone();
    c.fault = FaultMode::None;
    let mut g = Gen::new(seed, c.clone());
    let base = g.program();
    let sites = g.sites;
    let mut rng = Rng::new(seed ^ 0x2222_7777);
    let mut out = vec![];
    let mut tried = 0;
    while out.len() < max_variants && tried < 6 * max_variants && sites > 1 {
        tried += 1;
        let k = rng.below(sites);
        let d = 1 + rng.below(6);
        let mut c2 = c.clone();
        c2.fault = FaultMode::Sites(k, k + d);
        let mut g2 = Gen::new(seed, c2);
        let p = g2.program();
        if g2.faults.len() >= 2 && p != base {
            out.push((g2.faults.join("+"), p));
        }
    }
    out
}
