//! Correspondence harness: generates programs, runs the real analyzer on them in-process and
//! writes `G`/`P`/`D` lines (group header, program in wire format, canonical dump).

mod codec;
mod dump;
mod gen;
mod ir;
mod parse;
mod small;
mod toast;

use std::io::Write;
use std::sync::atomic::{AtomicU64, Ordering};
use std::sync::Mutex;

/// Watchdog: C13 says the analysis terminates.  A case that runs longer than the limit makes the
/// harness print `HANG <program>` on stderr and exit with code 3; check.py turns that into a
/// violation with the program as replay instead of waiting forever.
static CASE_START: AtomicU64 = AtomicU64::new(0);
static CASE_PROG: Mutex<String> = Mutex::new(String::new());

fn now_ms() -> u64 {
    std::time::SystemTime::now().duration_since(std::time::UNIX_EPOCH).map(|d| d.as_millis() as u64).unwrap_or(0)
}

fn watched<T>(p: &ir::Prog, f: impl FnOnce() -> T) -> T {
    if let Ok(mut g) = CASE_PROG.lock() {
        *g = ir::w_prog(p);
    }
    CASE_START.store(now_ms().max(1), Ordering::SeqCst);
    let r = f();
    CASE_START.store(0, Ordering::SeqCst);
    r
}

fn start_watchdog() {
    let limit: u64 = std::env::var("VERIF_CASE_TIMEOUT_MS").ok().and_then(|s| s.parse().ok()).unwrap_or(20_000);
    std::thread::spawn(move || loop {
        std::thread::sleep(std::time::Duration::from_millis(250));
        let t = CASE_START.load(Ordering::SeqCst);
        if t != 0 && now_ms().saturating_sub(t) > limit {
            let p = CASE_PROG.lock().map(|g| g.clone()).unwrap_or_default();
            eprintln!("HANG {}", p);
            std::process::exit(3);
        }
    });
}

fn arg(args: &[String], key: &str) -> Option<String> {
    args.iter().position(|a| a == key).and_then(|i| args.get(i + 1).cloned())
}

fn emit_group(out: &mut impl Write, profile: &str, meta: &str, progs: &[ir::Prog]) {
    writeln!(out, "G {} {} {}", progs.len(), profile, meta).unwrap();
    for p in progs {
        writeln!(out, "P {}", ir::w_prog(p)).unwrap();
        writeln!(out, "D {}", watched(p, || dump::analyze(p))).unwrap();
    }
}

fn main() {
    // silence the default panic message: panics of the analyzer are an expected outcome
    std::panic::set_hook(Box::new(|_| {}));
    let args: Vec<String> = std::env::args().collect();
    let cmd = args.get(1).cloned().unwrap_or_default();
    let seed: u64 = arg(&args, "--seed").and_then(|s| s.parse().ok()).unwrap_or(1);
    let count: usize = arg(&args, "--count").and_then(|s| s.parse().ok()).unwrap_or(100);
    let profile = arg(&args, "--profile").unwrap_or_else(|| "wf".to_string());
    start_watchdog();
    let stdout = std::io::stdout();
    let mut out = std::io::BufWriter::new(stdout.lock());
    match cmd.as_str() {
        "gen" => {
            for i in 0..count {
                let s = seed.wrapping_mul(1_000_003).wrapping_add(i as u64);
                match profile.as_str() {
                    "wf" => {
                        let p = gen::gen_wf(s, &gen::Cfg::wf());
                        emit_group(&mut out, "wf", &format!("seed={s}"), &[p]);
                    }
                    "wfclean" => {
                        let mut c = gen::Cfg::wf();
                        c.allow_f2_f3 = false;
                        let p = gen::gen_wf(s, &c);
                        emit_group(&mut out, "wfclean", &format!("seed={s}"), &[p]);
                    }
                    "fault1" => {
                        let (base, vars) = gen::gen_fault1(s, &gen::Cfg::wf(), 4);
                        emit_group(&mut out, "fault1base", &format!("seed={s}"), &[base]);
                        for (class, p) in vars {
                            emit_group(&mut out, "fault1", &format!("seed={s},class={class}"), &[p]);
                        }
                    }
                    "fault2" => {
                        for (class, p) in gen::gen_fault2(s, &gen::Cfg::wf(), 4) {
                            emit_group(&mut out, "fault2", &format!("seed={s},class={class}"), &[p]);
                        }
                    }
                    "wild" => {
                        let (p, faults) = gen::gen_wild(s, &gen::Cfg::wf());
                        emit_group(
                            &mut out,
                            "wild",
                            &format!("seed={s},faults={}", faults.join("+")),
                            &[p],
                        );
                    }
                    "loopout" => {
                        let mut c = gen::Cfg::wf();
                        c.allow_loop_outside = true;
                        let p = gen::gen_wf(s, &c);
                        emit_group(&mut out, "loopout", &format!("seed={s}"), &[p]);
                    }
                    "codec" | "codecnf" => {
                        // programs for the codec round trips; `codecnf`: no float literals and no
                        // extension leaves, so that the Lean data-model encoder can be compared
                        let mut c = gen::Cfg::wf();
                        if profile == "codecnf" {
                            c.ext = false;
                            c.no_floats = true;
                        }
                        c.escapes = i % 10 == 9;
                        let mut prog = if i % 3 == 2 { gen::gen_wild_cfg(s, &c).0 } else { gen::gen_wf(s, &c) };
                        // degenerate shapes a serde attribute could single out: a function with
                        // an empty body, a struct without attributes (seeded change C20-c)
                        if i % 8 == 5 {
                            prog.push(ir::Top::Fn(ir::Fn {
                                name: format!("stub{i}"),
                                params: vec![],
                                result: ir::Ty::Prim(ir::PT::None),
                                body: vec![],
                            }));
                        }
                        if i % 8 == 6 {
                            prog.push(ir::Top::Types(format!("Empty{i}"), vec![]));
                        }
                        // attribute names equal to keys the serialised forms use themselves
                        // (a flattened or renamed field would collide with them)
                        if i % 8 == 7 {
                            prog.push(ir::Top::Types(
                                format!("Keys{i}"),
                                ["name", "methods", "attributes", "type", "content", "attr_name", "attr_type"]
                                    .iter()
                                    .map(|k| (k.to_string(), ir::Ty::Prim(ir::PT::U8)))
                                    .collect(),
                            ));
                        }
                        let (flags, canon, stacks) = watched(&prog, || codec::check(&prog));
                        writeln!(out, "G 1 {} seed={s}", profile).unwrap();
                        writeln!(out, "P {}", ir::w_prog(&prog)).unwrap();
                        writeln!(out, "X {}", flags).unwrap();
                        let wire = ir::w_prog(&prog);
                        if profile == "codecnf" && !wire.contains("(f32 ") && !wire.contains("(f64 ") && !wire.contains("(ext ") {
                            if let Some(j) = canon {
                                writeln!(out, "J {}", j).unwrap();
                            }
                            if let Some(k) = stacks {
                                writeln!(out, "K {}", k).unwrap();
                            }
                        }
                        writeln!(out, "D {}", watched(&prog, || dump::analyze(&prog))).unwrap();
                    }
                    "small" | "smallx" => {
                        // small-scope programs over a tiny alphabet (`smallx`: with extension leaves)
                        let p = small::gen_small(s, profile == "smallx");
                        emit_group(&mut out, &profile, &format!("seed={s}"), &[p]);
                    }
                    "smallctl" => {
                        // control skeletons of the small grammar
                        let p = small::gen_small_ctl(s);
                        emit_group(&mut out, "smallctl", &format!("seed={s}"), &[p]);
                    }
                    "flow" => {
                        let p = gen::gen_flow(s, i % 2 == 0);
                        emit_group(&mut out, "flow", &format!("seed={s},clean={}", i % 2 == 0), &[p]);
                    }
                    "perm" => {
                        let g = gen::gen_perm(s, 4);
                        emit_group(&mut out, "perm", &format!("seed={s}"), &g);
                    }
                    "swap" => {
                        let g = gen::gen_swap(s);
                        emit_group(&mut out, "swap", &format!("seed={s}"), &g);
                    }
                    "chains" => {
                        // exhaustive enumeration over the six priority classes, by length
                        let ops = gen::chain_by_index(i as u64);
                        let kinds = gen::Rng::new(s).next();
                        let p = gen::chain_prog(&ops, kinds, i);
                        emit_group(&mut out, "chains", &format!("idx={i},len={}", ops.len()), &[p]);
                    }
                    "chainsf" => {
                        // chains with one faulty operand: exhaustive chains up to length 3 with the
                        // fault at every position, then random chains
                        let mut r = gen::Rng::new(s);
                        let ops = if i < 1554 * 2 { gen::chain_by_index((i / 4) as u64 % 258) } else {
                            let len = 1 + r.below(12);
                            (0..len).map(|_| *r.pick(&ir::ALL_OPS)).collect()
                        };
                        let kinds = r.next();
                        let fpos = if i < 1554 * 2 { i % 4 } else { r.below(ops.len() + 1) } % (ops.len() + 1);
                        let fk = (r.next() % 3) as u8;
                        let p = gen::chain_prog_fault(&ops, kinds, i, Some((fpos, fk)));
                        emit_group(&mut out, "chainsf", &format!("seed={s},len={},fault_at={fpos},kind={fk}", ops.len()), &[p]);
                    }
                    "chainsr" => {
                        // random chains over all 15 operators, length up to 40
                        let mut r = gen::Rng::new(s);
                        let len = 1 + r.below(40);
                        let ops: Vec<ir::Op> = (0..len).map(|_| *r.pick(&ir::ALL_OPS)).collect();
                        let kinds = r.next();
                        let p = gen::chain_prog(&ops, kinds, i);
                        emit_group(&mut out, "chainsr", &format!("seed={s},len={len}"), &[p]);
                    }
                    other => {
                        eprintln!("unknown profile {other}");
                        std::process::exit(2);
                    }
                }
            }
        }
        "replay" => {
            // re-run the real analyzer on the programs of a cases file (G and P lines; D lines are ignored)
            let path = args.get(2).cloned().unwrap_or_default();
            let text = std::fs::read_to_string(&path).unwrap_or_else(|e| {
                eprintln!("cannot read {path}: {e}");
                std::process::exit(2);
            });
            let mut pending: Vec<ir::Prog> = vec![];
            let mut hdr: Option<(usize, String)> = None;
            let mut flush = |hdr: &mut Option<(usize, String)>, pending: &mut Vec<ir::Prog>, out: &mut dyn Write| {
                if let Some((_, h)) = hdr.take() {
                    if !pending.is_empty() {
                        writeln!(out, "G {} {}", pending.len(), h).unwrap();
                        for p in pending.iter() {
                            writeln!(out, "P {}", ir::w_prog(p)).unwrap();
                            writeln!(out, "D {}", watched(p, || dump::analyze(p))).unwrap();
                        }
                    }
                }
                pending.clear();
            };
            for line in text.lines() {
                if let Some(rest) = line.strip_prefix("G ") {
                    flush(&mut hdr, &mut pending, &mut out);
                    let mut it = rest.splitn(2, ' ');
                    let n: usize = it.next().and_then(|x| x.parse().ok()).unwrap_or(1);
                    hdr = Some((n, it.next().unwrap_or("replay").to_string()));
                } else if let Some(rest) = line.strip_prefix("P ") {
                    if hdr.is_none() {
                        hdr = Some((1, "replay x".to_string()));
                    }
                    match parse::prog(rest) {
                        Some(p) => pending.push(p),
                        None => {
                            eprintln!("cannot parse program line");
                            std::process::exit(2);
                        }
                    }
                }
            }
            flush(&mut hdr, &mut pending, &mut out);
        }
        _ => {
            eprintln!("usage: semverif-harness gen --profile <p> --seed <n> --count <n>");
            std::process::exit(2);
        }
    }
}
