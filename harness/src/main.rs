//! Correspondence harness: generates programs, runs the real analyzer on them in-process and
//! writes `G`/`P`/`D` lines (group header, program in wire format, canonical dump).

mod dump;
mod gen;
mod ir;
mod toast;

use std::io::Write;

fn arg(args: &[String], key: &str) -> Option<String> {
    args.iter().position(|a| a == key).and_then(|i| args.get(i + 1).cloned())
}

fn emit_group(out: &mut impl Write, profile: &str, meta: &str, progs: &[ir::Prog]) {
    writeln!(out, "G {} {} {}", progs.len(), profile, meta).unwrap();
    for p in progs {
        writeln!(out, "P {}", ir::w_prog(p)).unwrap();
        writeln!(out, "D {}", dump::analyze(p)).unwrap();
    }
}

fn main() {
    // silence the default panic message: panics of the analyzer are an expected outcome
    std::panic::set_hook(Box::new(|_| {}));
    let args: Vec<String> = std::env::args().collect();
    let cmd = args.get(1).cloned().unwrap_or_default();
    let seed: u64 = arg(&args, "--seed").and_then(|s| s.parse().ok()).unwrap_or(1);
    let count: usize = arg(&args, "--count").and_then(|s| s.parse().ok()).unwrap_or(100);
    let profile = arg(&args, "--profile").unwrap_or_else(|| "wf".to_string());
    let stdout = std::io::stdout();
    let mut out = std::io::BufWriter::new(stdout.lock());
    match cmd.as_str() {
        "gen" => {
            for i in 0..count {
                let s = seed.wrapping_mul(1_000_003).wrapping_add(i as u64);
                match profile.as_str() {
                    "wf" => {
                        let p = gen::gen_wf(s, &gen::Cfg::wf());
                        emit_group(&mut out, "wf", &format!("seed={s}"), &[p]);
                    }
                    "wfclean" => {
                        let mut c = gen::Cfg::wf();
                        c.allow_f2_f3 = false;
                        let p = gen::gen_wf(s, &c);
                        emit_group(&mut out, "wfclean", &format!("seed={s}"), &[p]);
                    }
                    "fault1" => {
                        let (base, vars) = gen::gen_fault1(s, &gen::Cfg::wf(), 4);
                        emit_group(&mut out, "fault1base", &format!("seed={s}"), &[base]);
                        for (class, p) in vars {
                            emit_group(&mut out, "fault1", &format!("seed={s},class={class}"), &[p]);
                        }
                    }
                    "wild" => {
                        let (p, faults) = gen::gen_wild(s, &gen::Cfg::wf());
                        emit_group(
                            &mut out,
                            "wild",
                            &format!("seed={s},faults={}", faults.join("+")),
                            &[p],
                        );
                    }
                    "loopout" => {
                        let mut c = gen::Cfg::wf();
                        c.allow_loop_outside = true;
                        let p = gen::gen_wf(s, &c);
                        emit_group(&mut out, "loopout", &format!("seed={s}"), &[p]);
                    }
                    other => {
                        eprintln!("unknown profile {other}");
                        std::process::exit(2);
                    }
                }
            }
        }
        _ => {
            eprintln!("usage: semverif-harness gen --profile <p> --seed <n> --count <n>");
            std::process::exit(2);
        }
    }
}
