//! Small-scope programs: a compact grammar over a tiny alphabet (values `a`, `x`, `y`, the
//! literals 1 and 2, one constant, one two-parameter function, one struct field), so that
//! coincidences which the type-directed generator almost never produces — the same variable in
//! adjacent operand positions, redundant brackets, empty bodies, re-declaration of the same name
//! in sibling and nested blocks, returns at every depth — are the common case.
//!
//! Sampled at random (profiles `small`, `smallx`).  An exhaustive depth-first enumeration of the
//! same grammar was tried and dropped: with two-sided `if`s and nesting depth 2 the space is far
//! beyond 10^9 programs even for single-atom expressions.

use crate::gen::Rng;
use crate::ir::*;

pub enum Mode {
    Random(Rng),
}

pub struct Lim {
    pub max_depth: usize,
    pub max_block: usize,
    pub max_body: usize,
    pub max_operands: usize,
    pub names: &'static [&'static str],
    pub rich_atoms: bool,
    pub budget: usize,
    /// control skeletons: statements are mostly `if` / `loop` / terminators, expressions single atoms
    pub ctl: bool,
}

impl Lim {
    pub fn small() -> Lim {
        Lim { max_depth: 3, max_block: 2, max_body: 4, max_operands: 3, names: &["x", "y"], rich_atoms: true, budget: 14, ctl: false }
    }
    pub fn ctl() -> Lim {
        Lim { max_depth: 3, max_block: 2, max_body: 3, max_operands: 1, names: &["x"], rich_atoms: false, budget: 12, ctl: true }
    }
}

pub struct Small {
    mode: Mode,
    lim: Lim,
    scope: Vec<Vec<(String, bool)>>,
    used: usize,
    ext_tag: u32,
    ext: bool,
}

impl Small {
    pub fn new(mode: Mode, lim: Lim, ext: bool) -> Small {
        Small { mode, lim, scope: vec![], used: 0, ext_tag: 0, ext }
    }

    fn choose(&mut self, n: usize) -> usize {
        if n <= 1 {
            return 0;
        }
        match &mut self.mode {
            Mode::Random(r) => r.below(n),
        }
    }

    fn lookup(&self, n: &str) -> Option<bool> {
        for fr in self.scope.iter().rev() {
            for (k, m) in fr.iter().rev() {
                if k == n {
                    return Some(*m);
                }
            }
        }
        None
    }

    fn visible_u8(&self) -> Vec<String> {
        let mut out = vec!["a".to_string()];
        for n in self.lim.names {
            if self.lookup(n).is_some() {
                out.push(n.to_string());
            }
        }
        out
    }

    fn simple_atom(&mut self) -> EV {
        let vars = self.visible_u8();
        let k = self.choose(vars.len() + 1);
        if k < vars.len() {
            EV::Var(vars[k].clone())
        } else {
            EV::Lit(PV::U8(1))
        }
    }

    fn atom(&mut self, nest: usize) -> EV {
        let vars = self.visible_u8();
        // 0.. vars, then literal 1, then the richer forms
        let rich = if self.lim.rich_atoms { 6 } else { 2 };
        let k = self.choose(vars.len() + 1 + rich);
        if k < vars.len() {
            return EV::Var(vars[k].clone());
        }
        match k - vars.len() {
            0 => EV::Lit(PV::U8(1)),
            1 => EV::Call("g".into(), vec![Ex::single(self.simple_atom()), Ex::single(self.simple_atom())]),
            2 => {
                if nest == 0 {
                    // brackets: around a single value or a short chain
                    let inner = self.expr_n(2, 1);
                    EV::Sub(Box::new(inner))
                } else {
                    EV::Lit(PV::U8(2))
                }
            }
            3 => EV::Field("s".into(), "f".into()),
            4 => EV::Var("K".into()),
            5 => {
                if self.ext {
                    self.ext_tag += 1;
                    EV::Ext(self.ext_tag, PT::U8)
                } else {
                    EV::Lit(PV::U8(2))
                }
            }
            _ => EV::Lit(PV::U8(2)),
        }
    }

    fn expr_n(&mut self, max_operands: usize, nest: usize) -> Ex {
        let n = 1 + self.choose(max_operands);
        let head = self.atom(nest);
        let mut tail = vec![];
        for _ in 1..n {
            let op = [Op::Plus, Op::Multiply, Op::Minus][self.choose(3)];
            let v = self.atom(nest);
            tail.push((op, v));
        }
        Ex::chain(head, tail)
    }

    fn expr(&mut self) -> Ex {
        let m = self.lim.max_operands;
        self.expr_n(m, 0)
    }

    fn cmp(&mut self) -> Cmp {
        let left = Ex::single(self.simple_atom());
        let cond = [Cnd::Less, Cnd::Eq][self.choose(2)];
        let right = Ex::single(self.simple_atom());
        Cmp { left, cond, right }
    }

    fn cond(&mut self) -> IfC {
        match self.choose(5) {
            0 => IfC::Single(Ex::single(EV::Var("c".into()))),
            1 => IfC::Logic(LC { left: self.cmp(), right: None }),
            2 => {
                let l = self.cmp();
                let lg = [Lg::And, Lg::Or][self.choose(2)];
                let r = self.cmp();
                IfC::Logic(LC { left: l, right: Some((lg, Box::new(LC { left: r, right: None }))) })
            }
            3 => IfC::Single(Ex::single(EV::Lit(PV::Bool(true)))),
            _ => {
                let l = self.cmp();
                let m = self.cmp();
                let r = self.cmp();
                IfC::Logic(LC {
                    left: l,
                    right: Some((
                        Lg::Or,
                        Box::new(LC { left: m, right: Some((Lg::And, Box::new(LC { left: r, right: None }))) }),
                    )),
                })
            }
        }
    }

    fn block(&mut self, depth: usize, in_loop: bool, loopish: bool, max: usize) -> Vec<St> {
        self.scope.push(vec![]);
        let room = self.lim.budget.saturating_sub(self.used);
        let cap = max.min(room);
        // control skeletons: empty bodies one time in five, otherwise at least one statement
        let n = if self.lim.ctl && cap > 0 {
            if self.choose(5) == 0 { 0 } else { 1 + self.choose(cap) }
        } else {
            self.choose(cap + 1)
        };
        let mut out = vec![];
        for i in 0..n {
            let st = self.stmt(depth, in_loop, loopish, i + 1 == n, false);
            out.push(st);
        }
        self.scope.pop();
        out
    }

    fn if_stmt(&mut self, depth: usize, in_loop: bool) -> IfS {
        let cond = self.cond();
        let loopish = in_loop && (if self.lim.ctl { self.choose(4) != 0 } else { self.choose(2) == 1 });
        let mb = self.lim.max_block;
        let mk = |v: Vec<St>, l: bool| if l { Bodies::Loop(v) } else { Bodies::If(v) };
        let b = self.block(depth + 1, in_loop, loopish, mb);
        let body = mk(b, loopish);
        let (els, elif) = match self.choose(3) {
            0 => (None, None),
            1 => {
                let e = self.block(depth + 1, in_loop, loopish, mb);
                (Some(mk(e, loopish)), None)
            }
            _ => {
                if depth + 1 < self.lim.max_depth + 1 && self.used < self.lim.budget {
                    self.used += 1;
                    (None, Some(Box::new(self.if_stmt(depth, in_loop))))
                } else {
                    (None, None)
                }
            }
        };
        IfS { cond, body, els, elif }
    }

    fn stmt(&mut self, depth: usize, in_loop: bool, loopish: bool, last: bool, fn_level: bool) -> St {
        self.used += 1;
        let setable: Vec<String> = self.lim.names.iter().filter(|n| self.lookup(n) == Some(true)).map(|n| n.to_string()).collect();
        let nested_ok = depth < self.lim.max_depth && self.used < self.lim.budget;
        // option list, simplest first
        let mut opts: Vec<u8> = vec![0];
        if !setable.is_empty() {
            opts.push(1);
        }
        opts.push(2);
        if nested_ok {
            opts.push(3);
            opts.push(4);
        }
        if last && !fn_level {
            opts.push(5);
        }
        if loopish && last {
            opts.push(6);
            opts.push(7);
        }
        let k = if self.lim.ctl {
            // weighted: control statements and terminators dominate
            // 0 let, 1 set, 2 call, 3 if, 4 loop, 5 ret, 6 brk, 7 cont
            let w = |o: u8| -> usize {
                match (o, in_loop, last) {
                    (0, _, _) | (1, _, _) | (2, _, _) => 1,
                    (3, true, false) => 6,
                    (3, _, _) => 4,
                    (4, true, true) => 5,
                    (4, false, _) => 6,
                    (4, _, _) => 3,
                    (5, _, _) => 3,
                    (6, _, _) => 4,
                    _ => 2,
                }
            };
            let total: usize = opts.iter().map(|o| w(*o)).sum();
            let mut r = self.choose(total);
            let mut pick = opts[0];
            for o in &opts {
                if r < w(*o) {
                    pick = *o;
                    break;
                }
                r -= w(*o);
            }
            pick
        } else {
            opts[self.choose(opts.len())]
        };
        match k {
            0 => {
                let name = self.lim.names[self.choose(self.lim.names.len())].to_string();
                let mutable = self.choose(2) == 1;
                let value = self.expr();
                let ty = if self.lim.rich_atoms && self.choose(4) == 3 { Some(Ty::Prim(PT::U8)) } else { None };
                self.scope.last_mut().unwrap().push((name.clone(), mutable));
                St::Let(LetS { name, mutable, ty, value })
            }
            1 => {
                let name = setable[self.choose(setable.len())].clone();
                let value = self.expr();
                St::Set(SetS { name, value })
            }
            2 => St::Call(CallS { name: "g".into(), args: vec![Ex::single(self.simple_atom()), Ex::single(self.simple_atom())] }),
            3 => St::If(self.if_stmt(depth, in_loop)),
            4 => {
                let mb = self.lim.max_block + 1;
                St::Loop(self.block(depth + 1, true, true, mb))
            }
            5 => St::Ret(self.expr()),
            6 => St::Brk,
            _ => St::Cont,
        }
    }

    pub fn program(&mut self) -> Prog {
        let s_ty = Ty::Struct("S".into(), vec![("f".into(), Ty::Prim(PT::U8))]);
        self.scope = vec![vec![]];
        self.used = 0;
        let n = if self.lim.ctl { 1 + self.choose(self.lim.max_body) } else { self.choose(self.lim.max_body + 1) };
        let mut body = vec![];
        for _ in 0..n {
            let st = self.stmt(0, false, false, false, true);
            body.push(st);
        }
        body.push(St::Ret(self.expr()));
        vec![
            Top::Types("S".into(), vec![("f".into(), Ty::Prim(PT::U8))]),
            Top::Const("K".into(), Ty::Prim(PT::U8), CE { v: CV::Val(PV::U8(1)), rest: None }),
            Top::Fn(Fn {
                name: "g".into(),
                params: vec![("p".into(), Ty::Prim(PT::U8)), ("q".into(), Ty::Prim(PT::U8))],
                result: Ty::Prim(PT::U8),
                body: vec![St::Ret(Ex::single(EV::Var("p".into())))],
            }),
            Top::Fn(Fn {
                name: "main".into(),
                params: vec![("a".into(), Ty::Prim(PT::U8)), ("c".into(), Ty::Prim(PT::Bool)), ("s".into(), s_ty)],
                result: Ty::Prim(PT::U8),
                body,
            }),
        ]
    }
}

pub fn gen_small(seed: u64, ext: bool) -> Prog {
    Small::new(Mode::Random(Rng::new(seed ^ 0x5A11)), Lim::small(), ext).program()
}

pub fn gen_small_ctl(seed: u64) -> Prog {
    Small::new(Mode::Random(Rng::new(seed ^ 0xC71)), Lim::ctl(), false).program()
}
