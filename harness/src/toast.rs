//! IR -> `semantic_analyzer::ast` (borrowing identifiers from the IR), and the harness extension.

use crate::ir::*;
use semantic_analyzer::ast;
use semantic_analyzer::semantic::State;
use semantic_analyzer::types::block_state::BlockState;
use semantic_analyzer::types::expression::{ExpressionResult, ExpressionResultValue};
use semantic_analyzer::types::semantic::{
    ExtendedExpression, ExtendedSemanticContext, SemanticContextInstruction,
};
use semantic_analyzer::types::types::{PrimitiveTypes, Type};
use serde::{Deserialize, Serialize};
use std::cell::RefCell;
use std::rc::Rc;

/// custom instruction pushed by the harness extension.  Two instructions are *equal* when their
/// tags are (the register is a payload detail): the generator repeats a tag for adjacent leaves, so
/// that a stack which merges or drops "equal" extension instructions is observable.
#[derive(Clone, Debug, Serialize, Deserialize)]
pub struct HInstr {
    pub tag: u32,
    /// index into ALL_PT of the primitive type of the value the extension returns in `reg`
    pub ty: u8,
    pub reg: u64,
}
impl PartialEq for HInstr {
    fn eq(&self, other: &Self) -> bool {
        self.tag == other.tag
    }
}
impl SemanticContextInstruction for HInstr {}

/// harness extension: allocates a register, pushes one custom instruction, returns a register
/// result of the primitive type chosen per leaf
#[derive(Clone, PartialEq, Serialize, Deserialize)]
pub struct HExt {
    pub tag: u32,
    pub ty: u8,
}
impl std::fmt::Debug for HExt {
    fn fmt(&self, f: &mut std::fmt::Formatter<'_>) -> std::fmt::Result {
        write!(f, "ext{}", self.tag)
    }
}

pub fn sem_pt(p: PT) -> PrimitiveTypes {
    match p {
        PT::U8 => PrimitiveTypes::U8,
        PT::U16 => PrimitiveTypes::U16,
        PT::U32 => PrimitiveTypes::U32,
        PT::U64 => PrimitiveTypes::U64,
        PT::I8 => PrimitiveTypes::I8,
        PT::I16 => PrimitiveTypes::I16,
        PT::I32 => PrimitiveTypes::I32,
        PT::I64 => PrimitiveTypes::I64,
        PT::F32 => PrimitiveTypes::F32,
        PT::F64 => PrimitiveTypes::F64,
        PT::Bool => PrimitiveTypes::Bool,
        PT::Char => PrimitiveTypes::Char,
        PT::Ptr => PrimitiveTypes::Ptr,
        PT::None => PrimitiveTypes::None,
    }
}

impl ExtendedExpression<HInstr> for HExt {
    fn expression(
        &self,
        _state: &mut State<Self, HInstr>,
        block_state: &Rc<RefCell<BlockState<HInstr>>>,
    ) -> ExpressionResult {
        block_state.borrow_mut().inc_register();
        let reg = block_state.borrow().last_register_number;
        block_state
            .borrow_mut()
            .extended_expression(&HInstr { tag: self.tag, ty: self.ty, reg });
        ExpressionResult {
            expr_type: Type::Primitive(sem_pt(ALL_PT[usize::from(self.ty)])),
            expr_value: ExpressionResultValue::Register(reg),
        }
    }
}

pub type AMain<'a> = ast::Main<'a, HInstr, HExt>;
type AEx<'a> = ast::Expression<'a, HInstr, HExt>;

fn pt(p: PT) -> ast::PrimitiveTypes {
    match p {
        PT::U8 => ast::PrimitiveTypes::U8,
        PT::U16 => ast::PrimitiveTypes::U16,
        PT::U32 => ast::PrimitiveTypes::U32,
        PT::U64 => ast::PrimitiveTypes::U64,
        PT::I8 => ast::PrimitiveTypes::I8,
        PT::I16 => ast::PrimitiveTypes::I16,
        PT::I32 => ast::PrimitiveTypes::I32,
        PT::I64 => ast::PrimitiveTypes::I64,
        PT::F32 => ast::PrimitiveTypes::F32,
        PT::F64 => ast::PrimitiveTypes::F64,
        PT::Bool => ast::PrimitiveTypes::Bool,
        PT::Char => ast::PrimitiveTypes::Char,
        PT::Ptr => ast::PrimitiveTypes::Ptr,
        PT::None => ast::PrimitiveTypes::None,
    }
}

pub fn ty(t: &Ty) -> ast::Type<'_> {
    match t {
        Ty::Prim(p) => ast::Type::Primitive(pt(*p)),
        Ty::Struct(n, attrs) => ast::Type::Struct(struct_types(n, attrs)),
        Ty::Array(t, n) => ast::Type::Array(Box::new(ty(t)), *n),
    }
}

pub fn struct_types<'a>(n: &'a str, attrs: &'a [(String, Ty)]) -> ast::StructTypes<'a> {
    ast::StructTypes {
        name: ast::Ident::new(n),
        attributes: attrs
            .iter()
            .map(|(an, at)| ast::StructType {
                attr_name: ast::Ident::new(an),
                attr_type: ty(at),
            })
            .collect(),
    }
}

fn pv(v: &PV) -> ast::PrimitiveValue {
    match v {
        PV::U8(n) => ast::PrimitiveValue::U8(*n),
        PV::U16(n) => ast::PrimitiveValue::U16(*n),
        PV::U32(n) => ast::PrimitiveValue::U32(*n),
        PV::U64(n) => ast::PrimitiveValue::U64(*n),
        PV::I8(n) => ast::PrimitiveValue::I8(*n),
        PV::I16(n) => ast::PrimitiveValue::I16(*n),
        PV::I32(n) => ast::PrimitiveValue::I32(*n),
        PV::I64(n) => ast::PrimitiveValue::I64(*n),
        PV::F32(n) => ast::PrimitiveValue::F32(*n),
        PV::F64(n) => ast::PrimitiveValue::F64(*n),
        PV::Bool(n) => ast::PrimitiveValue::Bool(*n),
        PV::Char(n) => ast::PrimitiveValue::Char(*n),
        PV::Ptr => ast::PrimitiveValue::Ptr,
        PV::None => ast::PrimitiveValue::None,
    }
}

fn op(o: Op) -> ast::ExpressionOperations {
    use ast::ExpressionOperations as A;
    match o {
        Op::Plus => A::Plus,
        Op::Minus => A::Minus,
        Op::Multiply => A::Multiply,
        Op::Divide => A::Divide,
        Op::ShiftLeft => A::ShiftLeft,
        Op::ShiftRight => A::ShiftRight,
        Op::And => A::And,
        Op::Or => A::Or,
        Op::Xor => A::Xor,
        Op::Eq => A::Eq,
        Op::NotEq => A::NotEq,
        Op::Great => A::Great,
        Op::Less => A::Less,
        Op::GreatEq => A::GreatEq,
        Op::LessEq => A::LessEq,
    }
}

pub fn ex(e: &Ex) -> AEx<'_> {
    ast::Expression {
        expression_value: ev(&e.v),
        operation: e.rest.as_ref().map(|(o, r)| (op(*o), Box::new(ex(r)))),
    }
}

fn vname(n: &str) -> ast::ValueName<'_> {
    ast::ValueName::new(ast::Ident::new(n))
}

fn call<'a>(n: &'a str, args: &'a [Ex]) -> ast::FunctionCall<'a, HInstr, HExt> {
    ast::FunctionCall {
        name: ast::FunctionName::new(ast::Ident::new(n)),
        parameters: args.iter().map(ex).collect(),
    }
}

fn ev(v: &EV) -> ast::ExpressionValue<'_, HInstr, HExt> {
    match v {
        EV::Var(n) => ast::ExpressionValue::ValueName(vname(n)),
        EV::Lit(p) => ast::ExpressionValue::PrimitiveValue(pv(p)),
        EV::Call(n, args) => ast::ExpressionValue::FunctionCall(call(n, args)),
        EV::Field(n, a) => ast::ExpressionValue::StructValue(ast::ExpressionStructValue {
            name: vname(n),
            attribute: vname(a),
        }),
        EV::Sub(e) => ast::ExpressionValue::Expression(Box::new(ex(e))),
        EV::Ext(tag, p) => ast::ExpressionValue::ExtendedExpression(Box::new(HExt {
            tag: *tag,
            ty: ALL_PT.iter().position(|x| x == p).unwrap() as u8,
        })),
    }
}

fn let_b(l: &LetS) -> ast::LetBinding<'_, HInstr, HExt> {
    ast::LetBinding {
        name: vname(&l.name),
        mutable: l.mutable,
        value_type: l.ty.as_ref().map(ty),
        value: Box::new(ex(&l.value)),
    }
}

fn set_b(b: &SetS) -> ast::Binding<'_, HInstr, HExt> {
    ast::Binding {
        name: vname(&b.name),
        value: Box::new(ex(&b.value)),
    }
}

fn cnd(c: Cnd) -> ast::Condition {
    match c {
        Cnd::Great => ast::Condition::Great,
        Cnd::Less => ast::Condition::Less,
        Cnd::Eq => ast::Condition::Eq,
        Cnd::GreatEq => ast::Condition::GreatEq,
        Cnd::LessEq => ast::Condition::LessEq,
        Cnd::NotEq => ast::Condition::NotEq,
    }
}

fn lc(c: &LC) -> ast::ExpressionLogicCondition<'_, HInstr, HExt> {
    ast::ExpressionLogicCondition {
        left: ast::ExpressionCondition {
            left: ex(&c.left.left),
            condition: cnd(c.left.cond),
            right: ex(&c.left.right),
        },
        right: c.right.as_ref().map(|(l, r)| {
            (
                match l {
                    Lg::And => ast::LogicCondition::And,
                    Lg::Or => ast::LogicCondition::Or,
                },
                Box::new(lc(r)),
            )
        }),
    }
}

fn bodies(b: &Bodies) -> ast::IfBodyStatements<'_, HInstr, HExt> {
    match b {
        Bodies::If(v) => ast::IfBodyStatements::If(v.iter().map(if_body_st).collect()),
        Bodies::Loop(v) => ast::IfBodyStatements::Loop(v.iter().map(if_loop_st).collect()),
    }
}

pub fn if_s(i: &IfS) -> ast::IfStatement<'_, HInstr, HExt> {
    ast::IfStatement {
        condition: match &i.cond {
            IfC::Single(e) => ast::IfCondition::Single(ex(e)),
            IfC::Logic(l) => ast::IfCondition::Logic(lc(l)),
        },
        body: bodies(&i.body),
        else_statement: i.els.as_ref().map(bodies),
        else_if_statement: i.elif.as_ref().map(|e| Box::new(if_s(e))),
    }
}

/// statements that do not exist in the target enum cannot be generated; the generator never
/// produces them, a stray one is a harness bug
fn if_body_st(s: &St) -> ast::IfBodyStatement<'_, HInstr, HExt> {
    use ast::IfBodyStatement as A;
    match s {
        St::Let(l) => A::LetBinding(let_b(l)),
        St::Set(b) => A::Binding(set_b(b)),
        St::Call(c) => A::FunctionCall(call(&c.name, &c.args)),
        St::If(i) => A::If(if_s(i)),
        St::Loop(b) => A::Loop(b.iter().map(loop_st).collect()),
        St::Ret(e) => A::Return(ex(e)),
        St::Expr(_) | St::Brk | St::Cont => panic!("harness: statement not expressible in if body"),
    }
}

fn if_loop_st(s: &St) -> ast::IfLoopBodyStatement<'_, HInstr, HExt> {
    use ast::IfLoopBodyStatement as A;
    match s {
        St::Let(l) => A::LetBinding(let_b(l)),
        St::Set(b) => A::Binding(set_b(b)),
        St::Call(c) => A::FunctionCall(call(&c.name, &c.args)),
        St::If(i) => A::If(if_s(i)),
        St::Loop(b) => A::Loop(b.iter().map(loop_st).collect()),
        St::Ret(e) => A::Return(ex(e)),
        St::Brk => A::Break,
        St::Cont => A::Continue,
        St::Expr(_) => panic!("harness: statement not expressible in if-loop body"),
    }
}

fn loop_st(s: &St) -> ast::LoopBodyStatement<'_, HInstr, HExt> {
    use ast::LoopBodyStatement as A;
    match s {
        St::Let(l) => A::LetBinding(let_b(l)),
        St::Set(b) => A::Binding(set_b(b)),
        St::Call(c) => A::FunctionCall(call(&c.name, &c.args)),
        St::If(i) => A::If(if_s(i)),
        St::Loop(b) => A::Loop(b.iter().map(loop_st).collect()),
        St::Ret(e) => A::Return(ex(e)),
        St::Brk => A::Break,
        St::Cont => A::Continue,
        St::Expr(_) => panic!("harness: statement not expressible in loop body"),
    }
}

fn body_st(s: &St) -> ast::BodyStatement<'_, HInstr, HExt> {
    use ast::BodyStatement as A;
    match s {
        St::Let(l) => A::LetBinding(let_b(l)),
        St::Set(b) => A::Binding(set_b(b)),
        St::Call(c) => A::FunctionCall(call(&c.name, &c.args)),
        St::If(i) => A::If(if_s(i)),
        St::Loop(b) => A::Loop(b.iter().map(loop_st).collect()),
        St::Expr(e) => A::Expression(ex(e)),
        St::Ret(e) => A::Return(ex(e)),
        St::Brk | St::Cont => panic!("harness: statement not expressible in function body"),
    }
}

fn ce(c: &CE) -> ast::ConstantExpression<'_> {
    ast::ConstantExpression {
        value: match &c.v {
            CV::Const(n) => ast::ConstantValue::Constant(ast::ConstantName::new(ast::Ident::new(n))),
            CV::Val(p) => ast::ConstantValue::Value(pv(p)),
        },
        operation: c.rest.as_ref().map(|(o, r)| (op(*o), Box::new(ce(r)))),
    }
}

pub fn func(f: &Fn) -> ast::FunctionStatement<'_, HInstr, HExt> {
    ast::FunctionStatement::new(
        ast::FunctionName::new(ast::Ident::new(&f.name)),
        f.params
            .iter()
            .map(|(n, t)| ast::FunctionParameter {
                name: ast::ParameterName::new(ast::Ident::new(n)),
                parameter_type: ty(t),
            })
            .collect(),
        ty(&f.result),
        f.body.iter().map(body_st).collect(),
    )
}

pub fn main(p: &Prog) -> AMain<'_> {
    p.iter()
        .map(|t| match t {
            Top::Import(path) => ast::MainStatement::Import(
                path.iter()
                    .map(|n| ast::ImportName::new(ast::Ident::new(n)))
                    .collect(),
            ),
            Top::Types(n, attrs) => ast::MainStatement::Types(struct_types(n, attrs)),
            Top::Const(n, t, c) => ast::MainStatement::Constant(ast::Constant {
                name: ast::ConstantName::new(ast::Ident::new(n)),
                constant_type: ty(t),
                constant_value: ce(c),
            }),
            Top::Fn(f) => ast::MainStatement::Function(func(f)),
        })
        .collect()
}
