//! Canonical dump of the analyzer's result state (S-expression, one line).

use crate::ir::{w_name, Prog};
use crate::toast::{self, AMain, HExt, HInstr};
use semantic_analyzer::ast;
use semantic_analyzer::semantic::State;
use semantic_analyzer::types::block_state::BlockState;
use semantic_analyzer::types::condition::{Condition, LogicCondition};
use semantic_analyzer::types::error::StateErrorKind;
use semantic_analyzer::types::expression::{
    ExpressionOperations, ExpressionResult, ExpressionResultValue,
};
use semantic_analyzer::types::semantic::SemanticStackContext;
use semantic_analyzer::types::types::{PrimitiveTypes, StructTypes, Type};
use semantic_analyzer::types::{
    Constant, ConstantExpression, ConstantValue, Function, FunctionStatement, PrimitiveValue, Value,
};
use std::cell::RefCell;
use std::fmt::Write;
use std::rc::Rc;

pub type HState = State<HExt, HInstr>;

fn d_pt(p: &PrimitiveTypes) -> &'static str {
    match p {
        PrimitiveTypes::U8 => "u8",
        PrimitiveTypes::U16 => "u16",
        PrimitiveTypes::U32 => "u32",
        PrimitiveTypes::U64 => "u64",
        PrimitiveTypes::I8 => "i8",
        PrimitiveTypes::I16 => "i16",
        PrimitiveTypes::I32 => "i32",
        PrimitiveTypes::I64 => "i64",
        PrimitiveTypes::F32 => "f32",
        PrimitiveTypes::F64 => "f64",
        PrimitiveTypes::Bool => "bool",
        PrimitiveTypes::Char => "char",
        PrimitiveTypes::Ptr => "ptr",
        PrimitiveTypes::None => "none",
    }
}

fn d_attrs(out: &mut String, st: &StructTypes) {
    let mut attrs: Vec<_> = st.attributes.iter().collect();
    attrs.sort_by(|a, b| a.0.to_string().cmp(&b.0.to_string()));
    out.push('(');
    for (i, (k, a)) in attrs.iter().enumerate() {
        if i > 0 {
            out.push(' ');
        }
        out.push('(');
        w_name(out, &k.to_string());
        write!(out, " {} ", a.attr_index).unwrap();
        d_ty(out, &a.attr_type);
        // the key of the map and the attribute's own name must agree; methods must be empty
        if k.to_string() != a.attr_name.to_string() {
            out.push_str(" KEYMISMATCH");
        }
        out.push(')');
    }
    out.push(')');
    if !st.methods.is_empty() {
        out.push_str(" METHODS");
    }
}

pub fn d_ty(out: &mut String, t: &Type) {
    match t {
        Type::Primitive(p) => write!(out, "(p {})", d_pt(p)).unwrap(),
        Type::Struct(st) => {
            out.push_str("(s ");
            w_name(out, &st.name);
            out.push(' ');
            d_attrs(out, st);
            out.push(')');
        }
        Type::Array(t, n) => {
            out.push_str("(a ");
            d_ty(out, t);
            write!(out, " {})", n).unwrap();
        }
    }
}

fn d_pv(out: &mut String, v: &PrimitiveValue) {
    match v {
        PrimitiveValue::U8(n) => write!(out, "(u8 {})", n).unwrap(),
        PrimitiveValue::U16(n) => write!(out, "(u16 {})", n).unwrap(),
        PrimitiveValue::U32(n) => write!(out, "(u32 {})", n).unwrap(),
        PrimitiveValue::U64(n) => write!(out, "(u64 {})", n).unwrap(),
        PrimitiveValue::I8(n) => write!(out, "(i8 {})", n).unwrap(),
        PrimitiveValue::I16(n) => write!(out, "(i16 {})", n).unwrap(),
        PrimitiveValue::I32(n) => write!(out, "(i32 {})", n).unwrap(),
        PrimitiveValue::I64(n) => write!(out, "(i64 {})", n).unwrap(),
        PrimitiveValue::F32(f) => {
            write!(out, "(f32 {} ", f.to_bits()).unwrap();
            w_name(out, &f.to_string());
            out.push(')');
        }
        PrimitiveValue::F64(f) => {
            write!(out, "(f64 {} ", f.to_bits()).unwrap();
            w_name(out, &f.to_string());
            out.push(')');
        }
        PrimitiveValue::Bool(b) => write!(out, "(bool {})", u8::from(*b)).unwrap(),
        PrimitiveValue::Char(c) => write!(out, "(char {})", *c as u32).unwrap(),
        PrimitiveValue::Ptr => out.push_str("(ptr)"),
        PrimitiveValue::None => out.push_str("(none)"),
    }
}

fn d_op(o: &ExpressionOperations) -> &'static str {
    use ExpressionOperations as A;
    match o {
        A::Plus => "plus",
        A::Minus => "minus",
        A::Multiply => "multiply",
        A::Divide => "divide",
        A::ShiftLeft => "shiftLeft",
        A::ShiftRight => "shiftRight",
        A::And => "and",
        A::Or => "or",
        A::Xor => "xor",
        A::Eq => "eq",
        A::NotEq => "notEq",
        A::Great => "great",
        A::Less => "less",
        A::GreatEq => "greatEq",
        A::LessEq => "lessEq",
    }
}

fn d_ce(out: &mut String, c: &ConstantExpression) {
    let cv = |out: &mut String, v: &ConstantValue| match v {
        ConstantValue::Constant(n) => {
            out.push_str("(c ");
            w_name(out, &n.to_string());
            out.push(')');
        }
        ConstantValue::Value(p) => {
            out.push_str("(v ");
            d_pv(out, p);
            out.push(')');
        }
    };
    match &c.operation {
        None => {
            out.push_str("(cl ");
            cv(out, &c.value);
            out.push(')');
        }
        Some((op, r)) => {
            out.push_str("(cc ");
            cv(out, &c.value);
            write!(out, " {} ", d_op(op)).unwrap();
            d_ce(out, r);
            out.push(')');
        }
    }
}

fn d_const(out: &mut String, c: &Constant) {
    out.push_str("(const ");
    w_name(out, &c.name.to_string());
    out.push(' ');
    d_ty(out, &c.constant_type);
    out.push(' ');
    d_ce(out, &c.constant_value);
    out.push(')');
}

fn d_func(out: &mut String, f: &Function) {
    out.push_str("(func ");
    w_name(out, &f.inner_name.to_string());
    out.push(' ');
    d_ty(out, &f.inner_type);
    out.push_str(" (");
    for (i, t) in f.parameters.iter().enumerate() {
        if i > 0 {
            out.push(' ');
        }
        d_ty(out, t);
    }
    out.push_str("))");
}

fn d_value(out: &mut String, v: &Value) {
    out.push_str("(val ");
    w_name(out, &v.inner_name.to_string());
    out.push(' ');
    d_ty(out, &v.inner_type);
    write!(
        out,
        " {} {} {})",
        u8::from(v.mutable),
        u8::from(v.alloca),
        u8::from(v.malloc)
    )
    .unwrap();
}

fn d_res(out: &mut String, r: &ExpressionResult) {
    out.push_str("(res ");
    d_ty(out, &r.expr_type);
    match &r.expr_value {
        ExpressionResultValue::PrimitiveValue(p) => {
            out.push_str(" (pv ");
            d_pv(out, p);
            out.push_str("))");
        }
        ExpressionResultValue::Register(n) => write!(out, " (reg {}))", n).unwrap(),
    }
}

fn d_cond(c: &Condition) -> &'static str {
    match c {
        Condition::Great => "great",
        Condition::Less => "less",
        Condition::Eq => "eq",
        Condition::GreatEq => "greatEq",
        Condition::LessEq => "lessEq",
        Condition::NotEq => "notEq",
    }
}

fn fn_body_ok(prog_ast: &AMain<'_>, fn_decl: &FunctionStatement) -> bool {
    prog_ast.iter().any(|m| match m {
        ast::MainStatement::Function(f) => {
            let conv: FunctionStatement = f.clone().into();
            conv == *fn_decl
        }
        _ => false,
    })
}

pub fn d_instr(out: &mut String, i: &SemanticStackContext<HInstr>, prog_ast: &AMain<'_>) {
    use SemanticStackContext as S;
    match i {
        S::ExpressionValue {
            expression,
            register_number,
        } => {
            out.push_str("(ExpressionValue ");
            d_value(out, expression);
            write!(out, " {})", register_number).unwrap();
        }
        S::ExpressionConst {
            expression,
            register_number,
        } => {
            out.push_str("(ExpressionConst ");
            d_const(out, expression);
            write!(out, " {})", register_number).unwrap();
        }
        S::ExpressionStructValue {
            expression,
            index,
            register_number,
        } => {
            out.push_str("(ExpressionStructValue ");
            d_value(out, expression);
            write!(out, " {} {})", index, register_number).unwrap();
        }
        S::ExpressionOperation {
            operation,
            left_value,
            right_value,
            register_number,
        } => {
            write!(out, "(ExpressionOperation {} ", d_op(operation)).unwrap();
            d_res(out, left_value);
            out.push(' ');
            d_res(out, right_value);
            write!(out, " {})", register_number).unwrap();
        }
        S::Call {
            call,
            params,
            register_number,
        } => {
            out.push_str("(Call ");
            d_func(out, call);
            out.push_str(" (");
            for (k, p) in params.iter().enumerate() {
                if k > 0 {
                    out.push(' ');
                }
                d_res(out, p);
            }
            write!(out, ") {})", register_number).unwrap();
        }
        S::LetBinding {
            let_decl,
            expr_result,
        } => {
            out.push_str("(LetBinding ");
            d_value(out, let_decl);
            out.push(' ');
            d_res(out, expr_result);
            out.push(')');
        }
        S::Binding { val, expr_result } => {
            out.push_str("(Binding ");
            d_value(out, val);
            out.push(' ');
            d_res(out, expr_result);
            out.push(')');
        }
        S::FunctionDeclaration { fn_decl } => {
            out.push_str("(FunctionDeclaration ");
            w_name(out, &fn_decl.name.to_string());
            out.push_str(" (");
            for (k, p) in fn_decl.parameters.iter().enumerate() {
                if k > 0 {
                    out.push(' ');
                }
                out.push('(');
                w_name(out, &p.to_string());
                out.push(' ');
                d_ty(out, &p.parameter_type);
                out.push(')');
            }
            out.push_str(") ");
            d_ty(out, &fn_decl.result_type);
            write!(out, " {})", u8::from(fn_body_ok(prog_ast, fn_decl))).unwrap();
        }
        S::Constant { const_decl } => {
            out.push_str("(Constant ");
            d_const(out, const_decl);
            out.push(')');
        }
        S::Types { type_decl } => {
            out.push_str("(Types ");
            w_name(out, &type_decl.name);
            out.push(' ');
            d_attrs(out, type_decl);
            out.push(')');
        }
        S::ExpressionFunctionReturn { expr_result } => {
            out.push_str("(ExpressionFunctionReturn ");
            d_res(out, expr_result);
            out.push(')');
        }
        S::ExpressionFunctionReturnWithLabel { expr_result } => {
            out.push_str("(ExpressionFunctionReturnWithLabel ");
            d_res(out, expr_result);
            out.push(')');
        }
        S::SetLabel { label } => {
            out.push_str("(SetLabel ");
            w_name(out, &label.to_string());
            out.push(')');
        }
        S::JumpTo { label } => {
            out.push_str("(JumpTo ");
            w_name(out, &label.to_string());
            out.push(')');
        }
        S::IfConditionExpression {
            expr_result,
            label_if_begin,
            label_if_end,
        } => {
            out.push_str("(IfConditionExpression ");
            d_res(out, expr_result);
            out.push(' ');
            w_name(out, &label_if_begin.to_string());
            out.push(' ');
            w_name(out, &label_if_end.to_string());
            out.push(')');
        }
        S::ConditionExpression {
            left_result,
            right_result,
            condition,
            register_number,
        } => {
            out.push_str("(ConditionExpression ");
            d_res(out, left_result);
            out.push(' ');
            d_res(out, right_result);
            write!(out, " {} {})", d_cond(condition), register_number).unwrap();
        }
        S::JumpFunctionReturn { expr_result } => {
            out.push_str("(JumpFunctionReturn ");
            d_res(out, expr_result);
            out.push(')');
        }
        S::LogicCondition {
            logic_condition,
            left_register_result,
            right_register_result,
            register_number,
        } => {
            write!(
                out,
                "(LogicCondition {} {} {} {})",
                match logic_condition {
                    LogicCondition::And => "and",
                    LogicCondition::Or => "or",
                },
                left_register_result,
                right_register_result,
                register_number
            )
            .unwrap();
        }
        S::IfConditionLogic {
            label_if_begin,
            label_if_end,
            result_register,
        } => {
            out.push_str("(IfConditionLogic ");
            w_name(out, &label_if_begin.to_string());
            out.push(' ');
            w_name(out, &label_if_end.to_string());
            write!(out, " {})", result_register).unwrap();
        }
        S::FunctionArg { value, func_arg } => {
            out.push_str("(FunctionArg ");
            d_value(out, value);
            out.push_str(" (");
            w_name(out, &func_arg.to_string());
            out.push(' ');
            d_ty(out, &func_arg.parameter_type);
            out.push_str("))");
        }
        S::ExtendedExpression(h) => {
            write!(out, "(Ext {} {} {})", h.tag, d_pt(&toast::sem_pt(crate::ir::ALL_PT[usize::from(h.ty)])), h.reg).unwrap();
        }
    }
}

fn d_stack(out: &mut String, head: &str, stack: &[SemanticStackContext<HInstr>], prog_ast: &AMain<'_>) {
    out.push('(');
    out.push_str(head);
    for i in stack {
        out.push(' ');
        d_instr(out, i, prog_ast);
    }
    out.push(')');
}

fn d_block(
    out: &mut String,
    b: &Rc<RefCell<BlockState<HInstr>>>,
    parent: Option<&Rc<RefCell<BlockState<HInstr>>>>,
    prog_ast: &AMain<'_>,
) {
    let bs = b.borrow();
    out.push_str("(blk (vals");
    let mut vals: Vec<_> = bs.values.iter().collect();
    vals.sort_by(|a, b| a.0.to_string().cmp(&b.0.to_string()));
    for (k, v) in vals {
        out.push_str(" (");
        w_name(out, &k.to_string());
        out.push(' ');
        d_value(out, v);
        out.push(')');
    }
    out.push_str(") (inner");
    let mut names: Vec<String> = bs.inner_values_name.iter().map(ToString::to_string).collect();
    names.sort();
    for n in &names {
        out.push(' ');
        w_name(out, n);
    }
    out.push_str(") (labels");
    let mut labels: Vec<String> = bs.labels.iter().map(ToString::to_string).collect();
    labels.sort();
    for n in &labels {
        out.push(' ');
        w_name(out, n);
    }
    let parent_ok = match (&bs.parent, parent) {
        (None, None) => true,
        (Some(p), Some(q)) => Rc::ptr_eq(p, q),
        _ => false,
    };
    write!(
        out,
        ") {} {} {} ",
        bs.last_register_number,
        u8::from(bs.manual_return),
        u8::from(parent_ok)
    )
    .unwrap();
    d_stack(out, "ctx", &bs.get_context().get(), prog_ast);
    out.push_str(" (children");
    for c in &bs.children {
        out.push(' ');
        d_block(out, c, Some(b), prog_ast);
    }
    out.push_str("))");
}

fn wildcard_kind(k: &StateErrorKind) -> bool {
    matches!(
        k,
        StateErrorKind::ForbiddenCodeAfterReturnDeprecated
            | StateErrorKind::ForbiddenCodeAfterBreakDeprecated
            | StateErrorKind::ForbiddenCodeAfterContinueDeprecated
            | StateErrorKind::ConditionIsEmpty
    )
}

pub fn dump_state(st: &HState, prog_ast: &AMain<'_>) -> String {
    let mut out = String::new();
    out.push_str("(dump ok (errs");
    for e in &st.errors {
        write!(out, " (err {:?} ", e.kind).unwrap();
        if wildcard_kind(&e.kind) {
            w_name(&mut out, "*");
        } else {
            w_name(&mut out, &e.value);
        }
        write!(out, " {} {})", e.location.0.line(), e.location.0.offset()).unwrap();
    }
    out.push_str(") (types");
    let mut tys: Vec<_> = st.global.types.iter().collect();
    tys.sort_by(|a, b| a.0.to_string().cmp(&b.0.to_string()));
    for (k, t) in tys {
        out.push_str(" (");
        w_name(&mut out, &k.to_string());
        out.push(' ');
        d_ty(&mut out, t);
        out.push(')');
    }
    out.push_str(") (consts");
    let mut cs: Vec<_> = st.global.constants.iter().collect();
    cs.sort_by(|a, b| a.0.to_string().cmp(&b.0.to_string()));
    for (k, c) in cs {
        out.push_str(" (");
        w_name(&mut out, &k.to_string());
        out.push(' ');
        d_const(&mut out, c);
        out.push(')');
    }
    out.push_str(") (funcs");
    let mut fs: Vec<_> = st.global.functions.iter().collect();
    fs.sort_by(|a, b| a.0.to_string().cmp(&b.0.to_string()));
    for (k, f) in fs {
        out.push_str(" (");
        w_name(&mut out, &k.to_string());
        out.push(' ');
        d_func(&mut out, f);
        out.push(')');
    }
    out.push_str(") ");
    d_stack(&mut out, "gctx", &st.global.context.clone().get(), prog_ast);
    out.push_str(" (roots");
    for b in &st.context {
        out.push(' ');
        d_block(&mut out, b, None, prog_ast);
    }
    out.push_str("))");
    out
}

/// run the real analyzer on a program; a panic gives `(dump panic)`
pub fn analyze(p: &Prog) -> String {
    let res = std::panic::catch_unwind(std::panic::AssertUnwindSafe(|| {
        let prog_ast = toast::main(p);
        let mut st: HState = State::new();
        st.run(&prog_ast);
        dump_state(&st, &prog_ast)
    }));
    match res {
        Ok(s) => s,
        Err(_) => "(dump panic)".to_string(),
    }
}
