//! Wire format -> IR (for replays and the corpus).

use crate::ir::*;

#[derive(Debug, Clone)]
pub enum Sx {
    A(String),
    L(Vec<Sx>),
}

pub fn parse_sx(s: &str) -> Option<Sx> {
    let mut stack: Vec<Vec<Sx>> = vec![vec![]];
    let mut cur = String::new();
    let flush = |cur: &mut String, stack: &mut Vec<Vec<Sx>>| {
        if !cur.is_empty() {
            stack.last_mut().unwrap().push(Sx::A(std::mem::take(cur)));
        }
    };
    for c in s.chars() {
        match c {
            '(' => {
                flush(&mut cur, &mut stack);
                stack.push(vec![]);
            }
            ')' => {
                flush(&mut cur, &mut stack);
                let l = stack.pop()?;
                stack.last_mut()?.push(Sx::L(l));
            }
            ' ' | '\n' | '\r' | '\t' => flush(&mut cur, &mut stack),
            _ => cur.push(c),
        }
    }
    flush(&mut cur, &mut stack);
    if stack.len() != 1 {
        return None;
    }
    let mut top = stack.pop()?;
    if top.len() == 1 {
        top.pop()
    } else {
        None
    }
}

fn atom(x: &Sx) -> Option<&str> {
    match x {
        Sx::A(s) => Some(s),
        Sx::L(_) => None,
    }
}
fn list(x: &Sx) -> Option<&[Sx]> {
    match x {
        Sx::L(l) => Some(l),
        Sx::A(_) => None,
    }
}
fn name(x: &Sx) -> Option<String> {
    let s = atom(x)?.strip_prefix('\'')?;
    if s.is_empty() {
        return Some(String::new());
    }
    s.split('_')
        .map(|h| u32::from_str_radix(h, 16).ok().and_then(char::from_u32))
        .collect()
}
fn head<'a>(x: &'a Sx) -> Option<(&'a str, &'a [Sx])> {
    let l = list(x)?;
    Some((atom(l.first()?)?, &l[1..]))
}

fn pt(s: &str) -> Option<PT> {
    ALL_PT.iter().copied().find(|p| p.wire() == s)
}
fn op(s: &str) -> Option<Op> {
    ALL_OPS.iter().copied().find(|p| p.wire() == s)
}
fn cnd(s: &str) -> Option<Cnd> {
    ALL_CND.iter().copied().find(|p| p.wire() == s)
}

fn ty(x: &Sx) -> Option<Ty> {
    let (h, r) = head(x)?;
    match (h, r) {
        ("p", [p]) => Some(Ty::Prim(pt(atom(p)?)?)),
        ("s", [n, attrs]) => Some(Ty::Struct(name(n)?, attrs_of(attrs)?)),
        ("a", [t, n]) => Some(Ty::Array(Box::new(ty(t)?), atom(n)?.parse().ok()?)),
        _ => None,
    }
}
fn attrs_of(x: &Sx) -> Option<Vec<(String, Ty)>> {
    list(x)?
        .iter()
        .map(|a| {
            let l = list(a)?;
            Some((name(l.first()?)?, ty(l.get(1)?)?))
        })
        .collect()
}

fn pv(x: &Sx) -> Option<PV> {
    let (h, r) = head(x)?;
    let n = |i: usize| atom(r.get(i)?);
    Some(match h {
        "u8" => PV::U8(n(0)?.parse().ok()?),
        "u16" => PV::U16(n(0)?.parse().ok()?),
        "u32" => PV::U32(n(0)?.parse().ok()?),
        "u64" => PV::U64(n(0)?.parse().ok()?),
        "i8" => PV::I8(n(0)?.parse().ok()?),
        "i16" => PV::I16(n(0)?.parse().ok()?),
        "i32" => PV::I32(n(0)?.parse().ok()?),
        "i64" => PV::I64(n(0)?.parse().ok()?),
        "f32" => PV::F32(f32::from_bits(n(0)?.parse().ok()?)),
        "f64" => PV::F64(f64::from_bits(n(0)?.parse().ok()?)),
        "bool" => PV::Bool(n(0)? == "1"),
        "char" => PV::Char(char::from_u32(n(0)?.parse().ok()?)?),
        "ptr" => PV::Ptr,
        "none" => PV::None,
        _ => return None,
    })
}

fn ex(x: &Sx) -> Option<Ex> {
    let (h, r) = head(x)?;
    if h != "e" {
        return None;
    }
    match r {
        [v] => Some(Ex { v: ev(v)?, rest: None }),
        [v, o, e] => Some(Ex {
            v: ev(v)?,
            rest: Some((op(atom(o)?)?, Box::new(ex(e)?))),
        }),
        _ => None,
    }
}
fn exs(r: &[Sx]) -> Option<Vec<Ex>> {
    r.iter().map(ex).collect()
}
fn ev(x: &Sx) -> Option<EV> {
    let (h, r) = head(x)?;
    Some(match (h, r) {
        ("var", [n]) => EV::Var(name(n)?),
        ("lit", [v]) => EV::Lit(pv(v)?),
        ("call", [n, args @ ..]) => EV::Call(name(n)?, exs(args)?),
        ("fld", [n, a]) => EV::Field(name(n)?, name(a)?),
        ("sub", [e]) => EV::Sub(Box::new(ex(e)?)),
        ("ext", [t, p]) => EV::Ext(atom(t)?.parse().ok()?, pt(atom(p)?)?),
        _ => return None,
    })
}

fn cmp(x: &Sx) -> Option<Cmp> {
    match head(x)? {
        ("cmp", [l, c, r]) => Some(Cmp {
            left: ex(l)?,
            cond: cnd(atom(c)?)?,
            right: ex(r)?,
        }),
        _ => None,
    }
}
fn lc(x: &Sx) -> Option<LC> {
    match head(x)? {
        ("lc", [c]) => Some(LC { left: cmp(c)?, right: None }),
        ("lc", [c, lg, r]) => Some(LC {
            left: cmp(c)?,
            right: Some((
                match atom(lg)? {
                    "and" => Lg::And,
                    "or" => Lg::Or,
                    _ => return None,
                },
                Box::new(lc(r)?),
            )),
        }),
        _ => None,
    }
}
fn bodies(x: &Sx) -> Option<Bodies> {
    let (h, r) = head(x)?;
    let v: Option<Vec<St>> = r.iter().map(st).collect();
    match h {
        "ifb" => Some(Bodies::If(v?)),
        "loopb" => Some(Bodies::Loop(v?)),
        _ => None,
    }
}
fn ifs(x: &Sx) -> Option<IfS> {
    match head(x)? {
        ("ifs", [c, b, e, ei]) => {
            let cond = match head(c)? {
                ("single", [e]) => IfC::Single(ex(e)?),
                ("logic", [l]) => IfC::Logic(lc(l)?),
                _ => return None,
            };
            let els = match head(e)? {
                ("none", []) => None,
                ("some", [b]) => Some(bodies(b)?),
                _ => return None,
            };
            let elif = match head(ei)? {
                ("none", []) => None,
                ("some", [i]) => Some(Box::new(ifs(i)?)),
                _ => return None,
            };
            Some(IfS {
                cond,
                body: bodies(b)?,
                els,
                elif,
            })
        }
        _ => None,
    }
}
fn st(x: &Sx) -> Option<St> {
    let (h, r) = head(x)?;
    Some(match (h, r) {
        ("let", [n, m, t, e]) => St::Let(LetS {
            name: name(n)?,
            mutable: atom(m)? == "1",
            ty: match head(t)? {
                ("none", []) => None,
                ("some", [t]) => Some(ty(t)?),
                _ => return None,
            },
            value: ex(e)?,
        }),
        ("set", [n, e]) => St::Set(SetS {
            name: name(n)?,
            value: ex(e)?,
        }),
        ("call", [n, args @ ..]) => St::Call(CallS {
            name: name(n)?,
            args: exs(args)?,
        }),
        ("if", [i]) => St::If(ifs(i)?),
        ("loop", body) => St::Loop(body.iter().map(st).collect::<Option<Vec<St>>>()?),
        ("expr", [e]) => St::Expr(ex(e)?),
        ("ret", [e]) => St::Ret(ex(e)?),
        ("brk", []) => St::Brk,
        ("cont", []) => St::Cont,
        _ => return None,
    })
}
fn ce(x: &Sx) -> Option<CE> {
    let cv = |x: &Sx| -> Option<CV> {
        match head(x)? {
            ("c", [n]) => Some(CV::Const(name(n)?)),
            ("v", [v]) => Some(CV::Val(pv(v)?)),
            _ => None,
        }
    };
    match head(x)? {
        ("cl", [v]) => Some(CE { v: cv(v)?, rest: None }),
        ("cc", [v, o, r]) => Some(CE {
            v: cv(v)?,
            rest: Some((op(atom(o)?)?, Box::new(ce(r)?))),
        }),
        _ => None,
    }
}

pub fn prog(s: &str) -> Option<Prog> {
    let x = parse_sx(s)?;
    let (h, r) = head(&x)?;
    if h != "prog" {
        return None;
    }
    r.iter()
        .map(|t| {
            let (h, r) = head(t)?;
            Some(match (h, r) {
                ("imp", path) => Top::Import(path.iter().map(name).collect::<Option<Vec<String>>>()?),
                ("types", [n, attrs]) => Top::Types(name(n)?, attrs_of(attrs)?),
                ("const", [n, t, e]) => Top::Const(name(n)?, ty(t)?, ce(e)?),
                ("fn", [n, ps, t, body]) => Top::Fn(Fn {
                    name: name(n)?,
                    params: attrs_of(ps)?,
                    result: ty(t)?,
                    body: list(body)?.iter().map(st).collect::<Option<Vec<St>>>()?,
                }),
                _ => return None,
            })
        })
        .collect()
}
