#![allow(dead_code)]
use semantic_analyzer::ast::*;
use semantic_analyzer::semantic::State;
use semantic_analyzer::types::block_state::BlockState;
use semantic_analyzer::types::expression::{ExpressionResult, ExpressionResultValue};
use semantic_analyzer::types::semantic::{
    ExtendedExpression, ExtendedSemanticContext, SemanticContextInstruction, SemanticStackContext,
};
use semantic_analyzer::types::types as sty;
use std::cell::RefCell;
use std::rc::Rc;

#[derive(Clone, Debug, PartialEq)]
pub struct Ext {
    pub tag: u32,
    pub ty: u8,
}
#[derive(Clone, Debug, PartialEq)]
pub struct ExtI(pub u32, pub u64);
impl SemanticContextInstruction for ExtI {}
impl ExtendedExpression<ExtI> for Ext {
    fn expression(
        &self,
        _state: &mut State<Self, ExtI>,
        block_state: &Rc<RefCell<BlockState<ExtI>>>,
    ) -> ExpressionResult {
        block_state.borrow_mut().inc_register();
        let r = block_state.borrow().last_register_number;
        block_state
            .borrow_mut()
            .extended_expression(&ExtI(self.tag, r));
        ExpressionResult {
            expr_type: sty::Type::Primitive(prim_sem(self.ty)),
            expr_value: ExpressionResultValue::Register(r),
        }
    }
}
pub fn prim_sem(t: u8) -> sty::PrimitiveTypes {
    use sty::PrimitiveTypes::*;
    match t {
        0 => U8,
        1 => U16,
        2 => U32,
        3 => U64,
        4 => I8,
        5 => I16,
        6 => I32,
        7 => I64,
        8 => F32,
        9 => F64,
        10 => Bool,
        11 => Char,
        12 => Ptr,
        _ => None,
    }
}

pub type Ex<'a> = Expression<'a, ExtI, Ext>;
pub type EV<'a> = ExpressionValue<'a, ExtI, Ext>;
pub type St<'a> = State<Ext, ExtI>;

pub fn id(s: &str) -> Ident<'_> {
    Ident::new(s)
}
pub fn n(s: &str) -> EV<'_> {
    ExpressionValue::ValueName(ValueName::new(id(s)))
}
pub fn u8v<'a>(v: u8) -> EV<'a> {
    ExpressionValue::PrimitiveValue(PrimitiveValue::U8(v))
}
pub fn u16v<'a>(v: u16) -> EV<'a> {
    ExpressionValue::PrimitiveValue(PrimitiveValue::U16(v))
}
pub fn boolv<'a>(v: bool) -> EV<'a> {
    ExpressionValue::PrimitiveValue(PrimitiveValue::Bool(v))
}
pub fn call<'a>(f: &'a str, args: Vec<Ex<'a>>) -> EV<'a> {
    ExpressionValue::FunctionCall(fcall(f, args))
}
pub fn fcall<'a>(f: &'a str, args: Vec<Ex<'a>>) -> FunctionCall<'a, ExtI, Ext> {
    FunctionCall {
        name: FunctionName::new(id(f)),
        parameters: args,
    }
}
pub fn sub<'a>(e: Ex<'a>) -> EV<'a> {
    ExpressionValue::Expression(Box::new(e))
}
pub fn sv<'a>(v: &'a str, a: &'a str) -> EV<'a> {
    ExpressionValue::StructValue(ExpressionStructValue {
        name: ValueName::new(id(v)),
        attribute: ValueName::new(id(a)),
    })
}
pub fn ext<'a>(tag: u32, ty: u8) -> EV<'a> {
    ExpressionValue::ExtendedExpression(Box::new(Ext { tag, ty }))
}
pub fn e<'a>(v: EV<'a>) -> Ex<'a> {
    Expression {
        expression_value: v,
        operation: None,
    }
}
pub fn ch<'a>(v0: EV<'a>, rest: Vec<(ExpressionOperations, EV<'a>)>) -> Ex<'a> {
    let mut tail: Option<(ExpressionOperations, Box<Ex<'a>>)> = None;
    let mut items: Vec<(Option<ExpressionOperations>, EV<'a>)> = vec![(None, v0)];
    for (o, v) in rest {
        items.push((Some(o), v));
    }
    while let Some((o, v)) = items.pop() {
        let ex = Expression {
            expression_value: v,
            operation: tail.take(),
        };
        match o {
            Some(o) => tail = Some((o, Box::new(ex))),
            None => return ex,
        }
    }
    unreachable!()
}
pub fn prim<'a>(t: u8) -> Type<'a> {
    use PrimitiveTypes::*;
    Type::Primitive(match t {
        0 => U8,
        1 => U16,
        2 => U32,
        3 => U64,
        4 => I8,
        5 => I16,
        6 => I32,
        7 => I64,
        8 => F32,
        9 => F64,
        10 => Bool,
        11 => Char,
        12 => Ptr,
        _ => None,
    })
}
pub fn let_<'a>(name: &'a str, m: bool, ty: Option<Type<'a>>, v: Ex<'a>) -> LetBinding<'a, ExtI, Ext> {
    LetBinding {
        name: ValueName::new(id(name)),
        mutable: m,
        value_type: ty,
        value: Box::new(v),
    }
}
pub fn bind<'a>(name: &'a str, v: Ex<'a>) -> Binding<'a, ExtI, Ext> {
    Binding {
        name: ValueName::new(id(name)),
        value: Box::new(v),
    }
}
pub fn func<'a>(
    name: &'a str,
    params: Vec<(&'a str, Type<'a>)>,
    ret: Type<'a>,
    body: Vec<BodyStatement<'a, ExtI, Ext>>,
) -> MainStatement<'a, ExtI, Ext> {
    MainStatement::Function(FunctionStatement::new(
        FunctionName::new(id(name)),
        params
            .into_iter()
            .map(|(n, t)| FunctionParameter {
                name: ParameterName::new(id(n)),
                parameter_type: t,
            })
            .collect(),
        ret,
        body,
    ))
}
pub fn ifs<'a>(
    cond: IfCondition<'a, ExtI, Ext>,
    body: IfBodyStatements<'a, ExtI, Ext>,
    els: Option<IfBodyStatements<'a, ExtI, Ext>>,
    elif: Option<IfStatement<'a, ExtI, Ext>>,
) -> IfStatement<'a, ExtI, Ext> {
    IfStatement {
        condition: cond,
        body,
        else_statement: els,
        else_if_statement: elif.map(Box::new),
    }
}
pub fn single<'a>(x: Ex<'a>) -> IfCondition<'a, ExtI, Ext> {
    IfCondition::Single(x)
}
pub fn cmp<'a>(l: Ex<'a>, c: Condition, r: Ex<'a>) -> ExpressionCondition<'a, ExtI, Ext> {
    ExpressionCondition {
        left: l,
        condition: c,
        right: r,
    }
}
pub fn logic<'a>(
    l: ExpressionCondition<'a, ExtI, Ext>,
    r: Option<(LogicCondition, ExpressionLogicCondition<'a, ExtI, Ext>)>,
) -> ExpressionLogicCondition<'a, ExtI, Ext> {
    ExpressionLogicCondition {
        left: l,
        right: r.map(|(c, x)| (c, Box::new(x))),
    }
}

fn er(r: &ExpressionResult) -> String {
    match &r.expr_value {
        ExpressionResultValue::PrimitiveValue(p) => format!("{}:{}", p, r.expr_type),
        ExpressionResultValue::Register(n) => format!("%{}:{}", n, r.expr_type),
    }
}
pub fn show(i: &SemanticStackContext<ExtI>) -> String {
    use SemanticStackContext::*;
    match i {
        ExpressionValue {
            expression,
            register_number,
        } => format!("%{} = load {}:{}", register_number, expression.inner_name, expression.inner_type),
        ExpressionConst {
            expression,
            register_number,
        } => format!("%{} = const {}", register_number, expression.name),
        ExpressionStructValue {
            expression,
            index,
            register_number,
        } => format!("%{} = field {}.{}", register_number, expression.inner_name, index),
        ExpressionOperation {
            operation,
            left_value,
            right_value,
            register_number,
        } => format!("%{} = {:?} {} {}", register_number, operation, er(left_value), er(right_value)),
        Call {
            call,
            params,
            register_number,
        } => format!(
            "%{} = call {}({})",
            register_number,
            call.inner_name,
            params.iter().map(er).collect::<Vec<_>>().join(", ")
        ),
        LetBinding {
            let_decl,
            expr_result,
        } => format!("let {}{}:{} = {}", if let_decl.mutable {"mut "} else {""}, let_decl.inner_name, let_decl.inner_type, er(expr_result)),
        Binding { val, expr_result } => format!("set {} = {}", val.inner_name, er(expr_result)),
        ExpressionFunctionReturn { expr_result } => format!("ret {}", er(expr_result)),
        ExpressionFunctionReturnWithLabel { expr_result } => format!("ret_label {}", er(expr_result)),
        SetLabel { label } => format!("{}:", label),
        JumpTo { label } => format!("jmp {}", label),
        IfConditionExpression {
            expr_result,
            label_if_begin,
            label_if_end,
        } => format!("br {} ? {} : {}", er(expr_result), label_if_begin, label_if_end),
        ConditionExpression {
            left_result,
            right_result,
            condition,
            register_number,
        } => format!("%{} = cmp {:?} {} {}", register_number, condition, er(left_result), er(right_result)),
        JumpFunctionReturn { expr_result } => format!("jmp_ret {}", er(expr_result)),
        LogicCondition {
            logic_condition,
            left_register_result,
            right_register_result,
            register_number,
        } => format!("%{} = {:?} %{} %{}", register_number, logic_condition, left_register_result, right_register_result),
        IfConditionLogic {
            label_if_begin,
            label_if_end,
            result_register,
        } => format!("brl %{} ? {} : {}", result_register, label_if_begin, label_if_end),
        FunctionArg { value, func_arg } => format!("arg {} ({})", value.inner_name, func_arg),
        ExtendedExpression(x) => format!("%{} = ext#{}", x.1, x.0),
        other => format!("{:?}", other),
    }
}
pub fn dump_block(b: &Rc<RefCell<BlockState<ExtI>>>, indent: usize) {
    let b = b.borrow();
    let pad = " ".repeat(indent);
    let mut vals: Vec<_> = b.values.iter().map(|(k, v)| format!("{}->{}", k, v.inner_name)).collect();
    vals.sort();
    println!("{}block values=[{}] reg={} ret={} n_instr={}", pad, vals.join(","), b.last_register_number, b.manual_return, b.get_context().get().len());
    for c in &b.children {
        dump_block(c, indent + 2);
    }
}
pub fn run_and_dump(title: &str, prog: &Main<'_, ExtI, Ext>) {
    println!("=== {title}");
    let mut st: St = State::new();
    let res = std::panic::catch_unwind(std::panic::AssertUnwindSafe(|| {
        st.run(prog);
    }));
    if res.is_err() {
        println!("PANIC");
    }
    for er in &st.errors {
        let mut v = er.value.clone();
        if v.len() > 60 {
            v.truncate(60);
        }
        println!("  error {:?} {:?} @{}:{}", er.kind, v, er.location.0.line(), er.location.0.offset());
    }
    for (i, b) in st.context.iter().enumerate() {
        println!("  fn#{i}:");
        for ins in b.borrow().get_context().get() {
            println!("    {}", show(&ins));
        }
        dump_block(b, 4);
    }
}
