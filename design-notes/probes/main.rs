mod dsl;
use dsl::*;
use semantic_analyzer::ast::*;
use ExpressionOperations as Op;

fn main() {
    let f0 = || func("g", vec![("a", prim(0))], prim(0), vec![BodyStatement::Return(e(n("a")))]);
    let f2 = || func("h", vec![("a", prim(0)), ("b", prim(1))], prim(0), vec![BodyStatement::Return(e(n("a")))]);

    // E1 more args than params
    run_and_dump("E1 more args", &vec![f0(), func("main", vec![], prim(0), vec![
        BodyStatement::Return(e(call("g", vec![e(u8v(1)), e(u8v(2))])))])]);
    // E2 fewer args
    run_and_dump("E2 fewer args", &vec![f2(), func("main", vec![], prim(0), vec![
        BodyStatement::Return(e(call("h", vec![e(u8v(1))])))])]);
    // E2b wrong arg type: call still emitted?
    run_and_dump("E2b wrong arg type", &vec![f2(), func("main", vec![], prim(0), vec![
        BodyStatement::Return(e(call("h", vec![e(u16v(1)), e(u16v(1))])))])]);
    // E3 binding type mismatch
    run_and_dump("E3 bind mismatch", &vec![func("main", vec![], prim(0), vec![
        BodyStatement::LetBinding(let_("x", true, None, e(u8v(1)))),
        BodyStatement::Binding(bind("x", e(boolv(true)))),
        BodyStatement::Return(e(n("x")))])]);
    // E4 nested return wrong type
    run_and_dump("E4 nested ret wrong type", &vec![func("main", vec![], prim(0), vec![
        BodyStatement::If(ifs(single(e(boolv(true))), IfBodyStatements::If(vec![IfBodyStatement::Return(e(boolv(true)))]), None, None)),
        BodyStatement::Return(e(u8v(1)))])]);
    // E5 loop with loop-level return and nested break
    run_and_dump("E5 loop ret + nested break", &vec![func("main", vec![], prim(0), vec![
        BodyStatement::Loop(vec![
            LoopBodyStatement::If(ifs(single(e(boolv(true))), IfBodyStatements::Loop(vec![IfLoopBodyStatement::Break]), None, None)),
            LoopBodyStatement::Return(e(u8v(1))),
        ]),
        BodyStatement::Return(e(u8v(2)))])]);
    // E6 nested if in if body followed by statements
    run_and_dump("E6 nested if then stmt", &vec![f0(), func("main", vec![], prim(0), vec![
        BodyStatement::If(ifs(single(e(boolv(true))), IfBodyStatements::If(vec![
            IfBodyStatement::If(ifs(single(e(boolv(false))), IfBodyStatements::If(vec![
                IfBodyStatement::FunctionCall(fcall("g", vec![e(u8v(1))]))]), None, None)),
            IfBodyStatement::FunctionCall(fcall("g", vec![e(u8v(2))])),
        ]), None, None)),
        BodyStatement::Return(e(u8v(1)))])]);
    // E7 call as operand
    run_and_dump("E7 call operand", &vec![f0(), func("main", vec![], prim(0), vec![
        BodyStatement::LetBinding(let_("x", false, None, ch(call("g", vec![e(u8v(1))]), vec![(Op::Plus, u8v(3))]))),
        BodyStatement::Return(e(call("g", vec![e(n("x"))])))])]);
    // E8 priority: 1 - 2 - 3 ; 1 + 2 * 3 + 4 ; 1 * 2 + 3 * 4
    run_and_dump("E8 a-b-c", &vec![func("main", vec![], prim(0), vec![
        BodyStatement::Return(ch(u8v(1), vec![(Op::Minus, u8v(2)), (Op::Minus, u8v(3))]))])]);
    run_and_dump("E8 a-b+c", &vec![func("main", vec![], prim(0), vec![
        BodyStatement::Return(ch(u8v(1), vec![(Op::Minus, u8v(2)), (Op::Plus, u8v(3))]))])]);
    run_and_dump("E8 a*b+c*d", &vec![func("main", vec![], prim(0), vec![
        BodyStatement::Return(ch(u8v(1), vec![(Op::Multiply, u8v(2)), (Op::Plus, u8v(3)), (Op::Multiply, u8v(4))]))])]);
    run_and_dump("E8 a+b*c*d", &vec![func("main", vec![], prim(0), vec![
        BodyStatement::Return(ch(u8v(1), vec![(Op::Plus, u8v(2)), (Op::Multiply, u8v(3)), (Op::Multiply, u8v(4))]))])]);
    run_and_dump("E8 a*b*c*d", &vec![func("main", vec![], prim(0), vec![
        BodyStatement::Return(ch(u8v(1), vec![(Op::Multiply, u8v(2)), (Op::Multiply, u8v(3)), (Op::Multiply, u8v(4))]))])]);
    // E9 Expression statement is a return
    run_and_dump("E9 expr stmt", &vec![func("main", vec![], prim(0), vec![
        BodyStatement::Expression(e(u8v(1)))])]);
    // E10 shadowing + sibling blocks + names
    run_and_dump("E10 names", &vec![func("main", vec![("x", prim(0)), ("x.0", prim(0))], prim(0), vec![
        BodyStatement::LetBinding(let_("x", false, None, e(n("x")))),
        BodyStatement::If(ifs(single(e(boolv(true))), IfBodyStatements::If(vec![
            IfBodyStatement::LetBinding(let_("x", false, None, e(n("x")))),
        ]), Some(IfBodyStatements::If(vec![
            IfBodyStatement::LetBinding(let_("x", false, None, e(n("x")))),
            IfBodyStatement::LetBinding(let_("y", false, None, e(n("x")))),
        ])), None)),
        BodyStatement::LetBinding(let_("y", false, None, e(n("x")))),
        BodyStatement::Return(e(n("y")))])]);
    // E11 else-if chain
    run_and_dump("E11 else-if", &vec![f0(), func("main", vec![], prim(0), vec![
        BodyStatement::If(ifs(single(e(boolv(true))), IfBodyStatements::If(vec![IfBodyStatement::FunctionCall(fcall("g", vec![e(u8v(1))]))]), None,
          Some(ifs(single(e(boolv(false))), IfBodyStatements::If(vec![IfBodyStatement::FunctionCall(fcall("g", vec![e(u8v(2))]))]),
             Some(IfBodyStatements::If(vec![IfBodyStatement::FunctionCall(fcall("g", vec![e(u8v(3))]))])), None)))),
        BodyStatement::Return(e(u8v(1)))])]);
    // E12 logic condition
    run_and_dump("E12 logic", &vec![func("main", vec![("a", prim(0))], prim(0), vec![
        BodyStatement::If(ifs(IfCondition::Logic(logic(cmp(e(n("a")), Condition::Eq, e(u8v(1))),
            Some((LogicCondition::And, logic(cmp(e(n("a")), Condition::Less, e(u8v(5))),
               Some((LogicCondition::Or, logic(cmp(e(u8v(1)), Condition::Eq, e(u8v(1))), None)))))))),
            IfBodyStatements::If(vec![IfBodyStatement::Return(e(u8v(9)))]), None, None)),
        BodyStatement::Return(e(u8v(1)))])]);
    // E13 ext
    run_and_dump("E13 ext", &vec![func("main", vec![("a", prim(0))], prim(0), vec![
        BodyStatement::Return(ch(n("a"), vec![(Op::Plus, ext(7, 0)), (Op::Multiply, ext(8, 0))]))])]);
}
