#[path = "../dsl.rs"]
mod dsl;
use dsl::*;
use semantic_analyzer::ast::*;
use semantic_analyzer::semantic::State;
use semantic_analyzer::types::expression::ExpressionResultValue;
use semantic_analyzer::types::semantic::SemanticStackContext;
use std::collections::HashMap;
use ExpressionOperations as Op;

fn reference(vals: &[String], ops: &[Op]) -> String {
    // precedence climbing, left assoc
    fn parse(vals: &[String], ops: &[Op], pos: &mut usize, min: u8) -> String {
        let mut lhs = vals[*pos].clone();
        while *pos < ops.len() && ops[*pos].priority() >= min {
            let op = ops[*pos].clone();
            *pos += 1;
            let rhs = parse(vals, ops, pos, op.priority() + 1);
            lhs = format!("({} {:?} {})", lhs, op, rhs);
        }
        lhs
    }
    let mut pos = 0;
    parse(vals, ops, &mut pos, 0)
}

fn actual(ops: &[Op]) -> Option<String> {
    let n = ops.len();
    let rest: Vec<(Op, EV)> = (0..n).map(|i| (ops[i].clone(), u8v((i + 1) as u8))).collect();
    let prog = vec![func("main", vec![], prim(0), vec![BodyStatement::Return(ch(u8v(0), rest))])];
    let mut st: St = State::new();
    st.run(&prog);
    if !st.errors.is_empty() { return None; }
    let mut regs: HashMap<u64, String> = HashMap::new();
    let mut last = String::new();
    for ins in st.context[0].borrow().get_context().get() {
        let rv = |r: &semantic_analyzer::types::expression::ExpressionResult, regs: &HashMap<u64,String>| match &r.expr_value {
            ExpressionResultValue::PrimitiveValue(p) => p.to_string(),
            ExpressionResultValue::Register(n) => regs.get(n).cloned().unwrap_or(format!("?{n}")),
        };
        match ins {
            SemanticStackContext::ExpressionOperation { operation, left_value, right_value, register_number } => {
                let s = format!("({} {:?} {})", rv(&left_value, &regs), operation, rv(&right_value, &regs));
                regs.insert(register_number, s);
            }
            SemanticStackContext::ExpressionFunctionReturn { expr_result } => last = rv(&expr_result, &regs),
            _ => {}
        }
    }
    Some(last)
}

fn main() {
    let reps = [Op::Multiply, Op::Divide, Op::And, Op::Or, Op::Plus, Op::Minus];
    for n in 1..=5usize {
        let total = reps.len().pow(n as u32);
        let mut bad = 0;
        let mut shown = 0;
        for code in 0..total {
            let mut c = code;
            let ops: Vec<Op> = (0..n).map(|_| { let o = reps[c % 6].clone(); c /= 6; o }).collect();
            let vals: Vec<String> = (0..=n).map(|i| i.to_string()).collect();
            let r = reference(&vals, &ops);
            let a = actual(&ops).unwrap();
            if r != a {
                bad += 1;
                if shown < 12 && n <= 3 { shown += 1; println!("  n={n} ops={:?}\n     ref={r}\n     act={a}", ops.iter().map(|o| o.priority()).collect::<Vec<_>>()); }
            }
        }
        println!("n={n}: {bad}/{total} wrong");
    }
}
