// Exploration only: control-flow equivalence of source vs emitted jump program on random skeletons.
#[path = "../dsl.rs"]
mod dsl;
use dsl::*;
use semantic_analyzer::ast::*;
use semantic_analyzer::semantic::State;
use semantic_analyzer::types::expression::ExpressionResultValue;
use semantic_analyzer::types::semantic::SemanticStackContext as I;
use semantic_analyzer::types::PrimitiveValue as PV;
use std::collections::HashMap;

// own skeleton
#[derive(Clone, Debug)]
enum S {
    Ev(u8),              // call g(k)
    If(Box<IfS>),
    Loop(Vec<S>),
    Ret(u8),
    Break,
    Continue,
}
#[derive(Clone, Debug)]
struct IfS {
    body: Vec<S>,
    els: Option<Vec<S>>,
    elif: Option<Box<IfS>>,
}
struct Rng(u64);
impl Rng {
    fn next(&mut self) -> u64 {
        self.0 ^= self.0 << 13;
        self.0 ^= self.0 >> 7;
        self.0 ^= self.0 << 17;
        self.0
    }
    fn below(&mut self, n: u64) -> u64 {
        self.next() % n
    }
}
struct Gen {
    rng: Rng,
    ev: u8,
}
impl Gen {
    fn body(&mut self, depth: u32, in_loop: bool, fn_level: bool) -> Vec<S> {
        let n = self.rng.below(4);
        let mut v = vec![];
        for _ in 0..n {
            let k = self.rng.below(10);
            let s = match k {
                0..=3 => {
                    self.ev += 1;
                    S::Ev(self.ev)
                }
                4 | 5 if depth > 0 => S::If(Box::new(self.ifs(depth - 1, in_loop))),
                6 if depth > 0 => S::Loop(self.body(depth - 1, true, false)),
                _ => {
                    self.ev += 1;
                    S::Ev(self.ev)
                }
            };
            v.push(s);
        }
        if !fn_level {
            // optional terminator
            match self.rng.below(8) {
                0 => {
                    self.ev += 1;
                    v.push(S::Ret(self.ev))
                }
                1 if in_loop => v.push(S::Break),
                2 if in_loop => v.push(S::Continue),
                _ => {}
            }
        }
        v
    }
    fn ifs(&mut self, depth: u32, in_loop: bool) -> IfS {
        let body = self.body(depth, in_loop, false);
        let (els, elif) = match self.rng.below(4) {
            0 => (Some(self.body(depth, in_loop, false)), None),
            1 if depth > 0 => (None, Some(Box::new(self.ifs(depth - 1, in_loop)))),
            _ => (None, None),
        };
        IfS { body, els, elif }
    }
}

type LB<'a> = LoopBodyStatement<'a, ExtI, Ext>;
fn cond<'a>() -> IfCondition<'a, ExtI, Ext> {
    single(e(boolv(true)))
}
fn evcall<'a>(k: u8) -> FunctionCall<'a, ExtI, Ext> {
    fcall("g", vec![e(u8v(k))])
}
fn to_if<'a>(i: &IfS, in_loop: bool) -> IfStatement<'a, ExtI, Ext> {
    let mk = |b: &Vec<S>| -> IfBodyStatements<'a, ExtI, Ext> {
        if in_loop {
            IfBodyStatements::Loop(
                b.iter()
                    .map(|s| match s {
                        S::Ev(k) => IfLoopBodyStatement::FunctionCall(evcall(*k)),
                        S::If(i) => IfLoopBodyStatement::If(to_if(i, true)),
                        S::Loop(b) => IfLoopBodyStatement::Loop(to_loop(b)),
                        S::Ret(k) => IfLoopBodyStatement::Return(e(u8v(*k))),
                        S::Break => IfLoopBodyStatement::Break,
                        S::Continue => IfLoopBodyStatement::Continue,
                    })
                    .collect(),
            )
        } else {
            IfBodyStatements::If(
                b.iter()
                    .map(|s| match s {
                        S::Ev(k) => IfBodyStatement::FunctionCall(evcall(*k)),
                        S::If(i) => IfBodyStatement::If(to_if(i, false)),
                        S::Loop(b) => IfBodyStatement::Loop(to_loop(b)),
                        S::Ret(k) => IfBodyStatement::Return(e(u8v(*k))),
                        _ => unreachable!(),
                    })
                    .collect(),
            )
        }
    };
    IfStatement {
        condition: cond(),
        body: mk(&i.body),
        else_statement: i.els.as_ref().map(|b| mk(b)),
        else_if_statement: i.elif.as_ref().map(|x| Box::new(to_if(x, in_loop))),
    }
}
fn to_loop<'a>(b: &Vec<S>) -> Vec<LB<'a>> {
    b.iter()
        .map(|s| match s {
            S::Ev(k) => LoopBodyStatement::FunctionCall(evcall(*k)),
            S::If(i) => LoopBodyStatement::If(to_if(i, true)),
            S::Loop(b) => LoopBodyStatement::Loop(to_loop(b)),
            S::Ret(k) => LoopBodyStatement::Return(e(u8v(*k))),
            S::Break => LoopBodyStatement::Break,
            S::Continue => LoopBodyStatement::Continue,
        })
        .collect()
}
fn to_fn<'a>(b: &Vec<S>, last: u8) -> Vec<BodyStatement<'a, ExtI, Ext>> {
    let mut v: Vec<BodyStatement<'a, ExtI, Ext>> = b
        .iter()
        .map(|s| match s {
            S::Ev(k) => BodyStatement::FunctionCall(evcall(*k)),
            S::If(i) => BodyStatement::If(to_if(i, false)),
            S::Loop(b) => BodyStatement::Loop(to_loop(b)),
            _ => unreachable!(),
        })
        .collect();
    v.push(BodyStatement::Return(e(u8v(last))));
    v
}

// source semantics
#[derive(PartialEq, Debug)]
enum Flow {
    Next,
    Brk,
    Cont,
    Ret,
    Stop, // oracle or budget exhausted
}
struct Src<'o> {
    oracle: &'o [bool],
    pos: usize,
    trace: Vec<i32>,
    budget: usize,
}
impl<'o> Src<'o> {
    fn tick(&mut self) -> bool {
        if self.budget == 0 {
            return false;
        }
        self.budget -= 1;
        true
    }
    fn stmts(&mut self, b: &[S]) -> Flow {
        for s in b {
            let f = self.stmt(s);
            if f != Flow::Next {
                return f;
            }
        }
        Flow::Next
    }
    fn stmt(&mut self, s: &S) -> Flow {
        match s {
            S::Ev(k) => {
                if !self.tick() {
                    return Flow::Stop;
                }
                self.trace.push(*k as i32);
                Flow::Next
            }
            S::Ret(k) => {
                self.trace.push(-(*k as i32));
                Flow::Ret
            }
            S::Break => Flow::Brk,
            S::Continue => Flow::Cont,
            S::If(i) => self.ifs(i),
            S::Loop(b) => loop {
                if !self.tick() {
                    return Flow::Stop;
                }
                match self.stmts(b) {
                    Flow::Next | Flow::Cont => continue,
                    Flow::Brk => return Flow::Next,
                    Flow::Ret => return Flow::Ret,
                    Flow::Stop => return Flow::Stop,
                }
            },
        }
    }
    fn ifs(&mut self, i: &IfS) -> Flow {
        if self.pos >= self.oracle.len() {
            return Flow::Stop;
        }
        let c = self.oracle[self.pos];
        self.pos += 1;
        if c {
            self.stmts(&i.body)
        } else if let Some(e) = &i.els {
            self.stmts(e)
        } else if let Some(e) = &i.elif {
            self.ifs(e)
        } else {
            Flow::Next
        }
    }
}

fn lit(r: &semantic_analyzer::types::expression::ExpressionResult) -> i32 {
    match &r.expr_value {
        ExpressionResultValue::PrimitiveValue(PV::U8(k)) => *k as i32,
        _ => 0,
    }
}
// jump semantics; returns (trace, status) status: "ret","stop","falloff","badlabel"
fn run_jump(stack: &[I<ExtI>], oracle: &[bool], budget: usize) -> (Vec<i32>, &'static str) {
    let mut labels: HashMap<String, usize> = HashMap::new();
    for (i, ins) in stack.iter().enumerate() {
        if let I::SetLabel { label } = ins {
            labels.insert(label.to_string(), i);
        }
    }
    let mut pc = 0;
    let mut pos = 0;
    let mut trace = vec![];
    let mut steps = 0;
    loop {
        if pc >= stack.len() {
            return (trace, "falloff");
        }
        steps += 1;
        if steps > budget {
            return (trace, "stop");
        }
        match &stack[pc] {
            I::SetLabel { .. } => pc += 1,
            I::JumpTo { label } => match labels.get(&label.to_string()) {
                Some(i) => pc = *i,
                None => return (trace, "badlabel"),
            },
            I::IfConditionExpression {
                label_if_begin,
                label_if_end,
                ..
            } => {
                if pos >= oracle.len() {
                    return (trace, "stop");
                }
                let c = oracle[pos];
                pos += 1;
                let l = if c { label_if_begin } else { label_if_end };
                match labels.get(&l.to_string()) {
                    Some(i) => pc = *i,
                    None => return (trace, "badlabel"),
                }
            }
            I::Call { params, .. } => {
                trace.push(lit(&params[0]));
                pc += 1;
            }
            I::JumpFunctionReturn { expr_result }
            | I::ExpressionFunctionReturn { expr_result }
            | I::ExpressionFunctionReturnWithLabel { expr_result } => {
                trace.push(-lit(expr_result));
                return (trace, "ret");
            }
            _ => pc += 1,
        }
    }
}

fn has_f2(b: &[S], in_if_body: bool) -> bool {
    for (i, s) in b.iter().enumerate() {
        match s {
            S::If(x) => {
                if in_if_body && i + 1 < b.len() {
                    return true;
                }
                if if_has_f2(x) {
                    return true;
                }
            }
            S::Loop(l) => {
                if has_f2(l, false) {
                    return true;
                }
            }
            _ => {}
        }
    }
    false
}
fn if_has_f2(x: &IfS) -> bool {
    has_f2(&x.body, true)
        || x.els.as_ref().map_or(false, |e| has_f2(e, true))
        || x.elif.as_ref().map_or(false, |e| if_has_f2(e))
}
fn contains_break_outside_nested_loops(b: &[S]) -> bool {
    b.iter().any(|s| match s {
        S::Break => true,
        S::If(x) => if_break(x),
        _ => false,
    })
}
fn if_break(x: &IfS) -> bool {
    contains_break_outside_nested_loops(&x.body)
        || x.els.as_ref().map_or(false, |e| contains_break_outside_nested_loops(e))
        || x.elif.as_ref().map_or(false, |e| if_break(e))
}
fn has_f3(b: &[S]) -> bool {
    b.iter().any(|s| match s {
        S::Loop(l) => {
            (l.iter().any(|x| matches!(x, S::Ret(_))) && contains_break_outside_nested_loops(l)) || has_f3(l)
        }
        S::If(x) => if_f3(x),
        _ => false,
    })
}
fn if_f3(x: &IfS) -> bool {
    has_f3(&x.body) || x.els.as_ref().map_or(false, |e| has_f3(e)) || x.elif.as_ref().map_or(false, |e| if_f3(e))
}

fn main() {
    let n: u64 = std::env::args().nth(1).map(|s| s.parse().unwrap()).unwrap_or(20000);
    let mut gen = Gen { rng: Rng(0x1234_5678_9abc_def1), ev: 0 };
    let (mut total, mut accepted, mut bad_known, mut bad_new, mut f2n, mut f3n) = (0, 0, 0, 0, 0, 0);
    let mut shown = 0;
    for _ in 0..n {
        gen.ev = 0;
        let body = gen.body(3, false, true);
        gen.ev += 1;
        let last = gen.ev;
        let prog = vec![
            func("g", vec![("a", prim(0))], prim(0), vec![BodyStatement::Return(e(n_("a")))]),
            func("main", vec![], prim(0), to_fn(&body, last)),
        ];
        total += 1;
        let mut st: St = State::new();
        st.run(&prog);
        if !st.errors.is_empty() {
            continue;
        }
        accepted += 1;
        let stack = st.context[1].borrow().get_context().get();
        let f2 = has_f2(&body, false);
        let f3 = has_f3(&body);
        if f2 { f2n += 1; }
        if f3 { f3n += 1; }
        let mut mismatch = None;
        'o: for len in 0..=6usize {
            for code in 0..(1u32 << len) {
                let oracle: Vec<bool> = (0..len).map(|i| (code >> i) & 1 == 1).collect();
                let mut src = Src { oracle: &oracle, pos: 0, trace: vec![], budget: 60 };
                let mut full = body.clone();
                full.push(S::Ret(last));
                let flow = src.stmts(&full);
                let (jt, status) = run_jump(&stack, &oracle, 4000);
                let ok = match (flow, status) {
                    (Flow::Ret, "ret") => src.trace == jt,
                    (Flow::Stop, "stop") => {
                        let m = src.trace.len().min(jt.len());
                        src.trace[..m] == jt[..m]
                    }
                    (Flow::Stop, "ret") | (Flow::Ret, "stop") => {
                        let m = src.trace.len().min(jt.len());
                        src.trace[..m] == jt[..m]
                    }
                    _ => false,
                };
                if !ok {
                    mismatch = Some((oracle.clone(), src.trace.clone(), jt, status));
                    break 'o;
                }
            }
        }
        if let Some((o, s, j, status)) = mismatch {
            if f2 || f3 {
                bad_known += 1;
            } else {
                bad_new += 1;
                if shown < 5 {
                    shown += 1;
                    println!("NEW MISMATCH body={:?}\n oracle={:?}\n src={:?}\n jmp={:?} status={}", body, o, s, j, status);
                    for ins in &stack { println!("    {}", show(ins)); }
                }
            }
        }
    }
    println!("total={total} accepted={accepted} f2-shaped={f2n} f3-shaped={f3n} mismatch_in_known_shapes={bad_known} mismatch_new={bad_new}");
}
fn n_(s: &str) -> EV<'_> { n(s) }
