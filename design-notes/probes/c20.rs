use semantic_analyzer::ast::*;
use semantic_analyzer::types::types as sty;
fn main() {
    let attrs: Vec<StructType> = ["a","b","c","d","e","f","g"].iter().map(|n| StructType{attr_name: Ident::new(n), attr_type: Type::Primitive(PrimitiveTypes::U8)}).collect();
    let st = StructTypes{ name: Ident::new("S"), attributes: attrs };
    let sem: sty::StructTypes = st.clone().into();
    let mut diff = 0;
    for _ in 0..20 {
        let t1 = serde_json::to_string(&sem).unwrap();
        let back: sty::StructTypes = serde_json::from_str(&t1).unwrap();
        assert_eq!(back, sem);
        let t2 = serde_json::to_string(&back).unwrap();
        if t1 != t2 { diff += 1; }
    }
    println!("semantic StructTypes: re-serialised text differs in {diff}/20 round trips");
    // floats
    let mut bad64 = 0; let mut bad32 = 0;
    let mut x: u64 = 0x9E3779B97F4A7C15;
    for _ in 0..2_000_000 {
        x ^= x << 13; x ^= x >> 7; x ^= x << 17;
        let f = f64::from_bits(x);
        if f.is_finite() {
            let v = PrimitiveValue::F64(f);
            let t = serde_json::to_string(&v).unwrap();
            let b: PrimitiveValue = serde_json::from_str(&t).unwrap();
            if b != v { bad64 += 1; if bad64 <= 3 { println!("f64 mismatch: {t} -> {:?}", b); } }
        }
        let g = f32::from_bits(x as u32);
        if g.is_finite() {
            let v = PrimitiveValue::F32(g);
            let t = serde_json::to_string(&v).unwrap();
            let b: PrimitiveValue = serde_json::from_str(&t).unwrap();
            if b != v { bad32 += 1; if bad32 <= 3 { println!("f32 mismatch: {t} -> {:?}", b); } }
        }
    }
    println!("f64 bad={bad64} f32 bad={bad32}");
    // AST with ident
    let id = Ident::new("héllo.0");
    let t = serde_json::to_string(&id).unwrap();
    println!("{t}");
    let b: Ident = serde_json::from_str(&t).unwrap();
    println!("eq={}", b == id);
    // escaped chars: borrowed str deserialisation from JSON with escapes fails?
    let id2 = Ident::new("a\"b\\c\n");
    let t2 = serde_json::to_string(&id2).unwrap();
    println!("{t2}");
    let r: Result<Ident, _> = serde_json::from_str(&t2);
    println!("escaped ident deser: {:?}", r.map(|i| i == id2));
}
