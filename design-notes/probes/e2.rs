#[path = "../dsl.rs"]
mod dsl;
use dsl::*;
use semantic_analyzer::ast::*;
use ExpressionOperations as Op;
fn cst<'a>(name: &'a str, ty: Type<'a>, head: ConstantValue<'a>, rest: Vec<(Op, ConstantValue<'a>)>) -> MainStatement<'a, ExtI, Ext> {
    let mut tail: Option<(Op, Box<ConstantExpression<'a>>)> = None;
    for (o, v) in rest.into_iter().rev() {
        tail = Some((o, Box::new(ConstantExpression { value: v, operation: tail.take() })));
    }
    MainStatement::Constant(Constant { name: ConstantName::new(id(name)), constant_type: ty, constant_value: ConstantExpression { value: head, operation: tail } })
}
fn cn(s: &str) -> ConstantValue<'_> { ConstantValue::Constant(ConstantName::new(id(s))) }
fn cv<'a>(v: u8) -> ConstantValue<'a> { ConstantValue::Value(PrimitiveValue::U8(v)) }
fn main() {
    let ret1 = || vec![BodyStatement::Return(e(u8v(1)))];
    run_and_dump("F6a const head undeclared", &vec![cst("A", prim(0), cn("ZZ"), vec![]), func("main", vec![], prim(0), ret1())]);
    run_and_dump("F6b const after literal undeclared", &vec![cst("A", prim(0), cv(1), vec![(Op::Plus, cv(2)), (Op::Plus, cn("ZZ"))]), func("main", vec![], prim(0), ret1())]);
    run_and_dump("F6c const directly after head undeclared (checked)", &vec![cst("A", prim(0), cv(1), vec![(Op::Plus, cn("ZZ"))]), func("main", vec![], prim(0), ret1())]);
    // F9 struct attr of undeclared struct type
    let undeclared = Type::Struct(StructTypes { name: id("T"), attributes: vec![] });
    run_and_dump("F9 struct attr undeclared", &vec![MainStatement::Types(StructTypes { name: id("S"), attributes: vec![StructType { attr_name: id("a"), attr_type: undeclared.clone() }] }), func("main", vec![], prim(0), ret1())]);
    // duplicate params
    run_and_dump("dup params", &vec![func("main", vec![("a", prim(0)), ("a", prim(1)), ("b", prim(0))], prim(0), vec![BodyStatement::Return(e(n("b")))])]);
    // both else and else-if
    run_and_dump("else + else-if", &vec![func("main", vec![], prim(0), vec![
        BodyStatement::If(ifs(single(e(boolv(true))), IfBodyStatements::If(vec![]), Some(IfBodyStatements::If(vec![])), Some(ifs(single(e(boolv(true))), IfBodyStatements::If(vec![]), None, None)))),
        BodyStatement::Return(e(u8v(1)))])]);
    // undeclared type in signature; function still analysed; call to it -> FunctionNotFound
    run_and_dump("sig undeclared type", &vec![func("g", vec![("p", undeclared.clone())], prim(0), ret1()), func("main", vec![], prim(0), vec![BodyStatement::Return(e(call("g", vec![e(u8v(1))])))])]);
    // loop flavoured body outside loop -> documented panic
    run_and_dump("loop-flavoured outside loop", &vec![func("main", vec![], prim(0), vec![
        BodyStatement::If(ifs(single(e(boolv(true))), IfBodyStatements::Loop(vec![IfLoopBodyStatement::Break]), None, None)),
        BodyStatement::Return(e(u8v(1)))])]);
    // return in loop at top then code after loop
    run_and_dump("code after break in loop", &vec![func("main", vec![], prim(0), vec![
        BodyStatement::Loop(vec![LoopBodyStatement::Break, LoopBodyStatement::Continue]),
        BodyStatement::Return(e(u8v(1)))])]);
    // array type
    run_and_dump("array type param", &vec![func("main", vec![("p", Type::Array(Box::new(prim(0)), 3))], prim(0), ret1())]);
    // value vs const same name; const in body
    run_and_dump("const vs value", &vec![cst("x", prim(1), cv(1), vec![]), func("main", vec![], prim(1), vec![
        BodyStatement::LetBinding(let_("y", false, None, e(n("x")))),
        BodyStatement::LetBinding(let_("x", false, None, e(u8v(3)))),
        BodyStatement::LetBinding(let_("z", false, None, e(n("x")))),
        BodyStatement::Return(e(n("y")))])]);
    // struct value
    let s_decl = StructTypes { name: id("S"), attributes: vec![StructType { attr_name: id("a"), attr_type: prim(0) }, StructType { attr_name: id("b"), attr_type: prim(10) }] };
    run_and_dump("struct field", &vec![MainStatement::Types(s_decl.clone()), func("main", vec![("s", Type::Struct(s_decl.clone()))], prim(10), vec![
        BodyStatement::Return(ch(sv("s", "b"), vec![(Op::And, boolv(true))]))])]);
    // names with dots
    run_and_dump("dotted", &vec![func("main", vec![], prim(0), vec![
        BodyStatement::LetBinding(let_("a.b.c", false, None, e(u8v(1)))),
        BodyStatement::LetBinding(let_("a", false, None, e(u8v(1)))),
        BodyStatement::LetBinding(let_("a.+5", false, None, e(u8v(1)))),
        BodyStatement::LetBinding(let_("a.+5", false, None, e(u8v(1)))),
        BodyStatement::LetBinding(let_("", false, None, e(u8v(1)))),
        BodyStatement::LetBinding(let_(".", false, None, e(u8v(1)))),
        BodyStatement::LetBinding(let_("q.x", false, None, e(u8v(1)))),
        BodyStatement::LetBinding(let_("q.007", false, None, e(u8v(1)))),
        BodyStatement::Return(e(u8v(1)))])]);
}
