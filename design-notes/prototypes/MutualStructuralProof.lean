inductive Op | plus | minus | mul
deriving DecidableEq, Repr
mutual
inductive EVal : Type
  | name (s : List Char)
  | lit (n : Nat)
  | call (f : List Char) (args : List Expr)
  | sub (e : Expr)
inductive Expr : Type
  | mk (v : EVal) (rest : Option (Op × Expr))
end

structure St where
  reg : Nat
  out : List Nat   -- result registers emitted

abbrev M (α) := St → α × St
def fresh : M Nat := fun s => (s.reg+1, {reg := s.reg+1, out := s.out ++ [s.reg+1]})

inductive W (α : Type) | atom (a : α) | pair (l : W α) (op : Op) (r : W α)

def runW : W (M Nat) → M Nat
  | .atom c => c
  | .pair l _ r => fun s =>
      let (_, s1) := runW l s
      let (_, s2) := runW r s1
      fresh s2

def W.atoms {α} : W α → List α
  | .atom a => [a]
  | .pair l _ r => l.atoms ++ r.atoms

-- stand-in fold: left nested
def foldL {α} : W α → List (Op × α) → W α
  | acc, [] => acc
  | acc, (o, v) :: tl => foldL (.pair acc o (.atom v)) tl

mutual
def evalExpr : Expr → M Nat
  | .mk v rest => runW (foldL (.atom (evalVal v)) (restChain rest))
def restChain : Option (Op × Expr) → List (Op × M Nat)
  | none => []
  | some (op, .mk v rest) => (op, evalVal v) :: restChain rest
def evalVal : EVal → M Nat
  | .name _ => fresh
  | .lit n => fun s => (n, s)
  | .sub e => evalExpr e
  | .call _ args => fun s => let (_, s1) := evalArgs args s; fresh s1
def evalArgs : List Expr → M Unit
  | [] => fun s => ((), s)
  | e :: es => fun s => let (_, s1) := evalExpr e s; evalArgs es s1
end

/-- the property of a computation: registers only grow -/
def Mono {α} (c : M α) : Prop := ∀ s, s.reg ≤ (c s).2.reg

theorem mono_fresh : Mono fresh := by intro s; simp [fresh]
theorem mono_runW (w : W (M Nat)) (h : ∀ c ∈ w.atoms, Mono c) : Mono (runW w) := by
  induction w with
  | atom c => exact h c (by simp [W.atoms])
  | pair l o r ihl ihr =>
    intro s
    have hl := ihl (fun c hc => h c (by simp [W.atoms, hc])) s
    have hr := ihr (fun c hc => h c (by simp [W.atoms, hc])) (runW l s).2
    have hf := mono_fresh (runW r (runW l s).2).2
    simp only [runW]
    omega
theorem atoms_foldL {α} (acc : W α) (l : List (Op × α)) :
    (foldL acc l).atoms = acc.atoms ++ l.map (·.2) := by
  induction l generalizing acc with
  | nil => simp [foldL]
  | cons x tl ih => simp [foldL, ih, W.atoms]

mutual
theorem mono_evalExpr : ∀ e, Mono (evalExpr e)
  | .mk v rest => by
    simp only [evalExpr]
    apply mono_runW
    intro c hc
    rw [atoms_foldL] at hc
    simp [W.atoms] at hc
    rcases hc with rfl | ⟨o, hc⟩
    · exact mono_evalVal v
    · exact mono_restChain rest _ _ hc
theorem mono_restChain : ∀ r, ∀ o c, (o, c) ∈ restChain r → Mono c
  | none => by intro o c h; simp [restChain] at h
  | some (op, .mk v rest) => by
    intro o c h
    simp [restChain] at h
    rcases h with ⟨_, rfl⟩ | h
    · exact mono_evalVal v
    · exact mono_restChain rest o c h
theorem mono_evalVal : ∀ v, Mono (evalVal v)
  | .name _ => by simp only [evalVal]; exact mono_fresh
  | .lit n => by intro s; simp [evalVal]
  | .sub e => by simp only [evalVal]; exact mono_evalExpr e
  | .call _ args => by
    intro s
    have h1 := mono_evalArgs args s
    have h2 := mono_fresh (evalArgs args s).2
    simp only [evalVal]; omega
theorem mono_evalArgs : ∀ as, Mono (evalArgs as)
  | [] => by intro s; simp [evalArgs]
  | e :: es => by
    intro s
    have h1 := mono_evalExpr e s
    have h2 := mono_evalArgs es (evalExpr e s).2
    simp only [evalArgs]; omega
end
#print axioms mono_evalExpr
