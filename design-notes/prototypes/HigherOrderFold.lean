inductive Op | plus | minus | mul
deriving DecidableEq, Repr
def Op.prio : Op → Nat | .plus => 5 | .minus => 4 | .mul => 9

mutual
inductive EVal : Type
  | name (s : List Char)
  | lit (n : Nat)
  | call (f : List Char) (args : List Expr)
  | sub (e : Expr)
inductive Expr : Type
  | mk (v : EVal) (rest : Option (Op × Expr))
end

/-- generic wrapped value -/
inductive W (α : Type) | atom (a : α) | pair (l : W α) (op : Op) (r : W α)

/-- precedence fold over a flat chain given as head + list of (op, value) -/
def reduce {α} : List (W α) → List Op → List (W α) × List Op
  | r :: l :: vs, op :: ops => (W.pair l op r :: vs, ops)
  | vs, ops => (vs, ops)

def popWhile {α} (p : Nat) : Nat → List (W α) → List Op → List (W α) × List Op
  | 0, vs, ops => (vs, ops)
  | fuel+1, vs, ops =>
    match ops with
    | o :: _ => if o.prio ≥ p then
        let (vs', ops') := reduce vs ops
        popWhile p fuel vs' ops'
      else (vs, ops)
    | [] => (vs, ops)

def foldChain {α} (v0 : α) (rest : List (Op × α)) : W α :=
  let rec go : List (Op × α) → List (W α) → List Op → List (W α) × List Op
    | [], vs, ops => (vs, ops)
    | (o, v) :: tl, vs, ops =>
      let (vs', ops') := popWhile o.prio ops.length vs ops
      go tl (W.atom v :: vs') (o :: ops')
  let (vs, ops) := go rest [W.atom v0] []
  let (vs, _) := popWhile 0 ops.length vs ops
  match vs with
  | [w] => w
  | _ => W.atom v0

abbrev M := StateM (Nat × List String)   -- reg, emitted
def emit (s : String) : M Unit := modify fun (r, out) => (r, out ++ [s])
def fresh : M Nat := do let (r, out) ← get; set (r+1, out); pure (r+1)

def runW : W (M String) → M String
  | .atom c => c
  | .pair l op r => do
      let a ← runW l
      let b ← runW r
      let n ← fresh
      emit s!"%{n} = {repr op} {a} {b}"
      pure s!"%{n}"

mutual
def evalExpr : Expr → M String
  | .mk v rest => runW (foldChain (evalVal v) (restChain rest))
def restChain : Option (Op × Expr) → List (Op × M String)
  | none => []
  | some (op, .mk v rest) => (op, evalVal v) :: restChain rest
def evalVal : EVal → M String
  | .name s => do let n ← fresh; emit s!"%{n} = load {String.ofList s}"; pure s!"%{n}"
  | .lit n => pure (toString n)
  | .sub e => evalExpr e
  | .call f args => do
      let as ← evalArgs args
      let n ← fresh
      emit s!"%{n} = call {String.ofList f} {as}"
      pure s!"%{n}"
def evalArgs : List Expr → M (List String)
  | [] => pure []
  | e :: es => do let a ← evalExpr e; let r ← evalArgs es; pure (a :: r)
end

def ex1 : Expr := .mk (.name ['a']) (some (.plus, .mk (.lit 2) (some (.mul, .mk (.sub (.mk (.lit 3) (some (.minus, .mk (.lit 4) none)))) (some (.mul, .mk (.lit 5) none))))))
#eval (evalExpr ex1).run (0, [])
#print axioms evalExpr
