/-! Feasibility prototype for T3 / C10_unique: statement-level mutual structural recursion over the
    frames model, with the invariant "labels set in the root stack are pairwise distinct and
    registered" and the frame property "a registered label that is unset stays unset unless the
    construct allocated it". The probe is abstract: any function returning an unused name. -/
abbrev Name := List Char
inductive Instr | setLabel (l : Name) | jump (l : Name) | br (b e : Name) | ev (n : Nat) | jret (n : Nat)
deriving DecidableEq, Repr

mutual
inductive IfStmt : Type
  | mk (body : IfBodies) (els : Option IfBodies) (elif : Option IfStmt)
inductive IfBodies : Type
  | ifb (l : List IfBodyStmt)
  | loopb (l : List IfLoopStmt)
inductive IfBodyStmt : Type
  | ev (n : Nat) | ifs (s : IfStmt) | loop (l : List LoopStmt) | ret (n : Nat)
inductive IfLoopStmt : Type
  | ev (n : Nat) | ifs (s : IfStmt) | loop (l : List LoopStmt) | ret (n : Nat) | brk | cont
inductive LoopStmt : Type
  | ev (n : Nat) | ifs (s : IfStmt) | loop (l : List LoopStmt) | ret (n : Nat) | brk | cont
end

structure Block where
  labels : List Name
  ret : Bool
  ctx : List Instr
  nchildren : Nat

/-- live frames: `inner` (innermost first) above the `root` -/
structure St where
  inner : List Block
  root : Block
  panic : Bool := false

def Block.push (b : Block) (i : Instr) : Block := { b with ctx := b.ctx ++ [i] }
def St.push (s : St) (i : Instr) : St := { s with inner := s.inner.map (·.push i), root := s.root.push i }
def St.top (s : St) : Block := s.inner.headD s.root
def St.enter (s : St) : St :=
  { s with inner := { labels := s.top.labels, ret := s.top.ret, ctx := [], nchildren := 0 } :: s.inner }
def St.leave (s : St) : St :=
  match s.inner with
  | _ :: p :: rest => { s with inner := { p with nchildren := p.nchildren + 1 } :: rest }
  | [_] => { s with inner := [], root := { s.root with nchildren := s.root.nchildren + 1 } }
  | [] => s
def St.setRet (s : St) : St :=
  { s with inner := s.inner.map (fun b => { b with ret := true }), root := { s.root with ret := true } }
def St.used (s : St) : List Name := s.root.labels ++ (s.inner.map (·.labels)).flatten

variable (pick : List Name → Name → Name)

def freshLabel (s : St) (stem : Name) : Name × St :=
  let l := pick s.used stem
  (l, { s with inner := s.inner.map (fun b => { b with labels := l :: b.labels }),
               root := { s.root with labels := l :: s.root.labels } })

structure IfCtx where
  lBegin : Name
  lElse : Name
  lEnd : Name

/-- non-recursive prologue of `if_condition`: child block, label probes, branch, begin label -/
def ifPrologue (s : St) (labelEnd : Option Name) (isElse : Bool) : IfCtx × St :=
  let s := s.enter
  let r1 := freshLabel pick s "if_begin".toList
  let r2 := freshLabel pick r1.2 "if_else".toList
  let r3 := match labelEnd with
    | some l => (l, r2.2)
    | none => freshLabel pick r2.2 "if_end".toList
  let s := r3.2.push (.br r1.1 (if isElse then r2.1 else r3.1))
  (⟨r1.1, r2.1, r3.1⟩, s.push (.setLabel r1.1))

/-- after the main body: jump to end unless it returned, else label, suspend the block -/
def ifAfterBody (c : IfCtx) (isElse : Bool) (rb : St × Bool) : St :=
  let s := if rb.2 then rb.1 else rb.1.push (.jump c.lEnd)
  let s := if isElse then s.push (.setLabel c.lElse) else s
  s.leave

def ifAfterElse (c : IfCtx) (re : St × Bool) : St :=
  let s := re.1.leave
  if re.2 then s else s.push (.jump c.lEnd)

def ifEpilogue (c : IfCtx) (labelEnd : Option Name) (s : St) : St :=
  if labelEnd.isSome then s else s.push (.setLabel c.lEnd)

def loopPrologue (s : St) : (Name × Name) × St :=
  let s := s.enter
  let r1 := freshLabel pick s "loop_begin".toList
  let r2 := freshLabel pick r1.2 "loop_end".toList
  ((r1.1, r2.1), (r2.2.push (.jump r1.1)).push (.setLabel r1.1))

def loopEpilogue (ls : Name × Name) (rb : St × Bool) : St :=
  let s := if rb.2 then rb.1 else (rb.1.push (.jump ls.1)).push (.setLabel ls.2)
  s.leave

mutual
def ifCondition (s : St) : IfStmt → Option Name → Option (Name × Name) → St
  | .mk body els elif, labelEnd, labelLoop =>
    let isElse := els.isSome || elif.isSome
    let p := ifPrologue pick s labelEnd isElse
    let s := ifAfterBody p.1 isElse (ifBodies p.2 body p.1.lEnd labelLoop)
    let s := match els, elif with
      | some eb, _ => ifAfterElse p.1 (ifBodies s.enter eb p.1.lEnd labelLoop)
      | none, some ei => ifCondition s ei (some p.1.lEnd) labelLoop
      | none, none => s
    ifEpilogue p.1 labelEnd s
def ifBodies (s : St) : IfBodies → Name → Option (Name × Name) → St × Bool
  | .ifb l, lEnd, labelLoop => ifBody s l lEnd labelLoop false
  | .loopb l, lEnd, some (lb, le) => ifLoopBody s l lEnd lb le false
  | .loopb _, _, none => ({ s with panic := true }, false)
def ifBody (s : St) : List IfBodyStmt → Name → Option (Name × Name) → Bool → St × Bool
  | [], _, _, r => (s, r)
  | .ev n :: tl, lEnd, ll, r => ifBody (s.push (.ev n)) tl lEnd ll r
  | .ifs i :: tl, lEnd, ll, r => ifBody (ifCondition s i (some lEnd) ll) tl lEnd ll r
  | .loop b :: tl, lEnd, ll, r => ifBody (loopStmt s b) tl lEnd ll r
  | .ret n :: tl, lEnd, ll, _ => ifBody ((s.push (.jret n)).setRet) tl lEnd ll true
def ifLoopBody (s : St) : List IfLoopStmt → Name → Name → Name → Bool → St × Bool
  | [], _, _, _, r => (s, r)
  | .ev n :: tl, lEnd, lb, le, r => ifLoopBody (s.push (.ev n)) tl lEnd lb le r
  | .ifs i :: tl, lEnd, lb, le, r => ifLoopBody (ifCondition s i (some lEnd) (some (lb, le))) tl lEnd lb le r
  | .loop b :: tl, lEnd, lb, le, r => ifLoopBody (loopStmt s b) tl lEnd lb le r
  | .ret n :: tl, lEnd, lb, le, _ => ifLoopBody ((s.push (.jret n)).setRet) tl lEnd lb le true
  | .brk :: tl, lEnd, lb, le, r => ifLoopBody (s.push (.jump le)) tl lEnd lb le r
  | .cont :: tl, lEnd, lb, le, r => ifLoopBody (s.push (.jump lb)) tl lEnd lb le r
def loopStmt (s : St) : List LoopStmt → St
  | body =>
    let p := loopPrologue pick s
    loopEpilogue p.1 (loopBody p.2 body p.1.1 p.1.2 false)
def loopBody (s : St) : List LoopStmt → Name → Name → Bool → St × Bool
  | [], _, _, r => (s, r)
  | .ev n :: tl, lb, le, r => loopBody (s.push (.ev n)) tl lb le r
  | .ifs i :: tl, lb, le, r => loopBody (ifCondition s i none (some (lb, le))) tl lb le r
  | .loop b :: tl, lb, le, r => loopBody (loopStmt s b) tl lb le r
  | .ret n :: tl, lb, le, _ => loopBody ((s.push (.jret n)).setRet) tl lb le true
  | .brk :: tl, lb, le, r => loopBody (s.push (.jump le)) tl lb le r
  | .cont :: tl, lb, le, r => loopBody (s.push (.jump lb)) tl lb le r
end

/-! ### invariant and frame property -/

def setLabels (c : List Instr) : List Name :=
  c.filterMap fun | .setLabel l => some l | _ => none

/-- labels set in the root stack are pairwise distinct and registered -/
def LInv (s : St) : Prop :=
  (setLabels s.root.ctx).Nodup ∧ ∀ l ∈ setLabels s.root.ctx, l ∈ s.root.labels

/-- `s'` extends `s`: registry grows; registered-but-unset labels of `s` are still unset -/
def Ext (s s' : St) : Prop :=
  (∀ l ∈ s.root.labels, l ∈ s'.root.labels) ∧
  (∀ l ∈ s.root.labels, l ∉ setLabels s.root.ctx → l ∉ setLabels s'.root.ctx)

def Good (s s' : St) : Prop := LInv s → LInv s' ∧ Ext s s'

theorem Ext.refl (s : St) : Ext s s := ⟨fun _ h => h, fun _ _ h => h⟩
theorem Ext.trans {a b c : St} (h1 : Ext a b) (h2 : Ext b c) : Ext a c :=
  ⟨fun l h => h2.1 l (h1.1 l h), fun l h hn => h2.2 l (h1.1 l h) (h1.2 l h hn)⟩
theorem Good.refl (s : St) : Good s s := fun h => ⟨h, Ext.refl s⟩
theorem Good.trans {a b c : St} (h1 : Good a b) (h2 : Good b c) : Good a c := fun h =>
  let ⟨i1, e1⟩ := h1 h
  let ⟨i2, e2⟩ := h2 i1
  ⟨i2, e1.trans e2⟩

/-- operations that leave the root's registry and label-setting instructions alone -/
theorem good_of_same {s s' : St} (hl : s'.root.labels = s.root.labels)
    (hc : setLabels s'.root.ctx = setLabels s.root.ctx) : Good s s' := by
  intro ⟨h1, h2⟩
  refine ⟨⟨by rw [hc]; exact h1, by rw [hc, hl]; exact h2⟩, ⟨by rw [hl]; exact fun _ h => h, ?_⟩⟩
  rw [hc]; exact fun _ _ h => h

theorem setLabels_append (a b : List Instr) : setLabels (a ++ b) = setLabels a ++ setLabels b := by
  simp [setLabels, List.filterMap_append]

theorem setLabels_snoc_other (c : List Instr) (i : Instr) (h : ∀ l, i ≠ .setLabel l) :
    setLabels (c ++ [i]) = setLabels c := by
  rw [setLabels_append]
  cases i <;> simp_all [setLabels]

theorem good_push_other (s : St) (i : Instr) (h : ∀ l, i ≠ .setLabel l) : Good s (s.push i) := by
  apply good_of_same
  · rfl
  · simp only [St.push, Block.push, setLabels_append]
    cases i <;> simp_all [setLabels]

theorem good_enter (s : St) : Good s s.enter := good_of_same rfl rfl
theorem good_setRet (s : St) : Good s s.setRet := good_of_same rfl rfl
theorem good_leave (s : St) : Good s s.leave := by
  apply good_of_same <;> (unfold St.leave; split <;> rfl)
theorem good_panic (s : St) : Good s { s with panic := true } := good_of_same rfl rfl

variable (hpick : ∀ used stem, pick used stem ∉ used)
include hpick

theorem fresh_spec (s : St) (stem : Name) :
    let r := freshLabel pick s stem
    r.1 ∉ s.root.labels ∧ r.2.root.labels = r.1 :: s.root.labels ∧ r.2.root.ctx = s.root.ctx := by
  refine ⟨?_, rfl, rfl⟩
  intro h
  exact hpick s.used stem (by simp [St.used, freshLabel] at *; exact Or.inl h)

theorem good_fresh (s : St) (stem : Name) : Good s (freshLabel pick s stem).2 := by
  intro ⟨h1, h2⟩
  obtain ⟨_, hl, hc⟩ := fresh_spec pick hpick s stem
  refine ⟨⟨by rw [hc]; exact h1, ?_⟩, ⟨?_, ?_⟩⟩
  · intro l hl'; rw [hl]; rw [hc] at hl'; exact List.mem_cons_of_mem _ (h2 l hl')
  · intro l h; rw [hl]; exact List.mem_cons_of_mem _ h
  · intro l _ hn; rw [hc]; exact hn

omit hpick in
/-- setting a registered, still unset label keeps the invariant; other unset labels stay unset -/
theorem inv_setLabel (s : St) (l : Name) (hi : LInv s) (hr : l ∈ s.root.labels)
    (hn : l ∉ setLabels s.root.ctx) :
    LInv (s.push (.setLabel l)) ∧ (s.push (.setLabel l)).root.labels = s.root.labels ∧
    setLabels (s.push (.setLabel l)).root.ctx = setLabels s.root.ctx ++ [l] := by
  obtain ⟨h1, h2⟩ := hi
  have hc : setLabels (s.push (.setLabel l)).root.ctx = setLabels s.root.ctx ++ [l] := by
    simp [St.push, Block.push, setLabels_append, setLabels]
  refine ⟨⟨?_, ?_⟩, rfl, hc⟩
  · rw [hc]; exact List.nodup_append.mpr ⟨h1, by simp, by intro a ha b hb; simp at hb; subst hb; intro h; subst h; exact hn ha⟩
  · intro l' hl'; rw [hc] at hl'
    rcases List.mem_append.mp hl' with h | h
    · exact h2 l' h
    · simp at h; subst h; exact hr

/-- Result of a construct, relative to its start state `s0`:
    invariant holds, registry grew, old unset labels still unset. -/
def Res (s0 s : St) : Prop := LInv s ∧ Ext s0 s

omit hpick in
theorem Res.step {s0 s s' : St} (h : Res s0 s) (g : Good s s') : Res s0 s' :=
  let ⟨i, e⟩ := g h.1
  ⟨i, h.2.trans e⟩

omit hpick in
/-- set a label that was allocated after `s0` (so it is not one of `s0`'s labels) -/
theorem Res.setFresh {s0 s : St} (h : Res s0 s) (l : Name) (hr : l ∈ s.root.labels)
    (hn : l ∉ setLabels s.root.ctx) (hnew : l ∉ s0.root.labels) : Res s0 (s.push (.setLabel l)) := by
  obtain ⟨i', hl, hc⟩ := inv_setLabel s l h.1 hr hn
  refine ⟨i', ⟨fun x hx => by rw [hl]; exact h.2.1 x hx, ?_⟩⟩
  intro x hx hxn
  rw [hc]
  intro hmem
  rcases List.mem_append.mp hmem with hm | hm
  · exact h.2.2 x hx hxn hm
  · simp at hm; subst hm; exact hnew hx


/-- a label allocated after `s0`, registered and not yet set -/
def Pending (s0 s : St) (l : Name) : Prop :=
  l ∈ s.root.labels ∧ l ∉ setLabels s.root.ctx ∧ l ∉ s0.root.labels

omit hpick in
theorem Pending.step {s0 s s' : St} {l : Name} (h : Pending s0 s l) (hi : LInv s) (g : Good s s') :
    Pending s0 s' l :=
  let ⟨_, e⟩ := g hi
  ⟨e.1 l h.1, e.2 l h.1 h.2.1, h.2.2⟩

omit hpick in
theorem Pending.setOther {s0 s : St} {l l' : Name} (h : Pending s0 s l) (hne : l ≠ l') :
    Pending s0 (s.push (.setLabel l')) l := by
  refine ⟨h.1, ?_, h.2.2⟩
  have hc : setLabels (s.push (.setLabel l')).root.ctx = setLabels s.root.ctx ++ [l'] := by
    simp [St.push, Block.push, setLabels_append, setLabels]
  rw [hc]; intro hm
  rcases List.mem_append.mp hm with hm | hm
  · exact h.2.1 hm
  · simp at hm; exact hne hm

omit hpick in
theorem Res.setPending {s0 s : St} {l : Name} (h : Res s0 s) (p : Pending s0 s l) :
    Res s0 (s.push (.setLabel l)) := h.setFresh l p.1 p.2.1 p.2.2

theorem ifPrologue_spec (s : St) (le : Option Name) (isElse : Bool) (hi : LInv s) :
    let p := ifPrologue pick s le isElse
    Res s p.2 ∧ Pending s p.2 p.1.lElse ∧ (le = none → Pending s p.2 p.1.lEnd ∧ p.1.lEnd ≠ p.1.lElse) := by
  have h0 : Res s s.enter := Res.step ⟨hi, Ext.refl s⟩ (good_enter s)
  obtain ⟨f1n, f1l, f1c⟩ := fresh_spec pick hpick s.enter "if_begin".toList
  have h1 : Res s (freshLabel pick s.enter "if_begin".toList).2 := h0.step (good_fresh pick hpick _ _)
  obtain ⟨f2n, f2l, f2c⟩ := fresh_spec pick hpick (freshLabel pick s.enter "if_begin".toList).2 "if_else".toList
  have h2 := h1.step (good_fresh pick hpick (freshLabel pick s.enter "if_begin".toList).2 "if_else".toList)
  simp only [ifPrologue]
  generalize freshLabel pick s.enter "if_begin".toList = r1 at *
  generalize hr2 : freshLabel pick r1.2 "if_else".toList = r2 at *
  have eroot : s.enter.root = s.root := rfl
  rw [eroot] at f1n f1l f1c
  -- facts about the three labels in r2.2
  have b_reg : r1.1 ∈ r2.2.root.labels := by rw [f2l, f1l]; simp
  have b_new : r1.1 ∉ s.root.labels := f1n
  have e_reg : r2.1 ∈ r2.2.root.labels := by rw [f2l]; simp
  have e_new : r2.1 ∉ s.root.labels := by intro h; apply f2n; rw [f1l]; exact List.mem_cons_of_mem _ h
  have e_ne_b : r2.1 ≠ r1.1 := by intro h; apply f2n; rw [f1l, h]; simp
  have ctx2 : r2.2.root.ctx = s.root.ctx := by rw [f2c, f1c]
  have unset_of_new : ∀ l, l ∉ s.root.labels → l ∉ setLabels s.root.ctx := fun l hn hm => hn (hi.2 l hm)
  cases le with
  | some l =>
    simp only
    have h3 : Res s (r2.2.push (.br r1.1 (if isElse then r2.1 else l))) :=
      h2.step (good_push_other _ _ (by intro l; simp))
    have pb : Pending s (r2.2.push (.br r1.1 (if isElse then r2.1 else l))) r1.1 :=
      ⟨b_reg, by show r1.1 ∉ setLabels (r2.2.root.ctx ++ [_]); rw [setLabels_snoc_other _ _ (by intro l; simp), ctx2]; exact unset_of_new _ b_new, b_new⟩
    have pe : Pending s (r2.2.push (.br r1.1 (if isElse then r2.1 else l))) r2.1 :=
      ⟨e_reg, by show r2.1 ∉ setLabels (r2.2.root.ctx ++ [_]); rw [setLabels_snoc_other _ _ (by intro l; simp), ctx2]; exact unset_of_new _ e_new, e_new⟩
    exact ⟨h3.setPending pb, pe.setOther e_ne_b, by intro h; cases h⟩
  | none =>
    simp only
    obtain ⟨f3n, f3l, f3c⟩ := fresh_spec pick hpick r2.2 "if_end".toList
    have h2' := h2.step (good_fresh pick hpick r2.2 "if_end".toList)
    generalize freshLabel pick r2.2 "if_end".toList = r3 at *
    have d_reg : r3.1 ∈ r3.2.root.labels := by rw [f3l]; simp
    have d_new : r3.1 ∉ s.root.labels := by
      intro h; apply f3n; rw [f2l, f1l]; exact List.mem_cons_of_mem _ (List.mem_cons_of_mem _ h)
    have d_ne_b : r3.1 ≠ r1.1 := by intro h; apply f3n; rw [f2l, f1l, h]; simp
    have d_ne_e : r3.1 ≠ r2.1 := by intro h; apply f3n; rw [f2l, h]; simp
    have ctx3 : r3.2.root.ctx = s.root.ctx := by rw [f3c, ctx2]
    have h3 : Res s (r3.2.push (.br r1.1 (if isElse then r2.1 else r3.1))) :=
      h2'.step (good_push_other _ _ (by intro l; simp))
    have mk : ∀ l, l ∈ r3.2.root.labels → l ∉ s.root.labels →
        Pending s (r3.2.push (.br r1.1 (if isElse then r2.1 else r3.1))) l := fun l hr hn =>
      ⟨hr, by show l ∉ setLabels (r3.2.root.ctx ++ [_]); rw [setLabels_snoc_other _ _ (by intro l; simp), ctx3]; exact unset_of_new _ hn, hn⟩
    have pb := mk r1.1 (by rw [f3l]; exact List.mem_cons_of_mem _ b_reg) b_new
    have pe := mk r2.1 (by rw [f3l]; exact List.mem_cons_of_mem _ e_reg) e_new
    have pd := mk r3.1 d_reg d_new
    exact ⟨h3.setPending pb, pe.setOther e_ne_b, fun _ => ⟨pd.setOther d_ne_b, d_ne_e⟩⟩

theorem loopPrologue_spec (s : St) (hi : LInv s) :
    let p := loopPrologue pick s
    Res s p.2 ∧ Pending s p.2 p.1.2 := by
  have h0 : Res s s.enter := Res.step ⟨hi, Ext.refl s⟩ (good_enter s)
  obtain ⟨f1n, f1l, f1c⟩ := fresh_spec pick hpick s.enter "loop_begin".toList
  have h1 : Res s (freshLabel pick s.enter "loop_begin".toList).2 := h0.step (good_fresh pick hpick _ _)
  obtain ⟨f2n, f2l, f2c⟩ := fresh_spec pick hpick (freshLabel pick s.enter "loop_begin".toList).2 "loop_end".toList
  have h2 := h1.step (good_fresh pick hpick (freshLabel pick s.enter "loop_begin".toList).2 "loop_end".toList)
  simp only [loopPrologue]
  generalize freshLabel pick s.enter "loop_begin".toList = r1 at *
  generalize freshLabel pick r1.2 "loop_end".toList = r2 at *
  have eroot : s.enter.root = s.root := rfl
  rw [eroot] at f1n f1l f1c
  have b_new : r1.1 ∉ s.root.labels := f1n
  have e_new : r2.1 ∉ s.root.labels := by intro h; apply f2n; rw [f1l]; exact List.mem_cons_of_mem _ h
  have e_ne_b : r2.1 ≠ r1.1 := by intro h; apply f2n; rw [f1l, h]; simp
  have ctx2 : r2.2.root.ctx = s.root.ctx := by rw [f2c, f1c]
  have unset_of_new : ∀ l, l ∉ s.root.labels → l ∉ setLabels s.root.ctx := fun l hn hm => hn (hi.2 l hm)
  have h3 : Res s (r2.2.push (.jump r1.1)) := h2.step (good_push_other _ _ (by intro l; simp))
  have mk : ∀ l, l ∈ r2.2.root.labels → l ∉ s.root.labels → Pending s (r2.2.push (.jump r1.1)) l := fun l hr hn =>
    ⟨hr, by show l ∉ setLabels (r2.2.root.ctx ++ [_]); rw [setLabels_snoc_other _ _ (by intro l; simp), ctx2]; exact unset_of_new _ hn, hn⟩
  have pb := mk r1.1 (by rw [f2l, f1l]; simp) b_new
  have pe := mk r2.1 (by rw [f2l]; simp) e_new
  exact ⟨h3.setPending pb, pe.setOther e_ne_b⟩

omit hpick in
theorem ifAfterBody_spec {s0 : St} (c : IfCtx) (isElse : Bool) (rb : St × Bool)
    (h : Res s0 rb.1) (pe : Pending s0 rb.1 c.lElse) :
    Res s0 (ifAfterBody c isElse rb) ∧
    ∀ l, Pending s0 rb.1 l → l ≠ c.lElse → Pending s0 (ifAfterBody c isElse rb) l := by
  simp only [ifAfterBody]
  -- step 1: optional jump
  have g1 : Good rb.1 (if rb.2 then rb.1 else rb.1.push (.jump c.lEnd)) := by
    split
    · exact Good.refl _
    · exact good_push_other _ _ (by intro l; simp)
  have h1 := h.step g1
  have pe1 := pe.step h.1 g1
  generalize (if rb.2 then rb.1 else rb.1.push (.jump c.lEnd)) = s1 at *
  cases isElse with
  | false =>
    simp only [Bool.false_eq_true, if_false]
    exact ⟨h1.step (good_leave s1), fun l pl _ => ((pl.step h.1 g1).step h1.1 (good_leave s1))⟩
  | true =>
    simp only [if_true]
    have h2 := h1.setPending pe1
    exact ⟨h2.step (good_leave _), fun l pl hne =>
      (((pl.step h.1 g1).setOther hne).step h2.1 (good_leave _))⟩

omit hpick in
theorem ifAfterElse_spec {s0 : St} (c : IfCtx) (re : St × Bool) (h : Res s0 re.1) :
    Res s0 (ifAfterElse c re) ∧ ∀ l, Pending s0 re.1 l → Pending s0 (ifAfterElse c re) l := by
  simp only [ifAfterElse]
  have h1 := h.step (good_leave re.1)
  split
  · exact ⟨h1, fun l pl => pl.step h.1 (good_leave re.1)⟩
  · have g2 : Good re.1.leave (re.1.leave.push (.jump c.lEnd)) := good_push_other _ _ (by intro l; simp)
    exact ⟨h1.step g2, fun l pl => (pl.step h.1 (good_leave re.1)).step h1.1 g2⟩

omit hpick in
theorem Res.good {s0 s : St} (hi : LInv s0) (h : LInv s0 → Res s0 s) : Good s0 s := fun _ =>
  let r := h hi; ⟨r.1, r.2⟩

mutual
theorem good_ifCondition : ∀ (i : IfStmt) (s : St) (le : Option Name) (ll : Option (Name × Name)),
    Good s (ifCondition pick s i le ll)
  | .mk body els elif, s, le, ll => by
    intro hi
    unfold ifCondition
    simp only []
    obtain ⟨hp, pe, pd⟩ := ifPrologue_spec pick hpick s le (els.isSome || elif.isSome) hi
    generalize ifPrologue pick s le (els.isSome || elif.isSome) = p at *
    -- main body
    have gb := good_ifBodies body p.2 p.1.lEnd ll
    have hb := hp.step gb
    have peb := pe.step hp.1 gb
    obtain ⟨ha, pa⟩ := ifAfterBody_spec p.1 (els.isSome || elif.isSome) _ hb peb
    generalize ifAfterBody p.1 (els.isSome || elif.isSome) (ifBodies pick p.2 body p.1.lEnd ll) = sa at *
    -- else / else-if part, as a Good step from `sa`
    have gelse : ∃ se, se = (match els, elif with
        | some eb, _ => ifAfterElse p.1 (ifBodies pick sa.enter eb p.1.lEnd ll)
        | none, some ei => ifCondition pick sa ei (some p.1.lEnd) ll
        | none, none => sa) ∧ Res s se ∧ ∀ l, Pending s sa l → Pending s se l := by
      refine ⟨_, rfl, ?_⟩
      cases els with
      | some eb =>
        simp only
        have ge := good_ifBodies eb sa.enter p.1.lEnd ll
        have he := (ha.step (good_enter sa)).step ge
        obtain ⟨h3, p3⟩ := ifAfterElse_spec p.1 _ he
        exact ⟨h3, fun l pl => p3 l ((pl.step ha.1 (good_enter sa)).step (ha.step (good_enter sa)).1 ge)⟩
      | none =>
        cases elif with
        | some ei =>
          simp only
          have gi := good_ifCondition ei sa (some p.1.lEnd) ll
          exact ⟨ha.step gi, fun l pl => pl.step ha.1 gi⟩
        | none => exact ⟨ha, fun l pl => pl⟩
    obtain ⟨se, hse, he, pse⟩ := gelse
    rw [← hse]
    -- epilogue
    simp only [ifEpilogue]
    cases le with
    | some l => simp only [Option.isSome_some, if_true]; exact ⟨he.1, he.2⟩
    | none =>
      simp only [Option.isSome_none, Bool.false_eq_true, if_false]
      obtain ⟨pd1, hne⟩ := pd rfl
      have pd2 := pse _ (pa _ (pd1.step hp.1 gb) hne)
      have := he.setPending pd2
      exact ⟨this.1, this.2⟩
theorem good_ifBodies : ∀ (b : IfBodies) (s : St) (lEnd : Name) (ll : Option (Name × Name)),
    Good s (ifBodies pick s b lEnd ll).1
  | .ifb l, s, lEnd, ll => by simp only [ifBodies]; exact good_ifBody l s lEnd ll false
  | .loopb l, s, lEnd, some (lb, le) => by simp only [ifBodies]; exact good_ifLoopBody l s lEnd lb le false
  | .loopb _, s, _, none => by simp only [ifBodies]; exact good_panic s
theorem good_ifBody : ∀ (l : List IfBodyStmt) (s : St) (lEnd : Name) (ll : Option (Name × Name)) (r : Bool),
    Good s (ifBody pick s l lEnd ll r).1
  | [], s, _, _, _ => by simp only [ifBody]; exact Good.refl s
  | .ev n :: tl, s, lEnd, ll, r => by
    simp only [ifBody]
    exact (good_push_other s _ (by intro l; simp)).trans (good_ifBody tl _ lEnd ll r)
  | .ifs i :: tl, s, lEnd, ll, r => by
    simp only [ifBody]
    exact (good_ifCondition i s (some lEnd) ll).trans (good_ifBody tl _ lEnd ll r)
  | .loop b :: tl, s, lEnd, ll, r => by
    simp only [ifBody]
    exact (good_loopStmt b s).trans (good_ifBody tl _ lEnd ll r)
  | .ret n :: tl, s, lEnd, ll, _ => by
    simp only [ifBody]
    exact ((good_push_other s _ (by intro l; simp)).trans (good_setRet _)).trans (good_ifBody tl _ lEnd ll true)
theorem good_ifLoopBody : ∀ (l : List IfLoopStmt) (s : St) (lEnd lb le : Name) (r : Bool),
    Good s (ifLoopBody pick s l lEnd lb le r).1
  | [], s, _, _, _, _ => by simp only [ifLoopBody]; exact Good.refl s
  | .ev n :: tl, s, lEnd, lb, le, r => by
    simp only [ifLoopBody]
    exact (good_push_other s _ (by intro l; simp)).trans (good_ifLoopBody tl _ lEnd lb le r)
  | .ifs i :: tl, s, lEnd, lb, le, r => by
    simp only [ifLoopBody]
    exact (good_ifCondition i s (some lEnd) (some (lb, le))).trans (good_ifLoopBody tl _ lEnd lb le r)
  | .loop b :: tl, s, lEnd, lb, le, r => by
    simp only [ifLoopBody]
    exact (good_loopStmt b s).trans (good_ifLoopBody tl _ lEnd lb le r)
  | .ret n :: tl, s, lEnd, lb, le, _ => by
    simp only [ifLoopBody]
    exact ((good_push_other s _ (by intro l; simp)).trans (good_setRet _)).trans (good_ifLoopBody tl _ lEnd lb le true)
  | .brk :: tl, s, lEnd, lb, le, r => by
    simp only [ifLoopBody]
    exact (good_push_other s _ (by intro l; simp)).trans (good_ifLoopBody tl _ lEnd lb le r)
  | .cont :: tl, s, lEnd, lb, le, r => by
    simp only [ifLoopBody]
    exact (good_push_other s _ (by intro l; simp)).trans (good_ifLoopBody tl _ lEnd lb le r)
theorem good_loopStmt : ∀ (b : List LoopStmt) (s : St), Good s (loopStmt pick s b)
  | body, s => by
    intro hi
    simp only [loopStmt]
    obtain ⟨hp, pe⟩ := loopPrologue_spec pick hpick s hi
    generalize loopPrologue pick s = p at *
    have gb := good_loopBody body p.2 p.1.1 p.1.2 false
    have hb := hp.step gb
    have peb := pe.step hp.1 gb
    simp only [loopEpilogue]
    split
    · have := hb.step (good_leave _); exact ⟨this.1, this.2⟩
    · have g1 : Good (loopBody pick p.2 body p.1.1 p.1.2 false).1
          ((loopBody pick p.2 body p.1.1 p.1.2 false).1.push (.jump p.1.1)) :=
        good_push_other _ _ (by intro l; simp)
      have h1 := hb.step g1
      have h2 := h1.setPending (peb.step hb.1 g1)
      have := h2.step (good_leave _)
      exact ⟨this.1, this.2⟩
theorem good_loopBody : ∀ (l : List LoopStmt) (s : St) (lb le : Name) (r : Bool),
    Good s (loopBody pick s l lb le r).1
  | [], s, _, _, _ => by simp only [loopBody]; exact Good.refl s
  | .ev n :: tl, s, lb, le, r => by
    simp only [loopBody]
    exact (good_push_other s _ (by intro l; simp)).trans (good_loopBody tl _ lb le r)
  | .ifs i :: tl, s, lb, le, r => by
    simp only [loopBody]
    exact (good_ifCondition i s none (some (lb, le))).trans (good_loopBody tl _ lb le r)
  | .loop b :: tl, s, lb, le, r => by
    simp only [loopBody]
    exact (good_loopStmt b s).trans (good_loopBody tl _ lb le r)
  | .ret n :: tl, s, lb, le, _ => by
    simp only [loopBody]
    exact ((good_push_other s _ (by intro l; simp)).trans (good_setRet _)).trans (good_loopBody tl _ lb le true)
  | .brk :: tl, s, lb, le, r => by
    simp only [loopBody]
    exact (good_push_other s _ (by intro l; simp)).trans (good_loopBody tl _ lb le r)
  | .cont :: tl, s, lb, le, r => by
    simp only [loopBody]
    exact (good_push_other s _ (by intro l; simp)).trans (good_loopBody tl _ lb le r)
end

/-- C10_unique on the prototype: starting from an empty root, for every body, every nesting
    depth and every probe that returns an unused name, no label is set twice. -/
theorem labels_set_once (body : List LoopStmt) :
    (setLabels (loopStmt pick ⟨[], ⟨[], false, [], 0⟩, false⟩ body).root.ctx).Nodup := by
  have h := good_loopStmt pick hpick body ⟨[], ⟨[], false, [], 0⟩, false⟩
    ⟨by simp [setLabels], by simp [setLabels]⟩
  exact h.1.1

#print axioms labels_set_once
