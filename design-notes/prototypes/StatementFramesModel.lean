/-! Feasibility prototype: statement-level mutual structural recursion with the frames model. -/
abbrev Name := List Char
inductive Instr | setLabel (l : Name) | jump (l : Name) | br (b e : Name) | ev (n : Nat) | jret (n : Nat)
deriving DecidableEq, Repr

mutual
inductive IfStmt : Type
  | mk (body : IfBodies) (els : Option IfBodies) (elif : Option IfStmt)
inductive IfBodies : Type
  | ifb (l : List IfBodyStmt)
  | loopb (l : List IfLoopStmt)
inductive IfBodyStmt : Type
  | ev (n : Nat) | ifs (s : IfStmt) | loop (l : List LoopStmt) | ret (n : Nat)
inductive IfLoopStmt : Type
  | ev (n : Nat) | ifs (s : IfStmt) | loop (l : List LoopStmt) | ret (n : Nat) | brk | cont
inductive LoopStmt : Type
  | ev (n : Nat) | ifs (s : IfStmt) | loop (l : List LoopStmt) | ret (n : Nat) | brk | cont
end

structure Block where
  labels : List Name
  ret : Bool
  ctx : List Instr
  nchildren : Nat      -- stand-in for the children list
deriving Repr

structure St where
  frames : List Block
  panic : Bool := false
deriving Repr

def St.push (s : St) (i : Instr) : St := { s with frames := s.frames.map fun b => { b with ctx := b.ctx ++ [i] } }
def St.enter (s : St) : St :=
  match s.frames with
  | [] => s
  | p :: _ => { s with frames := { labels := p.labels, ret := p.ret, ctx := [], nchildren := 0 } :: s.frames }
def St.leave (s : St) : St :=
  match s.frames with
  | _ :: p :: rest => { s with frames := { p with nchildren := p.nchildren + 1 } :: rest }
  | _ => s
def St.setRet (s : St) : St := { s with frames := s.frames.map fun b => { b with ret := true } }
def freshLabel (s : St) (stem : Name) : Name × St :=
  let used := (s.frames.map (·.labels)).flatten
  let l := stem ++ (toString used.length).toList   -- stand-in for the probe
  (l, { s with frames := s.frames.map fun b => { b with labels := l :: b.labels } })

mutual
def ifCondition (s : St) : IfStmt → Option Name → Option (Name × Name) → St
  | .mk body els elif, labelEnd, labelLoop =>
    let s := s.enter
    let (lBegin, s) := freshLabel s "if_begin".toList
    let (lElse, s) := freshLabel s "if_else".toList
    let (lEnd, s) := match labelEnd with
      | some l => (l, s)
      | none => freshLabel s "if_end".toList
    let isElse := els.isSome || elif.isSome
    let s := s.push (.br lBegin (if isElse then lElse else lEnd))
    let s := s.push (.setLabel lBegin)
    let (s, r) := ifBodies s body lEnd labelLoop
    let s := if r then s else s.push (.jump lEnd)
    let s := if isElse then s.push (.setLabel lElse) else s
    let s := s.leave   -- suspend; (the real model keeps the child index)
    let s := match els, elif with
      | some eb, _ =>
        let s := s.enter
        let (s, r) := ifBodies s eb lEnd labelLoop
        let s := s.leave
        if r then s else s.push (.jump lEnd)
      | none, some ei => ifCondition s ei (some lEnd) labelLoop
      | none, none => s
    if labelEnd.isSome then s else s.push (.setLabel lEnd)
def ifBodies (s : St) : IfBodies → Name → Option (Name × Name) → St × Bool
  | .ifb l, lEnd, labelLoop => ifBody s l lEnd labelLoop false
  | .loopb l, lEnd, some (lb, le) => ifLoopBody s l lEnd lb le false
  | .loopb _, _, none => ({ s with panic := true }, false)
def ifBody (s : St) : List IfBodyStmt → Name → Option (Name × Name) → Bool → St × Bool
  | [], _, _, r => (s, r)
  | .ev n :: tl, lEnd, ll, r => ifBody (s.push (.ev n)) tl lEnd ll r
  | .ifs i :: tl, lEnd, ll, r => ifBody (ifCondition s i (some lEnd) ll) tl lEnd ll r
  | .loop b :: tl, lEnd, ll, r => ifBody (loopStmt s b) tl lEnd ll r
  | .ret n :: tl, lEnd, ll, _ => ifBody ((s.push (.jret n)).setRet) tl lEnd ll true
def ifLoopBody (s : St) : List IfLoopStmt → Name → Name → Name → Bool → St × Bool
  | [], _, _, _, r => (s, r)
  | .ev n :: tl, lEnd, lb, le, r => ifLoopBody (s.push (.ev n)) tl lEnd lb le r
  | .ifs i :: tl, lEnd, lb, le, r => ifLoopBody (ifCondition s i (some lEnd) (some (lb, le))) tl lEnd lb le r
  | .loop b :: tl, lEnd, lb, le, r => ifLoopBody (loopStmt s b) tl lEnd lb le r
  | .ret n :: tl, lEnd, lb, le, _ => ifLoopBody ((s.push (.jret n)).setRet) tl lEnd lb le true
  | .brk :: tl, lEnd, lb, le, r => ifLoopBody (s.push (.jump le)) tl lEnd lb le r
  | .cont :: tl, lEnd, lb, le, r => ifLoopBody (s.push (.jump lb)) tl lEnd lb le r
def loopStmt (s : St) : List LoopStmt → St
  | body =>
    let s := s.enter
    let (lb, s) := freshLabel s "loop_begin".toList
    let (le, s) := freshLabel s "loop_end".toList
    let s := (s.push (.jump lb)).push (.setLabel lb)
    let (s, r) := loopBody s body lb le false
    let s := if r then s else (s.push (.jump lb)).push (.setLabel le)
    s.leave
def loopBody (s : St) : List LoopStmt → Name → Name → Bool → St × Bool
  | [], _, _, r => (s, r)
  | .ev n :: tl, lb, le, r => loopBody (s.push (.ev n)) tl lb le r
  | .ifs i :: tl, lb, le, r => loopBody (ifCondition s i none (some (lb, le))) tl lb le r
  | .loop b :: tl, lb, le, r => loopBody (loopStmt s b) tl lb le r
  | .ret n :: tl, lb, le, _ => loopBody ((s.push (.jret n)).setRet) tl lb le true
  | .brk :: tl, lb, le, r => loopBody (s.push (.jump le)) tl lb le r
  | .cont :: tl, lb, le, r => loopBody (s.push (.jump lb)) tl lb le r
end

def root : St := { frames := [{ labels := [], ret := false, ctx := [], nchildren := 0 }] }
def demo : List LoopStmt := [.ifs (.mk (.loopb [.brk]) none none), .ret 1]
#eval ((loopStmt root demo).frames.map (·.ctx))
#print axioms ifCondition

/-- every live frame receives the same suffix: the C18 "sub-sequence" mechanism in one line -/
theorem push_ctx (s : St) (i : Instr) : (s.push i).frames.map (·.ctx) = s.frames.map (fun b => b.ctx ++ [i]) := by
  simp [St.push, List.map_map, Function.comp_def]
