#!/usr/bin/env python3
"""Writes the corpus files (minimal programs of every recorded finding and minimised past
failures of seeded changes) in the wire format.  Run once by hand; the files are committed."""
import os
ROOT = os.path.dirname(os.path.dirname(os.path.abspath(__file__)))

def N(s): return "'" + "_".join("%x" % ord(c) for c in s)
def P(t): return "(p %s)" % t
def S(name, attrs): return "(s %s (%s))" % (N(name), " ".join("(%s %s)" % (N(a), t) for a, t in attrs))
def lit(t, v): return "(lit (%s %s))" % (t, v)
def var(n): return "(var %s)" % N(n)
def call(f, *args): return "(call %s%s)" % (N(f), "".join(" " + a for a in args))
def fld(v, a): return "(fld %s %s)" % (N(v), N(a))
def sub(e): return "(sub %s)" % e
def E(*parts):
    # E(v) or E(v, op, v, op, v ...)
    if len(parts) == 1: return "(e %s)" % parts[0]
    return "(e %s %s %s)" % (parts[0], parts[1], E(*parts[2:]))
def let(n, e, mut=0, ty=None): return "(let %s %d %s %s)" % (N(n), mut, "(some %s)" % ty if ty else "(none)", e)
def setv(n, e): return "(set %s %s)" % (N(n), e)
def ret(e): return "(ret %s)" % e
def ifs(cond, body, els=None, elif_=None, loop=False):
    b = "(%s%s)" % ("loopb" if loop else "ifb", "".join(" " + x for x in body))
    e = "(none)" if els is None else "(some (%s%s))" % ("loopb" if loop else "ifb", "".join(" " + x for x in els))
    ei = "(none)" if elif_ is None else "(some %s)" % elif_
    return "(ifs %s %s %s %s)" % (cond, b, e, ei)
def single(e): return "(single %s)" % e
def cmpc(l, c, r): return "(logic (lc (cmp %s %s %s)))" % (l, c, r)
def IF(i): return "(if %s)" % i
def loop(*body): return "(loop%s)" % "".join(" " + x for x in body)
def fn(name, params, res, body): return "(fn %s (%s) %s (%s))" % (N(name), " ".join("(%s %s)" % (N(a), t) for a, t in params), res, " ".join(body))
def const(n, t, ce): return "(const %s %s %s)" % (N(n), t, ce)
def types(n, attrs): return "(types %s (%s))" % (N(n), " ".join("(%s %s)" % (N(a), t) for a, t in attrs))
def prog(*tops): return "(prog%s)" % "".join(" " + t for t in tops)

u8, bo = P("u8"), P("bool")
T = E(lit("bool", 1))
one, two, three = E(lit("u8", 1)), E(lit("u8", 2)), E(lit("u8", 3))
g = fn("g", [("a", u8)], u8, [ret(E(var("a")))])
h2 = fn("h", [("a", u8), ("b", u8)], u8, [ret(E(var("a")))])

C = {}
C["F2"] = prog(g, fn("main", [("c", bo)], u8, [IF(ifs(single(E(var("c"))), [IF(ifs(single(E(var("c"))), [call("g", one)])), call("g", two)])), ret(three)]))
C["F3"] = prog(fn("main", [("c", bo)], u8, [loop(IF(ifs(single(E(var("c"))), ["(brk)"], loop=True)), ret(one)), ret(two)]))
C["F6a"] = prog(const("A", u8, "(cl (c %s))" % N("UNDECLARED")), fn("main", [], u8, [ret(one)]))
C["F7call"] = prog(g, fn("main", [], u8, [ret(E(call("g", one), "plus", lit("u8", 3)))]))
S1 = S("S", [("a", u8)])
C["F7field"] = prog(types("S", [("a", u8)]), fn("main", [("s", S1)], u8, [ret(E(fld("s", "a"), "plus", lit("u8", 3)))]))
C["F8"] = prog(h2, fn("main", [], u8, [ret(E(call("h", one)))]))
C["F9"] = prog(fn("main", [("c", bo)], u8, [IF(ifs(single(E(var("c"))), [ret(T)])), ret(one)]))
C["F10"] = prog(types("S", [("a", S("T", []))]), fn("main", [], u8, [ret(one)]))
C["F1fixed"] = prog(g, fn("main", [], u8, [ret(E(call("g", one, two)))]))
C["F5fixed"] = prog(fn("main", [], u8, [let("x", one, mut=1), setv("x", T), ret(one)]))
C["F6bfixed"] = prog(const("A", u8, "(cc (v (u8 1)) plus (cc (v (u8 2)) plus (cl (c %s))))" % N("UNDECLARED")), fn("main", [], u8, [ret(one)]))
C["F4fixed"] = prog(fn("main", [("a", u8), ("b", u8), ("c", u8), ("d", u8)], u8, [ret(E(var("a"), "divide", var("b"), "multiply", var("c"), "multiply", var("d")))]))
# regression cases distilled from seeded changes (deep nesting, siblings)
C["deep-reg"] = prog(fn("main", [], P("i8"), [IF(ifs(single(T), [IF(ifs(single(T), [let("a", E(lit("i8", 1), "plus", lit("i8", 2)), ty=P("i8"))]))])), ret(E(lit("i8", 3), "plus", lit("i8", 4)))]))
C["deep-label"] = prog(fn("main", [], bo, [loop(IF(ifs(single(T), ["(brk)"], loop=True))), IF(ifs(single(T), [let("x", T)])), ret(T)]))
C["deep-name"] = prog(fn("main", [], u8, [IF(ifs(single(T), [IF(ifs(single(T), [let("x", one)]))])), let("x", two), ret(E(var("x")))]))
C["deep-const"] = prog(const("K", u8, "(cl (v (u8 5)))"), fn("main", [], u8, [IF(ifs(single(T), [IF(ifs(single(T), [let("y", E(var("K")))]))])), ret(one)]))
C["deep-field"] = prog(types("S", [("a", u8)]), fn("main", [("s", S1)], u8, [IF(ifs(single(T), [IF(ifs(single(T), [let("y", E(fld("s", "a")))]))])), ret(one)]))
C["else-ret"] = prog(fn("main", [("c", bo)], u8, [IF(ifs(single(E(var("c"))), [let("y", one)], els=[ret(two)])), ret(one)]))
C["else-loopif"] = prog(fn("main", [("c", bo)], u8, [loop(IF(ifs(single(E(var("c"))), [], els=[IF(ifs(single(E(var("c"))), ["(brk)"], loop=True))]))), ret(one)]))
C["sig-2params"] = prog(types("Known", [("a", u8)]), fn("bad", [("a", S("Unknown", [])), ("b", P("u16"))], u8, [ret(one)]), fn("last", [], u8, [ret(one)]))

ALL = list(C)
FILES = {
 "C01": ["F6a", "F8", "F9", "F10", "F5fixed", "F6bfixed", "F1fixed"], "C02": ALL, "C03": ALL, "C04": ALL,
 "C05": ["F2", "F3", "else-loopif", "else-ret", "deep-label"], "C06": ALL, "C07": ["F4fixed", "F7call"],
 "C08": ["F7call", "F7field", "deep-const", "deep-field", "deep-reg"], "C09": ALL, "C10": ["F3", "F2", "deep-label", "else-loopif"],
 "C11": ["else-ret", "F9", "F3"], "C12": ALL, "C13": ["F1fixed", "else-loopif"] + ALL, "C14": ALL, "C15": ALL,
 "C18": ALL, "C19": ALL,
}
os.makedirs(os.path.join(ROOT, "corpus"), exist_ok=True)
for prop, names in FILES.items():
    seen = []
    with open(os.path.join(ROOT, "corpus", prop + ".txt"), "w") as f:
        for n in names:
            if n in seen: continue
            seen.append(n)
            f.write("G 1 corpus %s\nP %s\n" % (n, C[n]))
print("corpus written:", ", ".join(sorted(FILES)))
