#!/bin/bash
# coverage.sh — how much of /repo/src the correspondence streams execute.
# Builds the harness with -C instrument-coverage (nightly toolchain: llvm-tools are installed there),
# runs every generator profile at its quick count through the real analyzer, and prints the llvm-cov
# line report for /repo/src plus the lines of semantic.rs and block_state.rs that were never executed.
# Scratch output goes to /tmp/semverif-cov and is removed at the end.  Not part of any check: it is the
# measurement behind DESIGN.md §8.7.
set -e
W=/tmp/semverif-cov
B=$(dirname "$(rustc +nightly --print target-libdir)")/bin
rm -rf $W; mkdir -p $W
cd "$(dirname "$0")/../harness"
export CARGO_NET_OFFLINE=true
RUSTFLAGS="-C instrument-coverage" CARGO_TARGET_DIR=$W/target cargo +nightly build --release --offline 2>&1 | tail -1
python3 - <<'PY' > $W/profiles.txt
import sys, os
sys.path.insert(0, os.path.join(os.getcwd(), "..", "tools"))
from props_table import PROPS
profs = {}
for spec in PROPS.values():
    for (name, q, t) in spec["profiles"]:
        profs[name] = max(profs.get(name, 0), q)
for k, v in profs.items():
    print(k, v)
PY
i=0
while read name cnt; do
  i=$((i+1))
  LLVM_PROFILE_FILE=$W/p$i.profraw $W/target/release/semverif-harness gen --profile $name --seed ${VERIF_SEED:-1} --count $cnt > /dev/null 2>&1 || true
done < $W/profiles.txt
$B/llvm-profdata merge -sparse $W/*.profraw -o $W/all.profdata
$B/llvm-cov report $W/target/release/semverif-harness -instr-profile=$W/all.profdata --sources /repo/src
echo "--- lines of semantic.rs / block_state.rs never executed:"
$B/llvm-cov show $W/target/release/semverif-harness -instr-profile=$W/all.profdata \
  --sources /repo/src/semantic.rs /repo/src/types/block_state.rs --show-line-counts-or-regions 2>/dev/null \
  | grep -E "^(/repo| +[0-9]+\| +0\|)" || true
rm -rf $W
