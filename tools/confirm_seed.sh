#!/bin/bash
# confirm_seed.sh <name> <patch.diff> <demo.rs> : confirms in a scratch worktree of /repo that
#  (1) the suite is green with the patch, (2) the demo fails with it, (3) the demo passes without it.
# Prints one summary line; exit 0 iff all three hold.  The worktree and its build output are removed.
set -u
name=$1; patch=$(readlink -f "$2"); demo=$(readlink -f "$3")
wt=/tmp/confirm-$name
export CARGO_NET_OFFLINE=true
git -C /repo worktree remove --force $wt >/dev/null 2>&1
git -C /repo worktree add --detach $wt HEAD -q || exit 2
cd $wt
cp "$demo" tests/zz_seed_demo.rs
demo_base=$(cargo test --offline --features codec --test zz_seed_demo 2>&1 | grep -E "^test result:" | head -1)
git apply "$patch" || { echo "$name: patch does not apply"; exit 2; }
mv tests/zz_seed_demo.rs /tmp/zz_seed_demo_$name.rs
s1=$(cargo test --offline 2>&1 | grep -E "^test result|^error|warning: unused" | grep -vc "ok\.")
s2=$(cargo test --offline --features codec 2>&1 | grep -E "^test result|^error|warning: unused" | grep -vc "ok\.")
mv /tmp/zz_seed_demo_$name.rs tests/zz_seed_demo.rs
demo_mut=$(cargo test --offline --features codec --test zz_seed_demo 2>&1 | grep -E "^test result:" | head -1)
cd /; git -C /repo worktree remove --force $wt
ok=1
[[ "$s1" == "0" && "$s2" == "0" ]] || ok=0
[[ "$demo_base" == *"ok."* ]] || ok=0
[[ "$demo_mut" == *"FAILED"* ]] || ok=0
echo "$name: suite_nonok_lines=$s1/$s2 demo_without=[$demo_base] demo_with=[$demo_mut] confirmed=$ok"
[[ $ok == 1 ]]
