"""Per property: Lean modules to build, theorems to audit, harness profiles (name, quick count,
thorough count), evidence level.  Kept in one table so that check.py, the manifest writer and
DESIGN.md agree."""

INV = ["SemVerif.inv_errKinds", "SemVerif.inv_instrShapes"]

COMMON = dict(claim="Correspondence (translation validation) between the real analyzer and the executable Lean model on generated programs, restricted to this property's projection, plus the Lean-defined property predicate evaluated on the implementation's own result for every case (the failing-input search). The theorem for this property is not finished yet, so the level claimed is what the run gives, not proof.", note='Trusted: the hand-written Lean model is tied to /repo only by differential testing on generated programs (generator quality bounds it) plus the regenerated tables; Rust harness, wire parser, Lean driver, tools/extract.py; the harness extension stands for all extensions.', technique="Lean 4 executable model + differential correspondence + Lean-defined predicate on the implementation result")

NOT_CLAIMED = {}

PROPS = {
    "C01": dict(level="proof", modules=["SemVerif.Props.C01"],
                theorems=["SemVerif.C01", "SemVerif.C01_enforced", "SemVerif.T1", "SemVerif.sim_exprM", "SemVerif.sim_ifCondition", "SemVerif.sim_bodyStmts", "SemVerif.rel_run"],
                claim="Machine-checked Lean 4 theorems: C01_enforced (if the run of a program of the domain leaves the error list empty, the reference rule checker refCheck of DESIGN §3.1 finds no enforced violation) and C01 (on the model's result the output predicate reports only instances of the four recorded findings F6a, F8, F9, F10 — the rule instances the current analyzer does not enforce). Corollaries of T1: a simulation between the analyzer model and the independent rule checker (own scope and type computation) maintained until the first violation, by mutual structural induction over expressions, statements and control constructs, for every program, depth and chain length. The full-strength statement (accepted ⇒ no violation at all) is false on the current tree: its four witnesses are in corpus/C01.txt and are replayed on the implementation on every run as KNOWN-FINDING. Tied to /repo by the correspondence run (verdict projection; fault1 / fault2 streams inject every rule class at sampled sites).",
                technique="Lean 4 proof (verdict simulation between analyzer model and reference rule checker, mutual structural induction) + differential correspondence of the executable model", profiles=[("wf", 300, 20000), ("fault1", 300, 20000), ("fault2", 200, 10000), ("wild", 500, 30000)]),
    "C02": dict(level="proof", modules=["SemVerif.Props.C02"],
                theorems=["SemVerif.C02", "SemVerif.C02_errors", "SemVerif.C13", "SemVerif.T1", "SemVerif.sim_exprM", "SemVerif.sim_ifCondition", "SemVerif.sim_bodyStmts", "SemVerif.rel_run"],
                claim="Machine-checked Lean 4 theorem C02: for every program, if the reference rule checker finds no violation (WellFormedB) and loop-flavoured if-bodies occur only inside loops, the model's run neither panics nor reports any error — corollary of T1 (verdict simulation) and C13. Non-vacuity example in the file (shadowing, forward reference, nested block, constant). Tied to /repo by the correspondence run on type-directed well-formed programs, each independently confirmed by refCheck in the driver.",
                technique="Lean 4 proof (verdict simulation between analyzer model and reference rule checker, mutual structural induction) + differential correspondence of the executable model", profiles=[("wf", 600, 40000), ("wfclean", 300, 20000)]),
    "C03": dict(level="translation_validation", modules=["SemVerif.Props.C03"],
                theorems=[], profiles=[("wf", 500, 30000), ("wfclean", 300, 20000), ("flow", 300, 20000)]),
    "C04": dict(level="translation_validation", modules=["SemVerif.Props.C04"],
                theorems=[], profiles=[("wf", 500, 30000), ("wfclean", 300, 20000), ("chains", 300, 8000)]),
    "C05": dict(level="translation_validation", modules=["SemVerif.Props.C05"],
                theorems=[], profiles=[("flow", 400, 30000), ("wf", 150, 10000)]),
    "C06": dict(level="translation_validation", modules=["SemVerif.Props.C06"],
                theorems=[], profiles=[("wf", 500, 30000), ("chains", 400, 9330), ("chainsr", 200, 5000)]),
    "C07": dict(level="proof", modules=["SemVerif.Props.C07"],
                theorems=["SemVerif.C07_fold_correct", "SemVerif.C07_fold_unique", "SemVerif.correct_unique"],
                claim="Machine-checked Lean 4 theorems C07_fold_correct / C07_fold_unique: the analyzer's operator-stack fold yields, for every priority table, operand type and chain length, the unique tree with the chain's in-order tokens in which higher priority binds tighter and equal priority associates to the left (invariant: operator stack strictly increasing, every stacked subtree correct). The table the model runs with is regenerated from ast.rs on every run. PARTIAL: that the emitted ExpressionOperation instructions, read through their register operands, are this tree is not yet a theorem; it is decided on the implementation by the correspondence run (bracketing read off the stack = reference tree), exhaustively over the six priority classes up to length 4 (quick) / 6 (thorough) and randomly up to 40 operators.",
                technique="Lean 4 proof (mutual structural induction / invariants) + differential correspondence of the executable model", profiles=[("chains", 1554, 55986), ("chainsr", 300, 20000), ("wf", 300, 20000)]),
    "C08": dict(level="translation_validation", modules=["SemVerif.Props.C08"],
                theorems=[], profiles=[("wf", 600, 40000), ("wfclean", 300, 20000)]),
    "C09": dict(level="proof", modules=["SemVerif.Props.C09"],
                theorems=["SemVerif.C09", "SemVerif.C09_function", "SemVerif.steps_functionBody"],
                claim="Machine-checked Lean 4 theorem C09: for every program p, the output predicate of the property (result registers of every function stack strictly increasing, starting at 1) holds on the model's result `run p` — proved by showing that every analysis run is a chain of primitive steps (steps_functionBody, mutual structural induction over the AST, no bound on size or depth) each of which keeps the invariant 'all live blocks carry the same counter and it bounds every written register'. The model is tied to /repo on every run by the correspondence check (same projection, plus the same Lean predicate evaluated on the implementation's result).",
                technique="Lean 4 proof (invariant over primitive steps, mutual structural induction) + differential correspondence of the executable model", profiles=[("wf", 400, 30000), ("wild", 400, 30000), ("fault1", 200, 10000)]),
    "C10": dict(level="proof", modules=["SemVerif.Props.C10"],
                theorems=["SemVerif.C10_unique", "SemVerif.C10_unique_function", "SemVerif.St.probeLabel_fresh"],
                claim="Machine-checked Lean 4 theorem C10_unique: for every program and every function no label is set twice (mutual structural induction over if / else / else-if / loop with the frame property 'a registered, unset label stays unset unless this construct allocated it'; the probe returns a name outside the function-wide registry and never runs out of fuel). PARTIAL: the resolution half (every jump target is set, for accepted well-formed programs without finding F3) is not yet a theorem; it is decided on the implementation by the correspondence run with the Lean predicate P_C10 (known finding F3 matched per instance).",
                technique="Lean 4 proof (mutual structural induction / invariants) + differential correspondence of the executable model", profiles=[("wf", 500, 30000), ("wild", 400, 30000), ("fault1", 100, 10000)]),
    "C11": dict(level="translation_validation", modules=["SemVerif.Props.C11"],
                theorems=[], profiles=[("wf", 800, 50000), ("wfclean", 300, 20000)]),
    "C12": dict(level="proof", modules=["SemVerif.Props.C12"],
                theorems=["SemVerif.C12", "SemVerif.C12_function", "SemVerif.St.probeInner_fresh", "SemVerif.steps_functionBody"],
                claim="Machine-checked Lean 4 theorem C12: for every program p the output predicate (internal names of FunctionArg/LetBinding pairwise distinct per function; every read / field read / assignment carries a record introduced by an earlier declaration) holds on the model's result — invariant over primitive steps; the freshness of a new let's name is the probe lemma probeInner_fresh (candidates a.(m+k) are pairwise distinct because decimal printing is injective, so fuel |registry|+1 is never exhausted). Tied to /repo by the correspondence run (projection: declaration and use records) with the colliding name pool.",
                technique="Lean 4 proof (invariant over primitive steps + probe-loop lemma) + differential correspondence of the executable model", profiles=[("wf", 400, 30000), ("wild", 400, 30000), ("fault1", 200, 10000)]),
    "C13": dict(level="proof", modules=["SemVerif.Props.C13"],
                theorems=["SemVerif.C13", "SemVerif.C13_function", "SemVerif.ESteps.panic_eq", "SemVerif.inv_panicSites"],
                claim="Machine-checked: (1) every function of the Lean model is accepted as total by structural recursion (termination for every AST; the probe loops' fuel is proved sufficient); (2) theorem C13: for every program whose loop-flavoured if-bodies occur only inside loops the run does not panic (nothing below statement level can panic — the argument-index site is unreachable after the F1 repair; the only site is the documented expect); (3) inv_panicSites pins the unwrap/expect/index/+1 sites of the Rust source to the ones the model accounts for, regenerated on every run. RefCell borrows, integer overflow and native stack depth are outside the model and only exercised by running the real code under catch_unwind.",
                technique="Lean 4 proof (mutual structural induction / invariants) + differential correspondence of the executable model", profiles=[("wild", 800, 50000), ("loopout", 300, 10000), ("wf", 200, 10000)]),
    "C14": dict(level="proof", modules=["SemVerif.Props.C14"],
                theorems=["SemVerif.C14", "SemVerif.T1", "SemVerif.sim_exprM", "SemVerif.sim_ifCondition", "SemVerif.sim_bodyStmts", "SemVerif.rel_run"],
                claim="Machine-checked Lean 4 theorem C14: for every program of the domain the first entry of the model's error list has the kind — and for kinds that name an identifier, the identifier — of the first enforced violation the reference rule checker meets in analysis order (types; constants and signatures in source order; bodies in source order, statements and operands left to right, type mismatches in post-order of the precedence tree); both lists are empty together. This is T1 itself. Tied to /repo by the correspondence run (projection: first error with value and location) on single-fault, double-fault and noisy programs.",
                technique="Lean 4 proof (verdict simulation between analyzer model and reference rule checker, mutual structural induction) + differential correspondence of the executable model", profiles=[("fault1", 400, 30000), ("fault2", 300, 20000), ("wild", 600, 40000)]),
    "C15": dict(level="proof", modules=["SemVerif.Props.C15"],
                theorems=["SemVerif.C15", "SemVerif.rel_run"],
                claim="Machine-checked Lean 4 theorem C15: for every program the output predicate holds on the model's result — the three tables and the global stack are exactly those of the declarative registration declPhase (first declaration of each name whose own checks pass; types first, then constants and functions in source order, one instruction each), one root block per function, no key twice. Proved by a simulation between the model's pass1/pass2 and the rule checker's declTypes/declConstsFns, by induction over the top-level list. Tied to /repo by the correspondence run (projection: tables, global stack, number of roots) on programs with duplicate names and failing declarations.",
                technique="Lean 4 proof (simulation / structural induction) + differential correspondence of the executable model", profiles=[("wild", 500, 30000), ("fault1", 300, 20000), ("wf", 300, 20000)]),
    "C16": dict(level="translation_validation", modules=["SemVerif.Props.C16"],
                theorems=[], profiles=[("perm", 300, 20000)]),
    "C17": dict(level="proof", modules=["SemVerif.Props.C17"],
                theorems=["SemVerif.C17_swap", "SemVerif.C17_decls", "SemVerif.C17_root", "SemVerif.C17_errors", "SemVerif.inv_mutationSites"],
                claim="Machine-checked Lean 4 theorems: C17_decls (two programs that differ only in function bodies have the same declaration phase), C17_root / C17_swap (stack and block tree of function i are a function of the global tables and of that function alone, hence unchanged when the other bodies are replaced), C17_errors (error list = declaration errors ++ each function's body errors in order). In the model this is close to definitional; that the Rust code has this structure is checked on every run by the regenerated inventory of statements mutating self.global/self.errors/self.context (inv_mutationSites) and by the swap correspondence profile (base program, all bodies stubbed, per function all other bodies stubbed / replaced by foreign bodies).",
                technique="Lean 4 proof (simulation / structural induction) + differential correspondence of the executable model", profiles=[("swap", 250, 15000)]),
    "C18": dict(level="translation_validation", modules=["SemVerif.Props.C18"],
                theorems=[], profiles=[("wf", 400, 30000), ("wild", 400, 30000), ("fault1", 200, 10000)]),
    "C20": dict(level="translation_validation", modules=["SemVerif.Props.C20"],
                theorems=["SemVerif.C20_shapes"], profiles=[("codecnf", 400, 20000), ("codec", 400, 30000)],
                claim="(a) Native round trips on the real types with serde_json for every generated program: AST serialise / deserialise / equality / identical re-serialised text / identical analysis of the deserialised AST; every produced stack (global, every block) and the error list serialise / deserialise / equality / identical text. (b) Correspondence of the Lean data-model encoder `encProgram` (Spec/Codec.lean, follows the serde attributes) with serde_json's value of the same AST on programs without float literals. (c) The serde attribute inventory regenerated from the sources equals the one the codec model was written against (inv_serdeShapes). The round-trip theorem dec(enc x) = x of the Lean codec is not written yet, so this is not claimed as proof.",
                technique="native serde_json round trips + Lean data-model encoder compared with serde_json + regenerated serde-attribute inventory",
                nontrivial_instrs=1),
    "C19": dict(level="translation_validation", modules=["SemVerif.Props.C19"],
                theorems=[], profiles=[("wf", 500, 30000), ("chains", 400, 9330), ("wild", 300, 20000)]),
}

for _p in PROPS.values():
    for _k, _v in COMMON.items():
        _p.setdefault(_k, _v)
