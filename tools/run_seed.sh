#!/bin/bash
# run_seed.sh <seed-name> <prop> [<prop>…] : apply seeded/<seed-name>/patch.diff to /repo, run the quick checks, undo.
name=$1; shift
cd /verif
git -C /repo diff --quiet || { echo "/repo has local changes"; exit 2; }
git -C /repo apply /verif/seeded/$name/patch.diff || exit 2
for p in "$@"; do
  mkdir -p work/seed-evidence; out=$(VERIF_EVIDENCE_DIR=/verif/work/seed-evidence python3 check.py $p ${TIER:-quick} 2>&1); rc=$?
  echo "[$name] $p rc=$rc :: $(echo "$out" | grep -E "VIOLATION|quick:|thorough:" | tr '\n' ' ' | cut -c1-400)"
done
git -C /repo checkout -- .
(cd harness && cargo build --release --offline >/dev/null 2>&1); python3 tools/extract.py >/dev/null
