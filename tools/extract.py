#!/usr/bin/env python3
"""Translator: regenerates lean/SemVerif/Generated.lean from /repo/src on every run.

Extracted (DESIGN.md §2.5): the operator priority table and MAX_PRIORITY, the error kinds, the
instruction variants with their field names, the label stems, the Display names of the primitive
types, the panic-site inventory and the global-mutation-site inventory of semantic.rs /
block_state.rs, and the serde attribute inventory of every (de)serialisable type.
Fails loudly (exit 2) when the source does not have the shape it expects.
"""
import re, sys, os

REPO = os.environ.get("VERIF_REPO", "/repo")
OUT = os.path.join(os.path.dirname(os.path.abspath(__file__)), "..", "lean", "SemVerif", "Generated.lean")

def die(msg):
    print("extract.py: " + msg, file=sys.stderr)
    sys.exit(2)

def read(rel):
    try:
        return open(os.path.join(REPO, rel)).read()
    except OSError as e:
        die(str(e))

def strip_comments(src):
    src = re.sub(r"//[^\n]*", "", src)
    return src

def lean_str(s):
    return '"' + s.replace("\\", "\\\\").replace('"', '\\"') + '"'

def enum_variants(src, name):
    m = re.search(r"pub enum %s\b[^{]*\{(.*?)\n\}" % re.escape(name), src, re.S)
    if not m:
        die("enum %s not found" % name)
    body = strip_comments(m.group(1))
    # top-level variants only
    out, depth, cur = [], 0, ""
    for ch in body:
        if ch in "{(":
            depth += 1
        if ch in "})":
            depth -= 1
        if ch == "," and depth == 0:
            out.append(cur.strip()); cur = ""
        else:
            cur += ch
    if cur.strip():
        out.append(cur.strip())
    return [re.sub(r"#\[[^\]]*\]\s*", "", v).strip() for v in out if v.strip()]

OPS = {"Plus": "plus", "Minus": "minus", "Multiply": "multiply", "Divide": "divide", "ShiftLeft": "shiftLeft",
       "ShiftRight": "shiftRight", "And": "and", "Or": "or", "Xor": "xor", "Eq": "eq", "NotEq": "notEq",
       "Great": "great", "Less": "less", "GreatEq": "greatEq", "LessEq": "lessEq"}

def priority_table(ast):
    m = re.search(r"pub const MAX_PRIORITY_LEVEL_FOR_EXPRESSIONS: u8 = (\d+);", ast)
    if not m:
        die("MAX_PRIORITY_LEVEL_FOR_EXPRESSIONS not found")
    maxp = int(m.group(1))
    m = re.search(r"pub const fn priority\(&self\) -> u8 \{\s*match self \{(.*?)\n        \}\n    \}", ast, re.S)
    if not m:
        die("priority() not found")
    body = strip_comments(m.group(1))
    table = {}
    for arm in re.finditer(r"((?:\s*\|?\s*Self::\w+)+)\s*=>\s*(\{[^}]*\}|[^,{]+,)", body):
        pats = re.findall(r"Self::(\w+)", arm.group(1))
        rhs = arm.group(2).strip().strip("{},").strip()
        if rhs == "MAX_PRIORITY_LEVEL_FOR_EXPRESSIONS":
            val = maxp
        elif re.fullmatch(r"\d+", rhs):
            val = int(rhs)
        else:
            die("priority(): cannot read arm %r" % rhs)
        for p in pats:
            table[p] = val
    if set(table) != set(OPS):
        die("priority(): operators %s" % sorted(set(OPS) ^ set(table)))
    return maxp, table

def fn_bodies(src):
    """(name, body-without-comments) for every fn, by brace matching"""
    out = []
    for m in re.finditer(r"\bfn (\w+)\s*(?:<[^>]*>)?\s*\(", src):
        i = src.find("{", m.end())
        semi = src.find(";", m.end())
        if i < 0 or (0 <= semi < i):
            continue
        depth, j = 0, i
        while j < len(src):
            if src[j] == "{":
                depth += 1
            elif src[j] == "}":
                depth -= 1
                if depth == 0:
                    break
            j += 1
        out.append((m.group(1), strip_comments(src[i:j + 1])))
    return out

def cut_codec(src):
    """drop `pub mod rc_serializer { … }` (codec only)"""
    k = src.find("pub mod rc_serializer")
    return src if k < 0 else src[:k]

def panic_sites(files):
    sites = []
    pats = [("unwrap", r"\.unwrap\(\)"), ("expect", r"\.expect\("), ("unreachable", r"unreachable!\("),
            ("panic", r"\bpanic!\("), ("index", r"\w\[[^\]\n]*\]"), ("add", r"\b(?:last_register_number|i)\s*\+\s*1\b"),
            ("todo", r"\b(?:todo|unimplemented)!\("), ("assert", r"\bassert(?:_eq|_ne)?!\(")]
    for rel in files:
        src = cut_codec(read(rel))
        for name, body in fn_bodies(src):
            body = re.sub(r'"(?:[^"\\]|\\.)*"', '""', body)
            body = re.sub(r"#\[[^\]]*\]", "", body)
            for kind, pat in pats:
                n = len(re.findall(pat, body))
                if kind == "index":
                    # vec![…] literals and attribute-like brackets are not indexing
                    n = len([x for x in re.finditer(pat, body) if not body[max(0, x.start() - 4):x.start() + 1].endswith("vec!")])
                if n:
                    sites.append((os.path.basename(rel), name, kind, n))
    # aggregated per file and kind: moving code between functions of a file (extracting a helper)
    # does not change the table, a new or removed site does
    agg = {}
    order = []
    for f, _, kind, n in sites:
        if (f, kind) not in agg:
            agg[(f, kind)] = 0
            order.append((f, kind))
        agg[(f, kind)] += n
    return [(f, kind, agg[(f, kind)]) for f, kind in order]

def body_global_mutators():
    """functions reachable from `function_body` through `self.f(…)` / `Self::f(…)` calls that contain a
    statement mutating `self.global` (C17: bodies are analysed independently) — expected: none"""
    src = read("src/semantic.rs")
    bodies = dict(fn_bodies(src))
    mut = re.compile(r"self\s*\.\s*global\s*\.\s*\w+\s*\.\s*(?:insert|push|remove|clear|retain|drain|entry|get_mut|iter_mut|extend|append|truncate|pop|swap\w*)\s*\(|self\s*\.\s*global(?:\s*\.\s*\w+)*\s*=[^=]")
    seen, todo = set(), ["function_body"]
    while todo:
        f = todo.pop()
        if f in seen or f not in bodies:
            continue
        seen.add(f)
        for g in re.findall(r"(?:self\s*\.|Self::)\s*(\w+)\s*\(", bodies[f]):
            if g in bodies and g not in seen:
                todo.append(g)
    return sorted(f for f in seen if mut.search(bodies[f]))

def mutation_sites():
    src = read("src/semantic.rs")
    sites = []
    pats = [("global.types.insert", r"self\s*\.\s*global\s*\.\s*types\s*\.\s*insert"),
            ("global.constants.insert", r"self\s*\.\s*global\s*\.\s*constants\s*\.\s*insert"),
            ("global.functions.insert", r"self\s*\.\s*global\s*\.\s*functions\s*\.\s*insert"),
            ("global.context", r"self\s*\.\s*global\s*\.\s*context\s*\.\s*(?!clone)\w+\("),
            ("global.remove", r"self\s*\.\s*global\s*\.\s*\w+\s*\.\s*(?:remove|clear|retain|drain|entry|get_mut|iter_mut|extend)"),
            ("global.assign", r"self\s*\.\s*global(?:\s*\.\s*\w+)?\s*=[^=]"),
            ("errors.push", r"self\s*\.\s*errors\s*\.\s*(?!len|is_empty|iter|clone|first|last|get)\w+\("),
            ("context.push", r"self\s*\.\s*context\s*\.\s*(?!len|is_empty|iter|clone|first|last|get)\w+\("),
            ("add_error", r"self\s*\.\s*add_error\("),
            ("add_state_context", r"self\s*\.\s*add_state_context\(")]
    # totals per kind over the whole file (robust against extracting helpers); where a mutation
    # of `self.global` may occur is decided by reachability (`body_global_mutators`)
    tot = {}
    for name, body in fn_bodies(src):
        for kind, pat in pats:
            n = len(re.findall(pat, body))
            if n:
                tot[kind] = tot.get(kind, 0) + n
    return [(kind, tot[kind]) for kind, _ in pats if kind in tot]

def serde_shapes():
    """(file, item name, serde attribute summary, field/variant names) for every item that derives
    Serialize under the codec feature"""
    out = []
    for rel in ["src/ast.rs", "src/semantic.rs", "src/types/mod.rs", "src/types/types.rs", "src/types/expression.rs",
                "src/types/condition.rs", "src/types/error.rs", "src/types/semantic.rs", "src/types/block_state.rs"]:
        src = read(rel)
        for m in re.finditer(r"((?:\s*#\[[^\n]*\]\n|\s*#\[cfg_attr\((?:[^()]|\([^()]*\)|\((?:[^()]|\([^()]*\))*\))*\)\]\n)+)\s*pub (struct|enum) (\w+)", src):
            attrs = m.group(1)
            if "Serialize" not in attrs:
                continue
            tags = re.findall(r"serde\(([^)]*(?:\([^)]*\))?[^)]*)\)", attrs)
            tagstr = ";".join(t.strip() for t in tags)
            name = m.group(3)
            # body
            i = src.find(name, m.start(3)) + len(name)
            rest = src[i:]
            k = re.match(r"\s*(?:<[^{(;]*>)?\s*(?:where[^{]*)?([{(;])", rest, re.S)
            fields = []
            if k and k.group(1) == "{":
                j, depth = i + k.end() - 1, 0
                start = j
                while j < len(src):
                    if src[j] == "{": depth += 1
                    elif src[j] == "}":
                        depth -= 1
                        if depth == 0: break
                    j += 1
                body = strip_comments(src[start + 1:j])
                if m.group(2) == "struct":
                    for fm in re.finditer(r"((?:\s*#\[(?:[^\[\]]|\[[^\]]*\])*\]\s*)*)\s*(?:pub\s+)?(\w+)\s*:", body):
                        fa = ";".join(t.strip().replace("\n", " ") for t in re.findall(r"serde\(((?:[^()]|\([^()]*\))*)\)", fm.group(1)))
                        fa = re.sub(r"\s+", " ", fa)
                        fields.append(fm.group(2) + ("@" + fa if fa else ""))
                else:
                    depth, cur, parts = 0, "", []
                    for ch in body:
                        if ch in "{(<": depth += 1
                        if ch in "})>": depth -= 1
                        if ch == "," and depth == 0:
                            parts.append(cur); cur = ""
                        else:
                            cur += ch
                    parts.append(cur)
                    for part in parts:
                        fa = ";".join(t.strip() for t in re.findall(r"serde\(((?:[^()]|\([^()]*\))*)\)", part))
                        part2 = re.sub(r"#\[(?:[^\[\]]|\[[^\]]*\])*\]", "", part).strip()
                        vm = re.match(r"(\w+)", part2)
                        if vm:
                            shape = "unit"
                            if "{" in part2:
                                shape = "struct:" + ",".join(re.findall(r"(\w+)\s*:", part2[part2.find("{"):]))
                            elif "(" in part2:
                                shape = "tuple%d" % (part2.count(",") + 1 if part2[part2.find("(") + 1:].strip(") \n") else 0)
                            fields.append(vm.group(1) + ":" + shape + ("@" + fa if fa else ""))
            elif k and k.group(1) == "(":
                fields.append("tuple")
            out.append((os.path.basename(rel), m.group(2) + " " + name, tagstr, fields))
    return out

def main():
    ast = read("src/ast.rs")
    maxp, table = priority_table(ast)
    err_kinds = enum_variants(read("src/types/error.rs"), "StateErrorKind")
    instrs = enum_variants(read("src/types/semantic.rs"), "SemanticStackContext")
    instr_shapes = []
    for v in instrs:
        name = re.match(r"\w+", v).group(0)
        fields = re.findall(r"(\w+)\s*:", v[len(name):]) if "{" in v else (["_0"] if "(" in v else [])
        instr_shapes.append((name, fields))
    sem = strip_comments(read("src/semantic.rs"))
    stems = re.findall(r'get_and_set_next_label\(&"(\w+)"\.to_string\(\)\.into\(\)\)', sem)
    if not stems:
        die("no label stems found")
    m = re.search(r"impl Display for PrimitiveTypes \{.*?match self \{(.*?)\};", read("src/types/types.rs"), re.S)
    if not m:
        die("Display for PrimitiveTypes not found")
    prim_names = re.findall(r'Self::(\w+) => "([^"]*)"', m.group(1))
    psites = panic_sites(["src/semantic.rs", "src/types/block_state.rs"])
    msites = mutation_sites()
    bgm = body_global_mutators()
    shapes = serde_shapes()

    L = []
    L.append("import SemVerif.Syntax")
    L.append("/-! GENERATED by tools/extract.py from the Rust sources under /repo/src — do not edit.")
    L.append("Regenerated at the start of every check; the obligations that mention these tables are then re-checked. -/")
    L.append("namespace SemVerif.Generated")
    L.append("")
    L.append("/-- `MAX_PRIORITY_LEVEL_FOR_EXPRESSIONS` -/")
    L.append("def maxPrio : Nat := %d" % maxp)
    L.append("")
    L.append("/-- `ExpressionOperations::priority` -/")
    L.append("def prio : Op → Nat")
    for rust, lean in OPS.items():
        L.append("  | .%s => %d" % (lean, table[rust]))
    L.append("")
    L.append("/-- `StateErrorKind` variants in declaration order -/")
    L.append("def errKinds : List String := [" + ", ".join(lean_str(k) for k in err_kinds) + "]")
    L.append("")
    L.append("/-- `SemanticStackContext` variants with their field names -/")
    L.append("def instrShapes : List (String × List String) := [")
    L.append(",\n".join("  (%s, [%s])" % (lean_str(n), ", ".join(lean_str(f) for f in fs)) for n, fs in instr_shapes))
    L.append("]")
    L.append("")
    L.append("/-- string literals passed to `get_and_set_next_label`, in source order -/")
    L.append("def labelStems : List String := [" + ", ".join(lean_str(s) for s in stems) + "]")
    L.append("")
    L.append("/-- `Display for PrimitiveTypes` -/")
    L.append("def primNames : List (String × String) := [" + ", ".join("(%s, %s)" % (lean_str(a), lean_str(b)) for a, b in prim_names) + "]")
    L.append("")
    L.append("/-- every `unwrap` / `expect` / `unreachable!` / `panic!` / slice index / counter `+ 1` in the")
    L.append("non-codec code of semantic.rs and block_state.rs, per file and kind: (file, kind, occurrences) -/")
    L.append("def panicSites : List (String × String × Nat) := [")
    L.append(",\n".join("  (%s, %s, %d)" % (lean_str(a), lean_str(c), d) for a, c, d in psites))
    L.append("]")
    L.append("")
    L.append("/-- the statements of semantic.rs that mutate `self.global`, `self.errors` or `self.context`, and the")
    L.append("calls of `add_error` / `add_state_context`, per kind: (kind, occurrences) -/")
    L.append("def mutationSites : List (String × Nat) := [")
    L.append(",\n".join("  (%s, %d)" % (lean_str(a), c) for a, c in msites))
    L.append("]")
    L.append("")
    L.append("/-- functions reachable from `function_body` (through `self.f(…)` calls) that contain a statement")
    L.append("mutating `self.global` -/")
    L.append("def bodyGlobalMutators : List String := [" + ", ".join(lean_str(f) for f in bgm) + "]")
    L.append("")
    L.append("/-- serde shape of every item deriving `Serialize` under the `codec` feature:")
    L.append("(file, item, container attributes, fields or variants) -/")
    L.append("def serdeShapes : List (String × String × String × List String) := [")
    L.append(",\n".join("  (%s, %s, %s, [%s])" % (lean_str(a), lean_str(b), lean_str(c), ", ".join(lean_str(f) for f in d)) for a, b, c, d in shapes))
    L.append("]")
    L.append("")
    L.append("end SemVerif.Generated")
    text = "\n".join(L) + "\n"
    out = os.path.normpath(OUT)
    old = open(out).read() if os.path.exists(out) else None
    if old != text:
        open(out, "w").write(text)
        print("extract.py: Generated.lean updated")
    else:
        print("extract.py: Generated.lean unchanged")

if __name__ == "__main__":
    main()
