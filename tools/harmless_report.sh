#!/bin/bash
# harmless_report.sh [H1 H2 …] : applies each behaviour-preserving patch of /verif/harmless to /repo,
# runs all 20 quick checks (evidence redirected), undoes it; prints one line per patch.
cd /verif
hs=${@:-$(ls harmless)}
for h in $hs; do
  [[ -z "$(git -C /repo status --short)" ]] || { echo "repo dirty"; exit 2; }
  git -C /repo apply /verif/harmless/$h/patch.diff || { echo "$h: patch does not apply"; continue; }
  bad=""
  for i in 01 02 03 04 05 06 07 08 09 10 11 12 13 14 15 16 17 18 19 20; do
    out=$(VERIF_EVIDENCE_DIR=/verif/work/seed-evidence python3 check.py C$i quick 2>&1)
    if echo "$out" | grep -q "^VIOLATION"; then bad="$bad C$i"; fi
    echo "$out" | grep -q " quick: obligations \([0-9]*\)/\1," || bad="$bad C$i(obl)"
  done
  git -C /repo checkout -- .
  echo "$h: ${bad:-all 20 quick checks pass, every obligation discharged}"
done
(cd /verif/harness && CARGO_NET_OFFLINE=true cargo build --release --offline >/dev/null 2>&1)
