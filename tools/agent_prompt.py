#!/usr/bin/env python3
"""Prints the prompt given to a mutation sub-agent for one property (text of the property only)."""
import json, sys
pid = sys.argv[1]
extra = sys.argv[2] if len(sys.argv) > 2 else ""
wt = sys.argv[3] if len(sys.argv) > 3 else pid      # worktree name under /tmp/wt
avoid = sys.argv[4] if len(sys.argv) > 4 else ""    # one-line description of an earlier change to stay away from
props = {json.loads(l)["id"]: json.loads(l) for l in open("/verif/properties.jsonl")}
p = props[pid]
if pid in ("C01", "C02", "C14") and not extra:
    d = open("/verif/DESIGN.md").read()
    a = d.index("### 3.1 The rule set")
    b = d.index("### 3.4 Control-flow semantics")
    sec = d[a:b]
    # drop references to the Lean machinery
    sec = sec[:sec.index("In Lean: `refCheck")] + sec[sec.index("### 3.2 The program domain"):]
    extra = "\nThe rule set, program domain and analysis order the property refers to (DESIGN.md §3.1-§3.3; Fn labels are recorded known defects — a change that merely reproduces one of those known defects does not count):\n\n" + sec + "\n"
print(f"""You are helping to evaluate a verification effort for the Rust library mrLSD/semantic-analyzer-rs
(a semantic analyzer: it type-checks and scope-checks a fixed AST and emits a flat semantic instruction stack with
registers and labels). You have your own scratch git worktree of the repository at /tmp/wt/{wt} (work ONLY there;
never touch /repo or /verif, and do not read anything under /verif). The sandbox is offline: use
`cargo test --offline` and `cargo test --offline --features codec` (set CARGO_NET_OFFLINE=true).

Here is a semantic property the library is supposed to satisfy:

  id: {pid}
  title: {p['title']}
  statement: {p['statement']}
  quantifier: {p['quantifier']['text']}
{extra}
YOUR TASK: produce a realistic change to the library source (under /tmp/wt/{wt}/src) that BREAKS this property while
 (a) the crate still compiles without new warnings-as-errors, and
 (b) the existing test suite still passes unedited: `cargo test --offline` AND `cargo test --offline --features codec`
     in /tmp/wt/{wt} must be fully green with your change applied.
The change should look like a plausible bug a maintainer could introduce (a refactoring slip, an off-by-one, a wrong
variable, a dropped propagation to a parent block, a reordered pair of statements, two cooperating sites that each
look fine alone...). It must need something SPECIFIC to manifest — an unusual input, a particular nesting, a
multi-step sequence, a name that collides with a generated name, a second sibling block, etc. — not something that
ordinary use would expose at once (and obviously not something the existing tests catch).

Also write a demonstration: a Rust integration test file (it will be placed in tests/) that uses only the crate's public
API, which FAILS with your change applied and PASSES on the unchanged tree. Look at the existing files under tests/ for
how ASTs are built (e.g. tests/utils.rs helpers, `State::default()`, `state.run(&main)`, `state.context[0].borrow().get_context().get()`).
The demonstration must assert the property itself (as stated above) on a concrete input, not an incidental detail.

Deliverables (write exactly these files):
  /tmp/wt/{wt}-out/patch.diff   — `git -C /tmp/wt/{wt} diff` of your source change only (src/ only, not the demo test)
  /tmp/wt/{wt}-out/demo.rs      — the demonstration test file (self-contained; may `mod utils;` like the existing tests if it
                                   only uses what tests/utils.rs already provides)
  /tmp/wt/{wt}-out/notes.md     — 5–15 lines: what the change is, why the suite does not notice, what exactly is needed for
                                   it to manifest, and the commands you ran with their outcome (suite green with the change,
                                   demo fails with the change, demo passes without it).
Verify all three claims yourself by actually running the commands before you finish. If your first idea is caught by the
existing tests, try another one. Leave the worktree with your source change applied and the demo placed in tests/.
{("An earlier exercise already produced this change for the same property: " + avoid + " Produce a DIFFERENT one: another site, another mechanism, another triggering input.") if avoid else ""}
Keep the change small (a few lines). Do not weaken or edit existing tests. Report briefly when done.""")
