#!/usr/bin/env python3
"""Runs every seeded change in /verif/seeded against the quick check of the property it targets
(and optionally others), and writes meta.json next to it.  /repo is restored after each run."""
import json, os, re, subprocess, sys
ROOT = os.path.dirname(os.path.dirname(os.path.abspath(__file__)))
NEEDS = {
 "C01-a": "a function whose body does not end in a return but contains a nested return (ReturnNotFound suppressed by the manual_return flag)",
 "C02-a": "an if with a plain else body where the if body shadows an outer value and the else body uses the outer value in a type- or mutability-sensitive position",
 "C03-a": "an if/else with a non-loop else whose if-body shadows an outer name and whose else-body reads that name",
 "C04-a": "a let that shadows a visible value of a different type",
 "C05-a": "a loop containing an if with a loop-flavoured else body that contains break or continue",
 "C06-a": "a logic condition with three or more comparisons",
 "C07-a": "a chain of at least three operators with priorities low, high, mid",
 "C08-a": "a global constant read in a block nested two or more levels deep",
 "C09-a": "a register written in a block at depth two or more, followed by a register write further out",
 "C10-a": "a label generated two block levels deep followed by a sibling if/loop at an outer level",
 "C11-a": "a return directly in an else body with no other nested return earlier in the function",
 "C12-a": "a let at block depth two or more followed by a let of the same name further out",
 "C13-a": "a loop containing an if with a plain else body that contains a loop-flavoured if",
 "C14-a": "a call with at least two arguments, an earlier one of the wrong type and a later one with its own violation",
 "C15-a": "a function with an unknown type in a non-last parameter position",
 "C16-a": "an earlier recorded error followed by a use of a declared struct type (order dependent)",
 "C17-a": "two adjacent functions where the first one's last error equals the second one's first error",
 "C18-a": "a struct field read inside a block nested at depth two or more",
 "C19-a": "an extension leaf inside a block nested two or more levels deep",
 "C20-a": "a loop directly in the body of an if that is itself inside a loop (serialisation of the global stack fails)",
 "C01-b": "a let in a nested block re-declaring an outer name with another type or mutability, then used in that block (lookup walks the parent chain first)",
 "C02-b": "a parameter or let that shadows a global constant of a different type and is read where the type matters (constant looked up before values)",
 "C05-b": "an if nested in a loop (labels two levels below the function block), followed by a sibling if at function level (label names registered in the direct parent only)",
 "C09-b": "a statement-level call of a function returning () after another register-writing instruction (no register allocated for void calls)",
 "C10-b": "a loop whose body ends with continue and contains a break in a nested if (loop tail skipped after continue)",
 "C11-b": "a return nested two or more blocks deep with no depth-one nested return before it (set_return raises the flag on the direct parent only)",
 "C13-b": "a function whose declaration was rejected (array type in the signature) and whose body has a successful top-level return (HashMap index panic)",
 "C14-b": "an if with both else and else-if (B10) and a fault in its condition or body (IfElseDuplicated reported after them)",
 "C15-b": "two struct declarations with the same name and different attributes (insert-then-check overwrites the first)",
 "C16-b": "a call whose argument fails to analyse un-declares the callee for bodies analysed later",
 "C17-b": "an if with a logic condition in a function analysed after an earlier body recorded an error (global error list consulted)",
 "C18-b": "a non-empty plain else body (analysed in the if-body's block state)",
 "C03-b": "a parameter or let with the name of a global constant, then read (constants resolved before values in expression_operation)",
 "C04-b": "a parameter literally named like a generated name (y.0) plus a fresh let y of another type: parameters' inner names are no longer registered, so the let reuses y.0",
 "C06-b": "a global constant read two or more block levels below the function body (ExpressionConst forwarded to the direct parent's stack only)",
 "C07-b": "an explicitly bracketed sub-expression as the right operand of a folded non-root operation whose inner operators do not all bind tighter (bracket spliced into the chain)",
 "C08-b": "an if guarded by a chained logic condition (a && b): LogicCondition forwarded to the parent block with result and right registers transposed",
 "C12-b": "a parameter named like a generated name (x.0) and a let x in the same function (init_func_params no longer registers the inner name)",
 "C19-b": "two extension leaves evaluated back to back that push equal custom instructions (the stack drops an extension instruction equal to its top entry)",
 "C01-c": "a chain of at least four operands whose last three operators have strictly increasing priority, with an undeclared or wrongly typed operand among the leading ones (the final fold runs once instead of to the root: the leading operand is never analysed)",
 "C02-c": "a let mut x that shadows a visible immutable x, followed by an assignment to x (the shadowing value copies the mutable flag of the shadowed one)",
 "C03-c": "a visible outer x, a shadowing let x two or more blocks deep, then another let x after that body (set_inner_value_name reaches the direct parent only)",
 "C06-c": "a call used as a value whose argument itself allocates a register (the call's register is reserved before the arguments are analysed)",
 "C07-c": "a bracketed chain with an inner priority inversion as the first operand of its chain or as the whole expression (the leading bracket is no longer folded)",
 "C08-c": "an if guarded by a logic condition whose comparison has at least one register-producing operand (the comparison is written to a register number read before its operands were analysed)",
 "C14-c": "an assignment whose target is undeclared and whose right-hand side has its own violation naming another identifier (the target is looked up before the expression is analysed)",
 "C15-c": "a constant whose operation chain has a literal operand before a reference to an undeclared constant (the walk stops at the first literal; this re-introduces the repaired defect F6b)",
 "C11-c": "a function declared with result type () that has a nested return (the with-label form is vetoed for functions without a result)",
 "C12-c": "a shadowing let whose next counter is already taken: the same name re-declared in two sibling blocks, or a look-alike name x.0 (the name probe is skipped for re-declarations)",
 "C19-c": "an assignment to an undeclared or immutable variable whose right-hand side contains an extension leaf (the expression is analysed only after the target checks pass)",
 "C20-c": "a function with an empty body (serde skip_serializing_if on FunctionStatement.body without a default: serialises, does not deserialise)",
 "C04-c": "a block nested two or more levels deep that allocates registers, followed by register-allocating code two or more levels up (set_register reaches only the direct parent, register numbers are re-issued with other types)",
 "C05-c": "an earlier return inside an if or loop of the function, followed by a sibling if/else whose then-branch does not return (the jump to if_end is skipped when the inherited manual_return flag is set)",
 "C09-c": "a plain if/else whose else body writes a register after the condition or the if body wrote one (the else block state is created early and keeps a stale counter)",
 "C10-c": "an if/else with both bodies ending in return and a nested if in one of them (if_end no longer emitted, but the nested if inherits and targets it)",
 "C13-c": "the same fresh local name declared three times in scopes that cannot see each other (name probe retries from the first candidate: analysis does not terminate)",
 "C16-c": "a struct with a struct-typed attribute declared textually before that attribute's type (types() now rejects forward references)",
 "C17-c": "an earlier function calling g with an argument that fails to analyse, and a later function calling g (the callee is removed from the table around the argument loop and not restored on the early return)",
 "C18-c": "an assignment to a mutable variable of an enclosing block from inside a loop or if body (binding copies the looked-up value into the current block's table)",
 "C02-d": "a field read v.attr inside a nested block (body or condition) of a struct value declared in an enclosing block, e.g. a parameter (the StructValue arm looks only in the current block's table)",
 "C03-d": "a visible outer x, a let x inside a nested body, then a read / field read / assignment of x after that body or in a later sibling body (the shadowing let overwrites the entry in the ancestor block that owns the shadowed declaration)",
 "C05-d": "an outer loop with a nested break, containing directly a nested loop whose body ends in a loop-level return (the inner loop's return status suppresses the outer loop's epilogue, SetLabel loop_end included)",
 "C06-d": "redundant brackets around a single value that ends up as the left operand of a binary node: (x) * 3 + 2 (the fast path returns before the operation attached to the outer node)",
 "C08-d": "the same immutable variable in two directly adjacent operand positions: x * x, f(x, x) (the second load instruction is dropped as a duplicate of the stack top, its register is still read)",
 "C09-d": "an if / else-if whose condition has an and/or, at odd block distance from the function body (LogicCondition forwarded to the parent with right register and result register swapped)",
 "C10-d": "an if with Some(empty else body) and no else-if (SetLabel if_else skipped, the conditional still targets it)",
 "C11-d": "a return two or more blocks deep and no return exactly one block deep (JumpFunctionReturn pushed into the direct parent's stack only)",
 "C12-d": "the same name declared in two different ancestor blocks and a read or assignment from a still deeper block that does not declare it (get_value_name returns the outermost declaration)",
 "C18-d": "a let NAME in a nested body where NAME is visible only from an enclosing block (the value is 'updated in place' in the current block's table, where it does not exist, so it is recorded nowhere)",
 "C01-d": "a declared global constant c: T and, in a function, a parameter or let named c of another type U, read where T fits and U does not (constants looked up before locals in the ValueName arm)",
 "C04-d": "a plain else whose body allocates a register after the condition / then-branch allocated some, with another type at a re-issued number (the else block state is created before the condition, with a stale counter)",
 "C07-d": "two different operators of the same priority class meeting in a flat chain, e.g. a * b << c (the fold's tie rule became 'same operator' instead of 'same priority')",
 "C13-d": "a call with more arguments than parameters whose argument in a declared position has the wrong type: callee(1.5, true) for fn callee(a: bool) (the arity guard counts accepted arguments; parameters[i] then indexes past the list)",
 "C14-d": "a constant initialiser with three or more operands where a non-head operand is a literal and a later operand names an undeclared constant (the walk stops at the literal)",
 "C15-d": "a function with a repeated parameter name (its root block is never registered in State::context: the early return of init_func_params skips the registration)",
 "C16-d": "two equal declaration errors and a third, different one that sits between them in one order and not in another (errors.dedup() between the passes)",
 "C17-d": "an earlier function with a nested return and no successfully analysed function-level return, then a later function with a plain function-level return (the with-label flag is a State field that is only cleared when consumed)",
 "C19-d": "a call with two or more arguments, an earlier argument of the wrong type and a later (extension) argument whose parameter type differs from the earlier parameter's (arguments are checked against parameters[accepted so far])",
 "C20-d": "a struct type with an attribute literally named name or methods (serde(flatten) on the attribute map collides with the struct's own keys; the stack no longer deserialises)",
 "C20-b": "a program with code after break / continue / return, whose error list is then serialised (serde(skip) on the three ForbiddenCodeAfter… kinds)",
 "C01-e": "a struct type used in a signature whose attribute map disagrees with the registered declaration (or with the other side of a type comparison) only in an attribute's type: same struct name, same attribute names and order (hand-written PartialEq on StructTypes ignores attr_type)",
 "C11-e": "a function whose nested returns all sit inside a top-level loop with no top-level if after that loop (function_body caches manual_return locally and refreshes it only after a top-level if)",
 "C14-e": "a comparison condition whose left operand is struct-typed and whose right operand has a different type (both B9 clauses violated: the guard order decides the kind of the first error)",
 "C15-e": "a function declaration that precedes a constant declaration in source order, both accepted (run() declares all constants before all functions: the global stack is no longer in source order)",
 "C19-e": "a return directly in a loop body (not inside an if) whose expression contains an extension leaf or anything else that pushes instructions (the expression is analysed with the loop's parent block)",
 "C20-e": "an if inside a loop whose loop-flavoured body has no break or continue at its top level (serde(untagged) on IfBodyStatements: the body deserialises as the If variant)",
}
def sh(cmd, **kw):
    return subprocess.run(cmd, shell=True, stdout=subprocess.PIPE, stderr=subprocess.STDOUT, text=True, **kw).stdout
for name in sorted(os.listdir(os.path.join(ROOT, "seeded"))):
    d = os.path.join(ROOT, "seeded", name)
    if not os.path.isdir(d) or not os.path.exists(os.path.join(d, "patch.diff")):
        continue
    if len(sys.argv) > 1 and name not in sys.argv[1:]:
        continue
    prop = name.split("-")[0]
    if sh("git -C /repo status --short").strip():
        print("repo dirty"); sys.exit(2)
    sh("git -C /repo apply %s/patch.diff" % d)
    out = sh("cd %s && mkdir -p work/seed-evidence && VERIF_EVIDENCE_DIR=%s/work/seed-evidence python3 check.py %s quick" % (ROOT, ROOT, prop))
    rc_line = [l for l in out.splitlines() if l.startswith("VIOLATION")]
    summ = [l for l in out.splitlines() if " quick:" in l]
    failed = [l.strip() for l in out.splitlines() if "FAILED obligation" in l]
    replay = None
    m = re.search(r"replay=(\S+)", rc_line[0]) if rc_line else None
    if m and os.path.exists(m.group(1)):
        r = json.load(open(m.group(1)))
        replay = {k: r.get(k) for k in ("kind", "failing_instance", "case", "program", "cases_failing", "failed_obligations") if k in r}
        if replay.get("program") and len(replay["program"]) > 1500:
            replay["program"] = replay["program"][:1500] + "…"
    sh("git -C /repo checkout -- .")
    meta = {"breaks_property": prop, "needs_to_manifest": NEEDS.get(name, ""),
            "origin": "written by an independent sub-agent that saw only the property text and a scratch worktree of /repo",
            "confirmed": "tools/confirm_seed.sh: existing suite green with the patch (cargo test --offline with and without --features codec), demo fails with it, demo passes without it",
            "check_run": "python3 check.py %s quick (with the patch applied to /repo, undone afterwards)" % prop,
            "detected": bool(rc_line), "verdict_line": rc_line[0] if rc_line else None,
            "summary": summ[0] if summ else None, "broken_obligations": failed, "replay_excerpt": replay}
    json.dump(meta, open(os.path.join(d, "meta.json"), "w"), indent=1)
    print(name, "detected" if rc_line else "MISSED", "|", (rc_line or [""])[0][:120], "|", (summ or [""])[0][:150])
sh("cd %s/harness && cargo build --release --offline" % ROOT)
sh("cd %s && python3 tools/extract.py" % ROOT)
