p='/verif/lean/SemVerif/Lemmas/FlowAna.lean'
s=open(p).read()
if "import SemVerif.Props.C10Res" not in s:
    s=s.replace("import SemVerif.Spec.Findings\n","import SemVerif.Spec.Findings\nimport SemVerif.Props.C10Res\n")

def gen(kind):
    if kind=='ifb':
        fn='ifBody'; pats='lEnd, ll, b, rc'; ns='IfBodyStmt'; brk='hasBrkL'; low='low_ifb'
        forb='rc false false'; K='(KOf ll b)'; lowfn='IfBodyStmt.lowerL'
        rec=lambda l,rc,bc,cc: 'lay_ifBody hg hn %s lEnd ll b %s' % (l,rc)
        steps=lambda l,rc,bc,cc,st='_': '(steps_ifBody g %s lEnd ll %s %s)' % (l,rc,st)
        ifargs='(some lEnd) ll'
        body=True; hasbc=False
        nilgen="ifBody g [] lEnd ll rc' s'"
        niltrue="ifBody g [] lEnd ll true s'"
    elif kind=='ifl':
        fn='ifLoopBody'; pats='lEnd, lb, le, b, rc, bc, cc'; ns='IfLoopStmt'; brk='hasBrkL'; low='low_ifl'
        forb='rc bc cc'; K='(some (lb, le, b))'; lowfn='IfLoopStmt.lowerL'
        rec=lambda l,rc,bc,cc: 'lay_ifLoopBody hg hn %s lEnd lb le b %s %s %s' % (l,rc,bc,cc)
        steps=lambda l,rc,bc,cc,st='_': '(steps_ifLoopBody g %s lEnd lb le %s %s %s %s)' % (l,rc,bc,cc,st)
        ifargs='(some lEnd) (some (lb, le))'
        body=True; hasbc=True
        nilgen="ifLoopBody g [] lEnd lb le rc' bc' cc' s'"
        niltrue="ifLoopBody g [] lEnd lb le true false false s'"
    else:
        fn='loopBody'; pats='lb, le, b, rc, bc, cc'; ns='LoopStmt'; brk='nestedBrkL'; low='low_lp'
        forb='rc bc cc'; K='(some (lb, le, b))'; lowfn='LoopStmt.lowerL'
        rec=lambda l,rc,bc,cc: 'lay_loopBody hg hn %s lb le b %s %s %s' % (l,rc,bc,cc)
        steps=lambda l,rc,bc,cc,st='_': '(steps_loopBody g %s lb le %s %s %s %s)' % (l,rc,bc,cc,st)
        ifargs='none (some (lb, le))'
        body=False; hasbc=True
        nilgen="loopBody g [] lb le rc' bc' cc' s'"
        niltrue="loopBody g [] lb le true false false s'"
    cons = 'bodyj_cons' if body else 'cpsl_cons'
    unf = "unfold %s.anaOKL at hok; unfold %s.%s at hbrk; unfold %s.f2L at hf2; unfold %s.f3L at hf3" % (ns,ns,brk,ns,ns)
    flagsub = "subst h1" if not hasbc else "subst h1; subst h2; subst h3"
    fobt = "obtain ⟨h1, _, _, _, _⟩" if not hasbc else "obtain ⟨h1, h2, h3, _, _⟩"
    bcv = 'bc' if hasbc else 'false'
    ccv = 'cc' if hasbc else 'false'
    F = ('false','false','false')
    out=[]
    def simple(ctor, var, est, cps, den, lowname):
        out.append('''  | %(ctor)s :: tl, %(pats)s => by
    intro hok hbrk hf2 hf3 _ s ss hr he
    %(unf)s
    unfold %(fn)s at he ⊢
    dsimp only at he ⊢
    %(fobt)s := cons_facts %(forb)s (%(est)s g %(var)s _).errors_ext %(st1)s.errors_ext he
    %(flagsub)s
    rw [forbidden_fff] at he ⊢
    rw [%(low)s_%(lowname)s]
    exact %(cons)s (%(lowfn)s tl) (%(est)s g %(var)s s).errors_ext %(st2)s.errors_ext he
      (fun e => ⟨cpsv_of (%(cps)s hg hn _ %(var)s s ss hr e), %(den)s hg hn %(var)s s ss hr e⟩)
      (fun d e => %(rec)s hok hbrk hf2 hf3 (fun _ => rfl) _ _ d e)
''' % dict(ctor=ctor,pats=pats,unf=unf,fn=fn,fobt=fobt,forb=forb,est=est,var=var,st1=steps('tl','rc',bcv,ccv),flagsub=flagsub,low=low,lowname=lowname,cons=cons,lowfn=lowfn,st2=steps('tl',*F),cps=cps,den=den,rec=rec('tl',*F)))
    simple('.letB bd','bd','esteps_letBinding','cps_let','den_let','let')
    simple('.bind bd','bd','esteps_binding','cps_bind','den_bind','bind')
    simple('.call c','c','esteps_callStmt','cps_callS','den_callS','call')
    out.append('''  | .loop lbody :: tl, %(pats)s => by
    intro hok hbrk hf2 hf3 _ s ss hr he
    %(unf)s
    simp only [Bool.and_eq_true] at hok
    simp only [Bool.or_eq_false_iff] at hf2 hf3
    unfold %(fn)s at he ⊢
    dsimp only at he ⊢
    %(fobt)s := cons_facts %(forb)s (steps_loopWrap _ (steps_loopBody g lbody) _).errors_ext %(st1)s.errors_ext he
    %(flagsub)s
    rw [forbidden_fff] at he ⊢
    rw [%(low)s_loop]
    exact %(cons)s (%(lowfn)s tl) (steps_loopWrap _ (steps_loopBody g lbody) s).errors_ext %(st2)s.errors_ext he
      (fun e => ⟨lay_loopWrap (loopBody g lbody) (specLoopBody false rg lbody) (LoopStmt.lowerL lbody) (LoopStmt.hasRetL lbody)
          (LoopStmt.nestedBrkL lbody) %(K)s (steps_loopBody g lbody)
          (fun lb le s ss => den_loopBody hg hn lbody lb le false false false hok.1 s ss)
          (fun lb le b' s ss d e hb' => lay_loopBody hg hn lbody lb le b' false false false hok.1 hb' hf2.1 hf3.1.2 (fun _ => rfl) s ss d e)
          (fun lb le s h => by rcases ret_loopBody g lbody lb le false false false s h with h | h; cases h; exact h)
          hf3.1.1 s ss hr e,
        (den_loopWrap _ (specLoopBody false rg lbody) (steps_loopBody g lbody)
          (fun lb le s ss => den_loopBody hg hn lbody lb le false false false hok.1 s ss) s ss hr e).1⟩)
      (fun d e => %(rec)s hok.2 hbrk hf2.2 hf3.2 (fun _ => rfl) _ _ d e)
''' % dict(pats=pats,unf=unf,fn=fn,fobt=fobt,forb=forb,st1=steps('tl','rc',bcv,ccv),flagsub=flagsub,low=low,cons=cons,lowfn=lowfn,st2=steps('tl',*F),K=K,rec=rec('tl',*F)))
    if body:
        out.append('''  | .ifS i :: tl, %(pats)s => by
    intro hok hbrk hf2 hf3 _ s ss hr he
    cases tl with
    | cons x tl' => unfold %(ns)s.f2L at hf2; cases hf2
    | nil =>
      %(unf)s
      simp only [Bool.and_eq_true] at hok
      simp only [Bool.or_eq_false_iff] at hf3
      unfold %(fn)s at he ⊢
      dsimp only at he ⊢
      have hnil : ∀ (rc' bc' cc' : Bool) (s' : St), (%(nilgen)s) = (s', rc') := by
        intro rc' bc' cc' s'; unfold %(fn)s; rfl
      %(fobt)s := cons_facts %(forb)s (steps_ifCondition g i %(ifargs)s _).errors_ext %(st1)s.errors_ext he
      %(flagsub)s
      rw [forbidden_fff] at he ⊢
      try rw [hnil false false false] at he ⊢
      dsimp only at he ⊢
      obtain ⟨_, hpass⟩ := lay_ifCondition hg hn i %(ifargs)s b hok.1 (fun h => hbrk (by simp [h])) hf2 hf3.1 s ss hr he
      obtain ⟨seg, c1, n1, l1⟩ := hpass lEnd rfl
      rw [%(low)s_if, %(low)s_nil]
      refine ⟨seg, c1, by simpa using n1, ?_⟩
      have l1' : Lay %(K)s _ _ _ _ := l1
      have := Lay.dead [Instr.jumpTo lEnd] l1'
      simpa using this
''' % dict(pats=pats,ns=ns,unf=unf,fn=fn,nilgen=nilgen,fobt=fobt,forb=forb,ifargs=ifargs,st1=steps('[]','rc',bcv,ccv),flagsub=flagsub,low=low,K=K))
    else:
        out.append('''  | .ifS i :: tl, %(pats)s => by
    intro hok hbrk hf2 hf3 _ s ss hr he
    %(unf)s
    simp only [Bool.and_eq_true] at hok
    simp only [Bool.or_eq_false_iff] at hf2 hf3
    unfold %(fn)s at he ⊢
    dsimp only at he ⊢
    %(fobt)s := cons_facts %(forb)s (steps_ifCondition g i %(ifargs)s _).errors_ext %(st1)s.errors_ext he
    %(flagsub)s
    rw [forbidden_fff] at he ⊢
    rw [%(low)s_if]
    exact %(cons)s (%(lowfn)s tl) (steps_ifCondition g i %(ifargs)s s).errors_ext %(st2)s.errors_ext he
      (fun e => ⟨(lay_ifCondition hg hn i %(ifargs)s b hok.1 (fun h => hbrk (by simp [h])) hf2.1 hf3.1 s ss hr e).1 rfl,
        (den_ifCondition hg hn i %(ifargs)s hok.1 s ss hr e).1⟩)
      (fun d e => %(rec)s hok.2 (fun h => hbrk (by simp [h])) hf2.2 hf3.2 (fun _ => rfl) _ _ d e)
''' % dict(pats=pats,unf=unf,fn=fn,fobt=fobt,forb=forb,ifargs=ifargs,st1=steps('tl','rc',bcv,ccv),flagsub=flagsub,low=low,cons=cons,lowfn=lowfn,st2=steps('tl',*F),rec=rec('tl',*F)))
    # ret
    nr = '(nestedReturn g e (forbidden %s s))' % forb
    if body:
        nilpart = '''      have := RetV.body (lEnd := lEnd) (res := ((nestedReturn g e s).1, true)) jr
      simpa using this'''
        conspart = '''      exact jr.cps.thenBody (by rw [jr.cps.eff] at ih; exact ih)'''
    else:
        nilpart = '''      refine ⟨?_, fun _ => ?_⟩
      · simpa using jr.cps
      · simpa using endsRet_lowerRet e (effCount s.root.context)'''
        conspart = '''      refine ⟨jr.cps.trans (by have := ih.1; rw [jr.cps.eff] at this; exact this), fun hr' => endsRet_append _ _ ?_⟩
      have := ih.2 hr'; rw [jr.cps.eff] at this; exact this'''
    out.append('''  | .ret e :: tl, %(pats)s => by
    intro hok hbrk hf2 hf3 _ s ss hr he
    %(unf)s
    unfold %(fn)s at he ⊢
    dsimp only at he ⊢
    have x1 := (steps_nestedReturn g e (forbidden %(forb)s s)).errors_ext
    have x2 := %(st1)s.errors_ext
    %(fobt)s := cons_facts %(forb)s x1 x2 he
    %(flagsub)s
    rw [forbidden_fff] at he x1 x2 ⊢
    obtain ⟨e1, e2⟩ := chain2 x1 x2 he
    obtain ⟨jr, jf⟩ := cps_jret hg hn %(K)s e s ss hr e1
    have jd := den_nestedReturn hg hn e s ss hr e1
    rw [jf] at he e2 ⊢
    simp only [Bool.false_or] at he e2 ⊢
    rw [%(low)s_ret]
    cases tl with
    | nil =>
      have hnil : ∀ (s' : St), (%(niltrue)s) = (s', true) := by
        intro s'; unfold %(fn)s; rfl
      rw [hnil, %(low)s_nil]
      dsimp only
%(nilpart)s
    | cons x tl' =>
      have ih := %(rec)s hok hbrk hf2 hf3 (fun h => by cases h) _ _ jd e2
%(conspart)s
''' % dict(pats=pats,unf=unf,fn=fn,forb=forb,st1=steps('tl','(rc || %s.2)' % nr,bcv,ccv,'%s.1' % nr),fobt=fobt,flagsub=flagsub,K=K,low=low,niltrue=niltrue,nilpart=nilpart,rec=rec("(x :: tl')",'true','false','false'),conspart=conspart))
    if hasbc:
        for (ctor, lab, flagset, lowname, isbrk) in [('.brk','le',('false','true','false'),'brk',True),('.cont','lb',('false','false','true'),'cont',False)]:
            extra_b = ("have hb : b = true := hbrk rfl" if isbrk else "")
            laycall = ("Lay.brk (effCount s.root.context) rest lb le code e" if isbrk else "Lay.cont (effCount s.root.context) rest lb le _ code e")
            st = '((forbidden %s s).push (Instr.jumpTo %s))' % (forb,lab)
            stx = steps('tl','rc','true' if isbrk else 'bc','cc' if isbrk else 'true', st)
            if body:
                nilpart = '''      have := RetV.body (lEnd := lEnd) (res := (s.push (Instr.jumpTo %s), false)) jr
      simpa using this''' % lab
                conspart = '''      exact jr.cps.thenBody (by rw [jr.cps.eff] at ih; exact ih)'''
            else:
                nilpart = '''      refine ⟨?_, fun h => by cases h⟩
      simpa using jr.cps'''
                conspart = '''      refine ⟨jr.cps.trans (by have := ih.1; rw [jr.cps.eff] at this; exact this), fun hr' => endsRet_append _ _ ?_⟩
      have := ih.2 hr'; rw [jr.cps.eff] at this; exact this'''
            out.append('''  | %(ctor)s :: tl, %(pats)s => by
    intro hok hbrk hf2 hf3 _ s ss hr he
    %(unf)s
    %(extra_b)s
    unfold %(fn)s at he ⊢
    dsimp only at he ⊢
    have x1 : ∃ Δ, %(st)s.errors = (forbidden %(forb)s s).errors ++ Δ := ⟨[], by simp [St.push, St.mapFrames]⟩
    have x2 := %(stx)s.errors_ext
    obtain ⟨h1, h2, h3, _, _⟩ := cons_facts %(forb)s x1 x2 he
    subst h1; subst h2; subst h3
    rw [forbidden_fff] at he x1 x2 ⊢
    have e2 := (chain2 x1 x2 he).2
    have jd : DRel (s.push (Instr.jumpTo %(lab)s)) ss := drel_same hr (quiet_push _ (skipped_jumpTo _) _) (vals_push _ _)
    have jr : RetV %(K)s s (s.push (Instr.jumpTo %(lab)s)) ([Flow.%(lowname)s], effCount s.root.context) :=
      ⟨[Instr.jumpTo %(lab)s], rfl, by simp [effCount, Instr.isEffect], fun rest code e => by
        %(substb)s
        simpa using %(laycall)s⟩
    rw [%(low)s_%(lowname)s]
    cases tl with
    | nil =>
      have hnil : ∀ (rc' bc' cc' : Bool) (s' : St), (%(nilgen)s) = (s', rc') := by
        intro rc' bc' cc' s'; unfold %(fn)s; rfl
      rw [hnil, %(low)s_nil]
      dsimp only
%(nilpart)s
    | cons x tl' =>
      have ih := %(rec)s hok %(hbrkarg)s hf2 hf3 (fun h => by cases h) _ _ jd e2
%(conspart)s
''' % dict(hbrkarg=('(fun _ => hb)' if isbrk else 'hbrk'),substb=('subst hb' if isbrk else 'skip'),ctor=ctor,pats=pats,unf=unf,extra_b=extra_b,fn=fn,st=st,forb=forb,stx=stx,lab=lab,K=K,lowname=lowname,laycall=laycall,low=low,nilgen=nilgen,nilpart=nilpart,rec=rec("(x :: tl')",*flagset),conspart=conspart))
    return "".join(out)

a=s.index("  | .letB bd :: tl, lEnd, ll, b, rc => by")
b=s.index("theorem lay_ifLoopBody")
s=s[:a]+gen('ifb')+s[b:]
nil_ifl='''  | [], lEnd, lb, le, b, rc, bc, cc => by
    intro _ _ _ _ hrc s ss hr _
    have : rc = false := hrc rfl
    subst this
    unfold ifLoopBody
    rw [low_ifl_nil]
    refine ⟨[], by simp, by simp [effCount], ?_⟩
    simpa using Lay.jmp (some (lb, le, b)) (effCount s.root.context) lEnd []
'''
s=s.replace("  | _, _, _, _, _, _, _, _ => sorry\n", nil_ifl+gen('ifl'))
nil_lp='''  | [], lb, le, b, rc, bc, cc => by
    intro _ _ _ _ hrc s ss hr _
    have : rc = false := hrc rfl
    subst this
    unfold loopBody
    rw [low_lp_nil]
    exact ⟨CPSv.same rfl, fun h => by cases h⟩
'''
s=s.replace("  | _, _, _, _, _, _, _ => sorry\n", nil_lp+gen('lp'))
open(p,'w').write(s)
