#!/usr/bin/env python3
"""Writes /verif/MANIFEST.json from tools/props_table.py (one check per claimed property)."""
import json, os, sys
ROOT = os.path.dirname(os.path.dirname(os.path.abspath(__file__)))
sys.path.insert(0, os.path.join(ROOT, "tools"))
from props_table import PROPS, NOT_CLAIMED
props = [json.loads(l)["id"] for l in open(os.path.join(ROOT, "properties.jsonl"))]
checks = []
for p in props:
    if p not in PROPS:
        continue
    s = PROPS[p]
    checks.append({
        "property_id": p,
        "quick_cmd": "python3 check.py %s quick" % p,
        "thorough_cmd": "python3 check.py %s thorough" % p,
        "evidence_file": "evidence/%s.json" % p,
        "replay_cmd_template": "python3 check.py %s quick --replay {path}" % p,
        "engine": "lean4-model+correspondence",
        "level_claimed": {"category": s["level"], "text": s["claim"], "design_ref": s.get("design_ref", "DESIGN.md §4 " + p)},
        "level_note": s["note"],
        "technique": s["technique"],
    })
m = {
    "version": 1,
    "setup_cmd": "./setup.sh",
    "hooks": {"guard": "semantic_analyzer_verif", "enable": "none needed: every observation point the properties name is public API (State.{global,context,errors}, BlockState fields, get_context()); the harness links /repo as a path dependency with feature codec",
              "baseline_off_cmd": "cd /repo && cargo test --workspace --no-fail-fast --offline", "source_commits": [], "add_only": True},
    "engines": [{"name": "lean4-model+correspondence", "path": "lean/ harness/ check.py", "serves_properties": [c["property_id"] for c in checks],
                 "kind_free_text": "hand-written total Lean 4 model of the analyzer with machine-checked theorems, tied to /repo on every run by a differential correspondence check (Rust harness runs the real analyzer in-process, Lean driver runs the model and the property predicates on both results) and by a translator that regenerates the tabular parts of the model from the Rust source"}],
    "checks": checks,
    "not_applicable": [{"property_id": p, "reason": NOT_CLAIMED.get(p, "check under construction; not yet claimed")} for p in props if p not in PROPS],
    "notes": "See DESIGN.md. Known genuine defects are listed in known_findings.json; four were repaired in /repo by fix: commits (07784ca, cf45700, 28d3617, 94a983e).",
}
json.dump(m, open(os.path.join(ROOT, "MANIFEST.json"), "w"), indent=1)
print("MANIFEST.json: %d checks, %d not claimed" % (len(checks), len(m["not_applicable"])))
